"""G8 — where every constructor option ends up AFTER validation, regenerated from /repo's current source (Python `ast` only).

Emits lean/TempestVerif/Gen/CtorPath.lean:

  componentArgs   SamplerCore.__init__: (component class, keyword, kind, option) for every keyword whose value is
                  `config.<option>` (kind "opt"), `config.<option> is not None` (kind "notNone") or an expression mentioning
                  options (kind "derived")
  ctorStores      (class, attribute, kind, option): attributes of the component classes that hold an option
  resampleChain   the `if self.resample == <lit> … elif …` chain of `Resampler.run`: literals, has-else, and whether every
                  branch binds the index variable that is used after the chain
  kernelChain     the `if sample == <lit>: return f(…) … else: return g(…)` chain of `mcmc.parallel_mcmc`
  kernelRunners   function -> runner class it instantiates;  runnerMethods: class -> methods defined;  abstractMethods
  uses            every place where (a value that IS) an option is consumed downstream of the validation:
                  (site "Class.method", option, syntactic context tag, guard) — found by a small inter-procedural data
                  flow: options enter as `config.<f>` / `self.config.<f>`, flow through keyword / positional arguments into
                  constructor and function parameters, through `self.<attr> = <param>` stores into attributes, through
                  plain local aliases, and (for iterables) into loop variables.

The translator never guesses: a statement shape it does not understand makes it return `unavailable`; a CONTEXT it does not
know is still emitted (tag `unknown:<…>`) — the Lean side has no semantics for it, so the totality theorem stops checking
(`C18_uses_contexts_known`) and somebody has to look.
"""
import ast
import os

from harness import common

FIELDS = ["prior_transform", "log_likelihood", "n_dim", "n_particles", "ess_ratio", "volume_variation",
          "log_likelihood_args", "log_likelihood_kwargs", "vectorize", "blobs_dtype", "periodic", "reflective", "pool",
          "clustering", "normalize", "cluster_every", "split_threshold", "n_max_clusters",
          "sample", "n_steps", "n_max_steps", "resample", "output_dir", "output_label", "random_state"]

MODULES = ["tempest/sampler.py", "tempest/config.py", "tempest/core.py", "tempest/state_manager.py", "tempest/steps/reweight.py",
           "tempest/steps/train.py", "tempest/steps/resample.py", "tempest/steps/mutate.py", "tempest/mcmc.py",
           "tempest/cluster.py", "tempest/tools.py", "tempest/modes.py"]

COMPONENTS = ["Reweighter", "HierarchicalGaussianMixture", "Trainer", "Resampler", "Mutator"]

# functions that restore a pickled object: what they assign is a value that was an option of the run that was saved
RESTORE_FUNCS = {"update_from_dict", "from_dict", "load_state", "__setstate__"}

# keyword of HierarchicalGaussianMixture(...) -> slot of Model.ConfigSpec.Wired (the value G2's wiring table computes)
WIRED_SLOTS = {"max_iterations": "maxIter", "min_points": "minPoints"}

CMP = {ast.Lt: "lt", ast.LtE: "le", ast.Gt: "gt", ast.GtE: "ge"}
BIN = {ast.Add: "add", ast.Sub: "sub", ast.Mult: "mul", ast.Div: "div", ast.Mod: "mod", ast.FloorDiv: "floordiv", ast.Pow: "pow",
       ast.MatMult: "matmul"}


class Unavailable(Exception):
    pass


def _src(node):
    try:
        return ast.unparse(node)[:80]
    except Exception:  # pragma: no cover
        return type(node).__name__


def _dotted(node):
    if isinstance(node, ast.Name):
        return node.id
    if isinstance(node, ast.Attribute):
        b = _dotted(node.value)
        return None if b is None else b + "." + node.attr
    return None


def _callee_name(node):
    """like _dotted, but sees through call chains: `np.eye(n).reshape` -> "np.eye().reshape" """
    if isinstance(node, ast.Name):
        return node.id
    if isinstance(node, ast.Attribute):
        b = _callee_name(node.value)
        return None if b is None else b + "." + node.attr
    if isinstance(node, ast.Call):
        b = _callee_name(node.func)
        return None if b is None else b + "()"
    return None


# ------------------------------------------------------------------ program table
class Program:
    def __init__(self):
        self.funcs = {}      # qualname -> FunctionDef   ("Class.method" or "function")
        self.classes = {}    # name -> ClassDef
        self.bases = {}      # name -> [base names]
        for rel in MODULES:
            path = os.path.join(common.REPO, rel)
            with open(path) as fh:
                tree = ast.parse(fh.read(), filename=path)
            for node in tree.body:
                if isinstance(node, ast.FunctionDef):
                    if node.name in self.funcs:
                        raise Unavailable(f"two module-level functions named {node.name}")
                    self.funcs[node.name] = node
                elif isinstance(node, ast.ClassDef):
                    if node.name in self.classes:
                        raise Unavailable(f"two classes named {node.name}")
                    self.classes[node.name] = node
                    self.bases[node.name] = [_dotted(b) for b in node.bases if _dotted(b)]
                    for f in node.body:
                        if isinstance(f, ast.FunctionDef):
                            self.funcs[f"{node.name}.{f.name}"] = f
        self.wrapped = self.find_wrapped()

    def find_wrapped(self):
        """options that reach SamplerConfig as `FunctionWrapper(<option>, …)` (same reading as G2)"""
        fn = self.funcs["Sampler.__init__"]
        wrappers = {}
        for st in fn.body:
            if isinstance(st, ast.Assign) and len(st.targets) == 1 and isinstance(st.targets[0], ast.Name) \
                    and isinstance(st.value, ast.Call) and _dotted(st.value.func) == "FunctionWrapper" \
                    and st.value.args and isinstance(st.value.args[0], ast.Name):
                wrappers[st.targets[0].id] = st.value.args[0].id
        out = []
        for node in ast.walk(fn):
            if isinstance(node, ast.Call) and _dotted(node.func) == "SamplerConfig":
                for kw in node.keywords:
                    if isinstance(kw.value, ast.Name) and wrappers.get(kw.value.id) == kw.arg:
                        out.append(kw.arg)
        return out

    def mro(self, cls):
        out, todo = [], [cls]
        while todo:
            c = todo.pop(0)
            if c in out or c not in self.classes:
                continue
            out.append(c)
            todo += self.bases.get(c, [])
        return out

    def subclasses(self, cls):
        return [c for c in self.classes if cls in self.mro(c)]

    def method(self, cls, name):
        for c in self.mro(cls):
            if f"{c}.{name}" in self.funcs:
                return f"{c}.{name}"
        return None

    def ctor(self, cls):
        """the __init__ that actually binds the arguments: a subclass `__init__(self, *args, **kwargs)` whose first
        statement is `super().__init__(*args, **kwargs)` passes them on"""
        for c in self.mro(cls):
            q = f"{c}.__init__"
            if q not in self.funcs:
                continue
            fn = self.funcs[q]
            a = fn.args
            if a.vararg and a.kwarg and len(a.args) == 1:
                first = fn.body[0]
                if isinstance(first, ast.Expr) and isinstance(first.value, ast.Constant):
                    first = fn.body[1]
                ok = (isinstance(first, ast.Expr) and isinstance(first.value, ast.Call)
                      and _src(first.value) == f"super().__init__(*{a.vararg.arg}, **{a.kwarg.arg})")
                if not ok:
                    raise Unavailable(f"{q} takes */** but does not forward them to super().__init__")
                continue
            if a.vararg or a.kwarg or a.kwonlyargs or a.posonlyargs:
                raise Unavailable(f"{q}: signature with */** parameters")
            return q
        return None


def _params(fn, skip_self):
    names = [a.arg for a in fn.args.args]
    return names[1:] if skip_self else names


# ------------------------------------------------------------------ carriers and guards
# carrier value: (kind, field) with kind in  opt | notNone | optOr | elem

# tests on run-time state that the model knows the course of (everything else on run-time state is `unknown`):
#   pbar        `self.pbar is not None`            always true inside run(): run_sampling installs a ProgressBar
#   warmup      `<beta> == 0.0`                    true in the first iterations of a run, false later: BOTH occur
#   firstIter   `get_history_length() == 0`        BOTH occur
#   blobs       the likelihood returned (logl, blob, …) tuples   (a property of the user's function)
FACT_TESTS = {"self.pbar is not None": "pbar",
              "self.state.get_history_length() == 0": "firstIter",
              "results and isinstance(results[0], (tuple, list)) and (len(results[0]) > 1)": "blobs"}
BETA_NAMES = {"beta", "beta_val"}


def _g_not(g):
    if g == "unknown":
        return g
    if g[0] == "not":
        return g[1]
    return ("not", g)


def _exits(stmts):
    return bool(stmts) and isinstance(stmts[-1], (ast.Return, ast.Raise, ast.Continue, ast.Break))


def _only_options(g):
    if g == "unknown":
        return False
    if isinstance(g, tuple):
        if g[0] == "fact":
            return False
        if g[0] in ("not", "and", "or"):
            return all(_only_options(x) for x in g[1:])
    return True


def _conjuncts(g):
    if isinstance(g, tuple) and g[0] == "and":
        return _conjuncts(g[1]) + _conjuncts(g[2])
    return [g]


def _g_and(a, b):
    if a == "tt":
        return b
    if b == "tt":
        return a
    have = _conjuncts(a)
    out = a
    for x in _conjuncts(b):
        if x not in have or x == "unknown":
            if x == "unknown" and "unknown" in have:
                continue
            out = ("and", out, x)
            have.append(x)
    return out


class Scan:
    """one pass over one function with a given carrier environment"""

    def __init__(self, prog, qual, fn, cls, env, attrs, state_attrs, sink, param_guard=None):
        self.prog, self.qual, self.fn, self.cls = prog, qual, fn, cls
        self.env = dict(env)          # local name -> carrier
        self.params = set(env)
        self.param_guard = dict(param_guard or {})
        self.attrs = attrs            # class attr carriers visible as self.<attr>
        self.state_attrs = state_attrs
        self.sink = sink              # receives uses / bindings / stores
        self.multi = set()
        self.alias_guard = {}         # local alias -> guard under which it was bound to the option
        self.taint = {}               # local computed FROM options (arithmetic, min/max …) -> the options it depends on
        self.beta_locals = set()
        for n in ast.walk(fn):
            if isinstance(n, ast.Assign) and len(n.targets) == 1 and isinstance(n.targets[0], ast.Name) \
                    and ast.unparse(n.value) in ("self.state.get_current('beta')",):
                self.beta_locals.add(n.targets[0].id)

    # ---- carrier lookup
    def carrier(self, node):
        if isinstance(node, ast.Name):
            return self.env.get(node.id)
        d = _dotted(node)
        if d is None:
            return None
        parts = d.split(".")
        if len(parts) == 2 and parts[0] == "config" and parts[1] in FIELDS and self.cls == "SamplerCore":
            return ("wrapped" if parts[1] in self.prog.wrapped else "opt", parts[1])
        if len(parts) == 3 and parts[0] == "self" and parts[1] == "config" and parts[2] in FIELDS and self.cls == "SamplerCore":
            return ("wrapped" if parts[2] in self.prog.wrapped else "opt", parts[2])
        if len(parts) == 2 and parts[0] == "self" and self.cls is not None:
            return self.attrs.get(parts[1])
        if len(parts) == 3 and parts[0] == "self" and parts[1] == "state" and self.cls is not None:
            return self.state_attrs.get(parts[2])
        return None

    def depends(self, node):
        """options a computed value depends on: carriers of kind opt mentioned in it + taints of the locals it reads"""
        out = []
        for n in ast.walk(node):
            if isinstance(n, (ast.Name, ast.Attribute)):
                c = self.carrier(n)
                if c is not None and c[0] == "opt" and c[1] not in out:
                    out.append(c[1])
            if isinstance(n, ast.Name) and n.id in self.taint:
                for f in self.taint[n.id]:
                    if f not in out:
                        out.append(f)
        return out

    def mentions(self, node):
        out = []
        for n in ast.walk(node):
            c = self.carrier(n) if isinstance(n, (ast.Name, ast.Attribute)) else None
            if c is not None and c[1] not in out:
                out.append(c[1])
        return out

    # ---- guards
    def guard_of(self, e):
        src = ast.unparse(e)
        if src in FACT_TESTS:
            return ("fact", FACT_TESTS[src])
        if (isinstance(e, ast.Compare) and len(e.ops) == 1 and isinstance(e.ops[0], ast.Eq) and isinstance(e.left, ast.Name)
                and e.left.id in BETA_NAMES and isinstance(e.comparators[0], ast.Constant) and e.comparators[0].value == 0.0
                and e.left.id in self.beta_locals):
            return ("fact", "warmup")
        c = self.carrier(e)
        if c is not None:
            if c[0] == "opt":
                return ("truthy", c[1])
            if c[0] == "notNone":
                return ("not", ("isNone", c[1]))
            return "unknown"
        if isinstance(e, ast.Compare) and len(e.ops) == 1 and self.carrier(e.left) is not None and self.carrier(e.left)[0] == "wired":
            return "unknown"
        if isinstance(e, ast.UnaryOp) and isinstance(e.op, ast.Not):
            return _g_not(self.guard_of(e.operand))
        if isinstance(e, ast.BoolOp):
            gs = [self.guard_of(v) for v in e.values]
            k = "and" if isinstance(e.op, ast.And) else "or"
            out = gs[-1]
            for g in reversed(gs[:-1]):
                out = (k, g, out)
            return out
        if isinstance(e, ast.Compare) and len(e.ops) == 1:
            c = self.carrier(e.left)
            op, rhs = e.ops[0], e.comparators[0]
            if c is not None and c[0] == "opt":
                if isinstance(op, (ast.Is, ast.IsNot)) and isinstance(rhs, ast.Constant) and rhs.value is None:
                    g = ("isNone", c[1])
                    return g if isinstance(op, ast.Is) else ("not", g)
                if type(op) in CMP and isinstance(rhs, ast.Constant) and type(rhs.value) is int:
                    return ("cmpK", CMP[type(op)], c[1], rhs.value)
                if isinstance(op, (ast.Eq, ast.NotEq)) and isinstance(rhs, ast.Constant) and isinstance(rhs.value, str):
                    g = ("eqStr", c[1], rhs.value)
                    return g if isinstance(op, ast.Eq) else ("not", g)
        if isinstance(e, ast.Call) and _dotted(e.func) == "isinstance" and len(e.args) == 2 and _dotted(e.args[1]) == "int":
            c = self.carrier(e.args[0])
            if c is not None and c[0] == "opt":
                return ("isInt", c[1])
        return "unknown"

    # ---- recording
    def use(self, c, ctx, guard, node):
        kind, f = c
        if isinstance(node, ast.Name) and node.id in self.alias_guard and self.alias_guard[node.id] != "tt":
            guard = _g_and(guard, self.alias_guard[node.id])
        if isinstance(node, ast.Name) and node.id in self.param_guard and self.param_guard[node.id] != "tt":
            guard = _g_and(guard, self.param_guard[node.id])     # the guard of the call that passed the option in
        if kind == "notNone":
            return                       # a Python bool derived from `is not None`: no context can fail on it
        if kind in ("wired", "wiredOr"):
            self.sink.wired_use(self.qual, f, ("orDefault|" if kind == "wiredOr" else "") + ctx, guard, node.lineno, node.col_offset)
            return
        tag = ctx
        if kind == "optOr":
            tag = "orDefault|" + ctx     # None has been replaced by a default of the right type
        if kind == "elem":
            tag = "elem|" + ctx
        if kind == "wrapped":
            tag = "wrapped|" + ctx       # a FunctionWrapper around the option: always callable
        self.sink.use(self.qual, f, tag, guard, node.lineno, node.col_offset)

    # ---- statements
    def run(self):
        self.block(self.fn.body, "tt")

    def block(self, stmts, guard):
        for st in stmts:
            self.stmt(st, guard)
            if isinstance(st, ast.If):
                # `if t: …; return` — what follows runs only when t was false (and symmetrically)
                t = self.guard_of(st.test)
                if _exits(st.body) and not _exits(st.orelse):
                    guard = _g_and(guard, _g_not(t))
                elif _exits(st.orelse) and not _exits(st.body):
                    guard = _g_and(guard, t)

    def stmt(self, st, g):
        if isinstance(st, ast.If):
            self.expr(st.test, g, "truthy")
            t = self.guard_of(st.test)
            # each branch starts from the environment before the `if`; afterwards a local is an alias if either branch
            # made it one (its uses then carry the guard under which it was bound)
            before = dict(self.env)
            self.block(st.body, _g_and(g, t))
            after_body = dict(self.env)
            self.env = dict(before)
            self.block(st.orelse, _g_and(g, _g_not(t)))
            for k, v in after_body.items():
                if k not in self.env:
                    self.env[k] = v
                elif self.env[k] != v:
                    raise Unavailable(f"{self.qual}: local `{k}` carries two different options after an if/else")
        elif isinstance(st, ast.While):
            self.expr(st.test, g, "truthy")
            self.block(st.body, _g_and(g, self.guard_of(st.test)))
            self.block(st.orelse, g)
        elif isinstance(st, ast.For):
            c = self.carrier(st.iter)
            saved = None
            if c is not None:
                self.use(c, "iter", g, st.iter)
                if isinstance(st.target, ast.Name) and c[0] == "opt":
                    # the loop variable carries the ELEMENTS of the option for the duration of the body
                    saved = (st.target.id, self.env.get(st.target.id))
                    self.env[st.target.id] = ("elem", c[1])
            else:
                self.expr(st.iter, g, "iter")
            self.block(st.body, g)
            if saved is not None:
                if saved[1] is None:
                    self.env.pop(saved[0], None)
                else:
                    self.env[saved[0]] = saved[1]
            self.block(st.orelse, g)
        elif isinstance(st, (ast.With,)):
            for it in st.items:
                self.expr(it.context_expr, g, "with")
            self.block(st.body, g)
        elif isinstance(st, ast.Try):
            self.block(st.body, g)
            for h in st.handlers:
                self.block(h.body, _g_and(g, "unknown"))
            self.block(st.orelse, g)
            self.block(st.finalbody, g)
        elif isinstance(st, ast.FunctionDef):          # closure: same environment
            self.block(st.body, _g_and(g, "unknown"))
        elif isinstance(st, ast.Assign):
            self.assign(st.targets, st.value, g)
        elif isinstance(st, ast.AnnAssign):
            if st.value is not None:
                self.assign([st.target], st.value, g)
        elif isinstance(st, ast.AugAssign):
            self.expr(st.value, g, BIN.get(type(st.op), "binop") + ":right:expr")
            self.expr(st.target, g, BIN.get(type(st.op), "binop") + ":left:expr")
            if isinstance(st.target, ast.Name) and st.target.id in self.env and st.target.id not in self.params:
                # `n += …` on a local alias of an option: from here on the local is a value computed FROM the option
                c0 = self.env.pop(st.target.id)
                if c0[0] == "opt":
                    self.taint[st.target.id] = sorted(set(self.taint.get(st.target.id, [])) | {c0[1]} | set(self.depends(st.value)))
        elif isinstance(st, ast.Return):
            if st.value is not None:
                self.expr(st.value, g, "store")
        elif isinstance(st, ast.Expr):
            self.expr(st.value, g, "discard")
        elif isinstance(st, ast.Raise):
            if st.exc is not None:
                self.expr(st.exc, g, "store")
        elif isinstance(st, (ast.Import, ast.ImportFrom, ast.Pass, ast.Break, ast.Continue, ast.Global, ast.Nonlocal)):
            pass
        elif isinstance(st, ast.Assert):
            self.expr(st.test, g, "truthy")
        elif isinstance(st, ast.Delete):
            pass
        else:
            raise Unavailable(f"{self.qual}: statement `{_src(st)}`")

    def bind_local(self, name, c, g="tt"):
        if name not in self.alias_guard:
            self.alias_guard[name] = g
        elif self.alias_guard[name] != g:
            self.alias_guard[name] = "unknown" if self.alias_guard[name] != g else g
        old = self.env.get(name)
        if old is not None and old != c:
            raise Unavailable(f"{self.qual}: local `{name}` carries two different options ({old} / {c})")
        self.env[name] = c

    def assign(self, targets, value, g):
        c = self.carrier(value)
        derived = None
        if c is None and isinstance(value, ast.IfExp):
            # `[] if args is None else args` / `x if x is not None else d`  ->  the option with None replaced by a default
            t = value.test
            if (isinstance(t, ast.Compare) and len(t.ops) == 1 and isinstance(t.ops[0], (ast.Is, ast.IsNot))
                    and isinstance(t.comparators[0], ast.Constant) and t.comparators[0].value is None and self.carrier(t.left) is not None):
                cc = self.carrier(t.left)
                keep, dflt = (value.orelse, value.body) if isinstance(t.ops[0], ast.Is) else (value.body, value.orelse)
                if self.carrier(keep) == cc and self.carrier(dflt) is None and cc[0] in ("opt", "wired"):
                    derived = ("optOr" if cc[0] == "opt" else "wiredOr", cc[1])
                    self.use(cc, "isNone", g, t.left)
                    self.expr(dflt, g, "store")
        if c is None and isinstance(value, ast.Compare) and len(value.ops) == 1 and isinstance(value.ops[0], ast.IsNot) \
                and isinstance(value.comparators[0], ast.Constant) and value.comparators[0].value is None:
            cc = self.carrier(value.left)
            if cc is not None and cc[0] == "opt":
                derived = ("notNone", cc[1])
                self.use(cc, "isNone", g, value.left)
        cv = c if c is not None else derived
        for t in targets:
            if cv is not None and isinstance(t, ast.Name):
                self.bind_local(t.id, cv, g)
            elif cv is not None and isinstance(t, ast.Attribute) and isinstance(t.value, ast.Name) and t.value.id == "self" and self.cls:
                self.sink.store(self.cls, t.attr, cv, self.qual)
            elif cv is not None:
                self.use(cv, "store", g, value)     # dict slot, tuple unpacking …: stored, not consumed
            elif isinstance(t, ast.Name):
                pass                                 # (re)binding of a local: not a use
            else:
                # the target may still mention carriers (u[..., idx] = …)
                self.expr(t, g, "store")
        if cv is None and derived is None:
            dep = self.depends(value)
            for t in targets:
                if isinstance(t, ast.Name) and dep:
                    self.taint[t.id] = sorted(set(self.taint.get(t.id, [])) | set(dep))
        if cv is None and derived is None:
            # assignment of a non-carrier: if a local that was a carrier is overwritten we lose track -> refuse
            self.expr(value, g, "store")
            for t in targets:
                if isinstance(t, ast.Name) and t.id in self.env and t.id not in self.params:
                    self.multi.add(t.id)
                    del self.env[t.id]

    # ---- expressions
    def expr(self, e, g, ctx):
        """visit `e`, which is evaluated under guard g and whose VALUE is consumed in context `ctx`"""
        c = self.carrier(e)
        if c is not None:
            self.use(c, ctx, g, e)
            return
        if isinstance(e, ast.BoolOp):
            acc = g
            for v in e.values:
                self.expr(v, acc, "truthy")
                t = self.guard_of(v)
                acc = _g_and(acc, t if isinstance(e.op, ast.And) else _g_not(t))
        elif isinstance(e, ast.UnaryOp):
            self.expr(e.operand, g, "truthy" if isinstance(e.op, ast.Not) else "neg")
        elif isinstance(e, ast.BinOp):
            op = BIN.get(type(e.op), "binop")
            suffix = "|" + ctx if ctx.startswith("arg:int:") or ctx.startswith("arg:float:") else ""
            self.expr(e.left, g, f"{op}:left:{self.describe(e.right)}{suffix}")
            self.expr(e.right, g, f"{op}:right:{self.describe(e.left)}{suffix}")
        elif isinstance(e, ast.Compare):
            if len(e.ops) == 1:
                op, rhs = e.ops[0], e.comparators[0]
                if isinstance(op, (ast.Is, ast.IsNot)):
                    self.expr(e.left, g, "isNone" if isinstance(rhs, ast.Constant) and rhs.value is None else "is")
                    self.expr(rhs, g, "is")
                elif isinstance(op, (ast.Eq, ast.NotEq)):
                    self.expr(e.left, g, "eq:" + self.describe(rhs))
                    self.expr(rhs, g, "eq:" + self.describe(e.left))
                elif isinstance(op, (ast.In, ast.NotIn)):
                    self.expr(e.left, g, "in:left")
                    self.expr(rhs, g, "in:right")
                else:
                    def other(x):
                        d = self.describe(x)
                        return "expr" if d.startswith("opt:") else d      # ordering against another option: a number too
                    self.expr(e.left, g, f"cmp:{CMP[type(op)]}:{other(rhs)}")
                    self.expr(rhs, g, f"cmp:r{CMP[type(op)]}:{other(e.left)}")
            else:
                self.expr(e.left, g, "cmp:chain")
                for r in e.comparators:
                    self.expr(r, g, "cmp:chain")
        elif isinstance(e, ast.Call):
            self.call(e, g, ctx)
        elif isinstance(e, ast.IfExp):
            self.expr(e.test, g, "truthy")
            t = self.guard_of(e.test)
            self.expr(e.body, _g_and(g, t), ctx)
            self.expr(e.orelse, _g_and(g, _g_not(t)), ctx)
        elif isinstance(e, ast.Attribute):
            cc = self.carrier(e.value)
            if cc is not None:
                self.use(cc, "attr:" + e.attr, g, e.value)
            else:
                self.expr(e.value, g, "attr")
        elif isinstance(e, ast.Subscript):
            self.expr(e.value, g, "subscript:value")
            self.expr(e.slice, g, "index")
        elif isinstance(e, ast.Slice):
            for p in (e.lower, e.upper, e.step):
                if p is not None:
                    self.expr(p, g, "slice")
        elif isinstance(e, (ast.Tuple, ast.List, ast.Set)):
            inner = ctx + ":tuple" if ctx.startswith("arg:") or ctx.startswith("kw:") else ("index" if ctx == "index" else "store")
            for x in e.elts:
                self.expr(x, g, inner)
        elif isinstance(e, ast.Dict):
            for k in e.keys:
                if k is not None:
                    self.expr(k, g, "store")
            for v in e.values:
                self.expr(v, g, "store")
        elif isinstance(e, ast.JoinedStr):
            for v in e.values:
                if isinstance(v, ast.FormattedValue):
                    self.expr(v.value, g, "fmt")
        elif isinstance(e, ast.Starred):
            self.expr(e.value, g, "star")
        elif isinstance(e, (ast.ListComp, ast.GeneratorExp, ast.SetComp)):
            for gen in e.generators:
                c2 = self.carrier(gen.iter)
                if c2 is not None:
                    self.use(c2, "iter", g, gen.iter)
                    if isinstance(gen.target, ast.Name) and c2[0] == "opt":
                        self.bind_local(gen.target.id, ("elem", c2[1]))
                else:
                    self.expr(gen.iter, g, "iter")
                for cond in gen.ifs:
                    self.expr(cond, g, "truthy")
            self.expr(e.elt, g, "store")
        elif isinstance(e, ast.Lambda):
            self.expr(e.body, _g_and(g, "unknown"), "store")
        elif isinstance(e, (ast.Constant, ast.Name)):
            pass
        else:
            if self.mentions(e):
                raise Unavailable(f"{self.qual}: expression `{_src(e)}`")

    def describe(self, other):
        if isinstance(other, ast.Constant):
            v = other.value
            if v is None:
                return "none"
            if isinstance(v, bool):
                return "k:bool"
            if isinstance(v, int):
                return "k"          # the constant itself matters only in guards, where it is kept (`cmpK`)
            if isinstance(v, float):
                return "k:float"
            if isinstance(v, str):
                return "str"
            return "k:other"
        c = self.carrier(other)
        if c is not None and c[0] == "opt":
            return "opt:" + c[1]
        if isinstance(other, ast.JoinedStr):
            return "fstr"
        return "expr"

    def resolve(self, call):
        """-> (qualname of the function whose parameters receive the arguments, skip_self) or None"""
        f = call.func
        if isinstance(f, ast.Name):
            if f.id in self.prog.classes:
                q = self.prog.ctor(f.id)
                return (q, True, f.id) if q else None
            if f.id in self.prog.funcs:
                return (f.id, False, None)
            return None
        if isinstance(f, ast.Attribute) and isinstance(f.value, ast.Name) and f.value.id == "self" and self.cls:
            q = self.prog.method(self.cls, f.attr)
            if q:
                return (q, True, None)
        return None

    def call(self, e, g, ctx):
        f = e.func
        callee = _callee_name(f)
        # the callee expression itself
        cc = self.carrier(f)
        if cc is not None:
            self.use(cc, "call", g, f)
        elif isinstance(f, ast.Attribute):
            c2 = self.carrier(f.value)
            if c2 is not None:
                self.use(c2, "attr:" + f.attr, g, f.value)
                callee = "<option>." + f.attr
            else:
                self.expr(f.value, g, "attr")
        elif not isinstance(f, ast.Name):
            self.expr(f, g, "call")
        if callee is None:
            callee = "<expr>"
        target = self.resolve(e)
        params = None
        if target is not None:
            q, skip, cls = target
            params = _params(self.prog.funcs[q], skip)
        if callee == "int" and len(e.args) == 1 and self.carrier(e.args[0]) is None:
            # `int(<value computed from options through locals>)`: a non-finite float raises here
            through_locals = []
            for n in ast.walk(e.args[0]):
                if isinstance(n, ast.Name) and n.id in self.taint:
                    through_locals += [f for f in self.taint[n.id] if f not in through_locals]
            for f in through_locals:
                self.sink.use(self.qual, f, "derived|arg:int:0", _freeze(g), e.lineno, e.col_offset)
        for i, a in enumerate(e.args):
            if isinstance(a, ast.Starred):
                self.expr(a.value, g, "star")
                continue
            c = self.carrier(a)
            if c is not None and target is not None:
                if i >= len(params):
                    raise Unavailable(f"{self.qual}: too many positional arguments in `{_src(e)}`")
                self.sink.bind(target[0], params[i], c, self.qual, g)
            else:
                self.expr(a, g, f"arg:{callee}:{i}")
        for kw in e.keywords:
            if kw.arg is None:
                self.expr(kw.value, g, "dstar")
                continue
            c = self.carrier(kw.value)
            if c is None and target is not None and target[2] == "HierarchicalGaussianMixture" \
                    and kw.arg in WIRED_SLOTS and self.mentions(kw.value):
                self.expr(kw.value, g, f"kw:{callee}:{kw.arg}")       # the uses inside the expression itself
                self.sink.bind(target[0], kw.arg, ("wired", WIRED_SLOTS[kw.arg]), self.qual, g)
                continue
            if c is not None and target is not None:
                if kw.arg not in params:
                    raise Unavailable(f"{self.qual}: `{_src(e)}` passes an unknown keyword {kw.arg}")
                self.sink.bind(target[0], kw.arg, c, self.qual, g)
            elif callee == "SamplerConfig":
                self.expr(kw.value, g, "pass:SamplerConfig")         # G2 models what SamplerConfig(...) does with it
            else:
                self.expr(kw.value, g, f"kw:{callee}:{kw.arg}")


class Sink:
    def __init__(self):
        self.uses = {}        # (site, field, tag, guard, line, col) -> None
        self.wired = {}       # (site, slot, tag, guard, line, col) -> None
        self.binds = {}       # qualname -> {param: carrier}
        self.bind_guards = {}   # qualname -> {param: guard common to every call site that passes the option}
        self.bind_sites = {}
        self.stores = {}      # class -> {attr: carrier}
        self.changed = False

    def use(self, site, f, tag, guard, line, col):
        self.uses[(site, f, tag, _freeze(guard), line, col)] = None

    def wired_use(self, site, slot, tag, guard, line, col):
        self.wired[(site, slot, tag, _freeze(guard), line, col)] = None

    def bind(self, qual, param, c, where, guard="tt"):
        d = self.binds.setdefault(qual, {})
        if c[0] == "elem":
            return
        # only guards on OPTIONS travel with the binding (facts about the run state are per call, not per function)
        gd = self.bind_guards.setdefault(qual, {})
        keep = [x for x in _conjuncts(guard) if x != "tt" and _only_options(x)]
        gg = "tt"
        for x in keep:
            gg = _g_and(gg, x)
        key = (where, param)
        sites = self.bind_sites.setdefault((qual, param), {})
        sites[where] = gg
        new_g = None
        for v in sites.values():
            new_g = v if new_g is None else (new_g if new_g == v else "tt")
        if gd.get(param) != new_g:
            gd[param] = new_g
            self.changed = True
        if param in d and d[param] != c:
            raise Unavailable(f"parameter {param} of {qual} receives two different options ({d[param]} / {c}; call in {where})")
        if param not in d:
            d[param] = c
            self.changed = True

    def store(self, cls, attr, c, where):
        d = self.stores.setdefault(cls, {})
        if attr in d and d[attr] != c:
            raise Unavailable(f"attribute {cls}.{attr} holds two different options ({d[attr]} / {c}; store in {where})")
        if attr not in d:
            d[attr] = c
            self.changed = True


def _freeze(g):
    return g if isinstance(g, str) else tuple(_freeze(x) if isinstance(x, tuple) else x for x in g)


def _attr_assigned_elsewhere(prog, cls, attr, carrier_sites):
    """`self.<attr> = …` anywhere in the class hierarchy other than the recorded carrier stores"""
    for c in set(prog.mro(cls)) | set(prog.subclasses(cls)):
        for f in prog.classes[c].body:
            if not isinstance(f, ast.FunctionDef):
                continue
            for node in ast.walk(f):
                tg = []
                if isinstance(node, ast.Assign):
                    tg = node.targets
                elif isinstance(node, (ast.AugAssign, ast.AnnAssign)):
                    tg = [node.target]
                for t in tg:
                    for tt in (t.elts if isinstance(t, (ast.Tuple, ast.List)) else [t]):
                        if isinstance(tt, ast.Attribute) and isinstance(tt.value, ast.Name) and tt.value.id == "self" and tt.attr == attr:
                            if (c, f.name, node.lineno) not in carrier_sites and f.name not in RESTORE_FUNCS:
                                return f"{c}.{f.name}:{node.lineno}"
    return None


def analyse():
    prog = Program()
    sink = Sink()
    # seeds: SamplerCore reads config.<f>; Sampler.__init__'s own parameters are the options (before validation);
    # SamplerConfig's methods read self.<f>
    sink.binds["Sampler.__init__"] = {f: ("opt", f) for f in FIELDS}
    sink.stores["SamplerConfig"] = {f: ("opt", f) for f in FIELDS}
    skip = {"SamplerConfig.__post_init__", "SamplerConfig.validate"}        # G2's domain
    for _ in range(12):
        sink.changed = False
        sink.uses = {}
        sink.wired = {}
        for qual, fn in prog.funcs.items():
            if qual in skip:
                continue
            cls = qual.split(".")[0] if "." in qual else None
            env = dict(sink.binds.get(qual, {}))
            attrs = {}
            if cls:
                for c in reversed(prog.mro(cls)):
                    attrs.update(sink.stores.get(c, {}))
                for c in prog.subclasses(cls):
                    pass
            state_attrs = dict(sink.stores.get("StateManager", {}))
            if not env and not attrs and cls != "SamplerCore" and not state_attrs:
                continue
            s = Scan(prog, qual, fn, cls, env, attrs, state_attrs if cls not in (None, "StateManager") else {}, sink,
                     sink.bind_guards.get(qual, {}))
            s.run()
            for name in s.multi:
                if name in s.env and s.env[name][0] != "elem":
                    # a local alias of an option that is also assigned something else: its uses are recorded as uses of
                    # the option (sound: the other value is not an option), nothing to refuse
                    pass
        if not sink.changed:
            break
    else:
        raise Unavailable("carrier propagation did not reach a fixed point")
    # an attribute that carries an option must not be re-assigned anywhere else
    for cls, d in sink.stores.items():
        if cls == "SamplerConfig":
            continue
        for attr in d:
            sites = set()
            for c in prog.mro(cls):
                fn = prog.funcs.get(f"{c}.__init__")
                if fn is None:
                    continue
                for node in ast.walk(fn):
                    if isinstance(node, ast.Assign):
                        for t in node.targets:
                            if isinstance(t, ast.Attribute) and isinstance(t.value, ast.Name) and t.value.id == "self" and t.attr == attr:
                                sites.add((c, "__init__", node.lineno))
            other = _attr_assigned_elsewhere(prog, cls, attr, sites)
            if other:
                raise Unavailable(f"{cls}.{attr} carries option {d[attr][1]} but is also assigned at {other}")
    return prog, sink


# ------------------------------------------------------------------ component wiring table
def component_args(prog):
    fn = prog.funcs["SamplerCore.__init__"]
    out = []
    seen = set()
    for node in ast.walk(fn):
        if isinstance(node, ast.Call) and _dotted(node.func) in COMPONENTS:
            cls = _dotted(node.func)
            if cls in seen:
                raise Unavailable(f"{cls} constructed twice in SamplerCore.__init__")
            seen.add(cls)
            if node.args:
                raise Unavailable(f"positional arguments to {cls}(...)")
            q = prog.ctor(cls)
            params = _params(prog.funcs[q], True)
            for kw in node.keywords:
                if kw.arg is None or kw.arg not in params:
                    raise Unavailable(f"{cls}(...) keyword {kw.arg!r} is not a parameter of {q}")
                v = kw.value
                d = _dotted(v)
                if d and d.startswith("config.") and d[7:] in FIELDS:
                    out.append((cls, kw.arg, "opt", d[7:]))
                elif (isinstance(v, ast.Compare) and len(v.ops) == 1 and isinstance(v.ops[0], ast.IsNot) and _dotted(v.left)
                      and _dotted(v.left).startswith("config.") and isinstance(v.comparators[0], ast.Constant) and v.comparators[0].value is None):
                    out.append((cls, kw.arg, "notNone", _dotted(v.left)[7:]))
                else:
                    ment = sorted({_dotted(n)[7:] for n in ast.walk(v) if isinstance(n, ast.Attribute) and (_dotted(n) or "").startswith("config.")
                                   and _dotted(n)[7:] in FIELDS})
                    if ment:
                        out.append((cls, kw.arg, "derived", "+".join(ment)))
    missing = [c for c in COMPONENTS if c not in seen]
    if missing:
        raise Unavailable(f"SamplerCore.__init__ does not construct {missing}")
    return out


# ------------------------------------------------------------------ dispatch chains
def _eq_lit(test, want):
    """`<want> == "<lit>"` -> lit"""
    if isinstance(test, ast.Compare) and len(test.ops) == 1 and isinstance(test.ops[0], ast.Eq) and _dotted(test.left) == want \
            and isinstance(test.comparators[0], ast.Constant) and isinstance(test.comparators[0].value, str):
        return test.comparators[0].value
    return None


def resample_chain(prog):
    fn = prog.funcs["Resampler.run"]
    chain = None
    idx = None
    for i, st in enumerate(fn.body):
        if isinstance(st, ast.If) and _eq_lit(st.test, "self.resample") is not None:
            if chain is not None:
                raise Unavailable("two dispatch chains on self.resample in Resampler.run")
            chain, idx = st, i
    if chain is None:
        raise Unavailable("no `if self.resample == …` chain in Resampler.run")
    lits, binds, has_else = [], [], False
    node = chain
    while True:
        lit = _eq_lit(node.test, "self.resample")
        if lit is None:
            raise Unavailable(f"Resampler.run: dispatch test `{_src(node.test)}`")
        lits.append(lit)
        binds.append(sorted({t.id for s in node.body for n in ast.walk(s) if isinstance(n, ast.Assign) for t in n.targets if isinstance(t, ast.Name)}))
        if len(node.orelse) == 1 and isinstance(node.orelse[0], ast.If):
            node = node.orelse[0]
            continue
        if node.orelse:
            has_else = True
            binds.append(sorted({t.id for s in node.orelse for n in ast.walk(s) if isinstance(n, ast.Assign) for t in n.targets if isinstance(t, ast.Name)}))
        break
    # names read after the chain that are bound nowhere before it
    before = set(_params(fn, True))
    for st in fn.body[:idx]:
        for n in ast.walk(st):
            if isinstance(n, ast.Assign):
                for t in n.targets:
                    for tt in (t.elts if isinstance(t, ast.Tuple) else [t]):
                        if isinstance(tt, ast.Name):
                            before.add(tt.id)
    after = set()
    for st in fn.body[idx + 1:]:
        for n in ast.walk(st):
            if isinstance(n, ast.Name) and isinstance(n.ctx, ast.Load):
                after.add(n.id)
    chain_bound = set().union(*[set(b) for b in binds]) if binds else set()
    needed = sorted(n for n in after if n in chain_bound and n not in before)
    return {"lits": lits, "binds": binds, "hasElse": has_else, "needed": needed}


def kernel_chain(prog):
    fn = prog.funcs["parallel_mcmc"]
    chain = [st for st in fn.body if isinstance(st, ast.If)]
    if len(chain) != 1:
        raise Unavailable("parallel_mcmc: expected exactly one if-chain")
    node = chain[0]
    branches, other = [], None

    def ret(body):
        if len(body) == 1 and isinstance(body[0], ast.Return) and isinstance(body[0].value, ast.Call) and isinstance(body[0].value.func, ast.Name):
            return body[0].value.func.id
        raise Unavailable(f"parallel_mcmc: branch `{_src(body[0])}`")
    while True:
        lit = _eq_lit(node.test, "sample")
        if lit is None:
            raise Unavailable(f"parallel_mcmc: dispatch test `{_src(node.test)}`")
        branches.append((lit, ret(node.body)))
        if len(node.orelse) == 1 and isinstance(node.orelse[0], ast.If):
            node = node.orelse[0]
            continue
        if node.orelse:
            other = ret(node.orelse)
        break
    # nothing but the docstring and the chain
    rest = [st for st in fn.body if not isinstance(st, ast.If) and not (isinstance(st, ast.Expr) and isinstance(st.value, ast.Constant))]
    if rest:
        raise Unavailable(f"parallel_mcmc: statement `{_src(rest[0])}` beside the dispatch")
    runners = {}
    for _, f in branches + ([("else", other)] if other else []):
        if f not in prog.funcs:
            raise Unavailable(f"parallel_mcmc dispatches to unknown function {f}")
        made = sorted({n.func.id for n in ast.walk(prog.funcs[f]) if isinstance(n, ast.Call) and isinstance(n.func, ast.Name)
                       and n.func.id in prog.classes and "BaseMCMCRunner" in prog.mro(n.func.id)})
        if len(made) != 1:
            raise Unavailable(f"{f} instantiates {made} runner classes")
        runners[f] = made[0]
    base = prog.classes["BaseMCMCRunner"]
    abstract = []
    for f in base.body:
        if isinstance(f, ast.FunctionDef) and any(_dotted(d) == "abstractmethod" for d in f.decorator_list):
            abstract.append(f.name)
    methods = {}
    for c in prog.subclasses("BaseMCMCRunner"):
        if c == "BaseMCMCRunner":
            continue
        got = []
        for k in prog.mro(c):
            if k == "BaseMCMCRunner":
                continue
            got += [f.name for f in prog.classes[k].body if isinstance(f, ast.FunctionDef)]
        methods[c] = sorted(set(got))
    return {"branches": branches, "else": other, "runners": runners, "abstract": abstract, "methods": methods}


# ------------------------------------------------------------------ rendering
def _s(x):
    if '"' in x or "\\" in x or "\n" in x:
        raise Unavailable(f"string with a reserved character: {x!r}")
    return '"' + x + '"'


def _sl(xs):
    return "[" + ", ".join(_s(x) for x in xs) + "]"


def _lean_g(g):
    if g == "tt":
        return ".tt"
    if g == "unknown":
        return ".unknown"
    k = g[0]
    if k in ("truthy", "isNone", "isInt"):
        return f"(.{k} .{g[1]})"
    if k == "cmpK":
        n = g[3]
        return f"(.cmpK .{g[1]} .{g[2]} {('(%d)' % n) if n < 0 else n})"
    if k == "eqStr":
        return f"(.eqStr .{g[1]} {_s(g[2])})"
    if k == "fact":
        return f"(.fact {_s(g[1])})"
    if k == "not":
        return f"(.not {_lean_g(g[1])})"
    if k in ("and", "or"):
        return f"(.{k} {_lean_g(g[1])} {_lean_g(g[2])})"
    raise Unavailable(f"guard {g!r}")


def extract():
    prog, sink = analyse()
    uses = sorted(sink.uses, key=lambda u: (u[0], u[4], u[5], u[1], u[2]))
    stores = []
    for cls in sorted(sink.stores):
        if cls == "SamplerConfig":
            continue
        for attr, (kind, f) in sorted(sink.stores[cls].items()):
            stores.append((cls, attr, kind, f))
    binds = []
    for q in sorted(sink.binds):
        if q == "Sampler.__init__":
            continue
        for p, (kind, f) in sorted(sink.binds[q].items()):
            binds.append((q, p, kind, f))
    wired = sorted(sink.wired, key=lambda u: (u[0], u[4], u[5], u[1], u[2]))
    return {"componentArgs": component_args(prog), "stores": stores, "binds": binds, "uses": uses, "wired": wired,
            "resample": resample_chain(prog), "kernel": kernel_chain(prog)}


def render(t):
    L = ["/- GENERATED by translate/g8_ctorpath.py from /repo's current source — do not edit. -/",
         "import TempestVerif.Model.CtorPath",
         "namespace Gen.CtorPath",
         "open Model.ConfigSpec Model.CtorPath", "",
         "/-- `SamplerCore.__init__`: (component, keyword, kind, option(s)) -/",
         "def componentArgs : List (String × String × String × String) := ["]
    L.append(",\n".join(f"  ({_s(a)}, {_s(b)}, {_s(c)}, {_s(d)})" for a, b, c, d in t["componentArgs"]))
    L += ["]", "", "/-- attributes that hold an option: (class, attribute, kind, option) -/",
          "def stores : List (String × String × String × String) := ["]
    L.append(",\n".join(f"  ({_s(a)}, {_s(b)}, {_s(c)}, {_s(d)})" for a, b, c, d in t["stores"]))
    L += ["]", "", "/-- parameters that receive an option: (function, parameter, kind, option) -/",
          "def binds : List (String × String × String × String) := ["]
    L.append(",\n".join(f"  ({_s(a)}, {_s(b)}, {_s(c)}, {_s(d)})" for a, b, c, d in t["binds"]))
    r = t["resample"]
    L += ["]", "", "/-- `Resampler.run`: literals compared with `self.resample`, names bound per branch, final `else`, names needed after -/",
          f"def resampleLits : List String := {_sl(r['lits'])}",
          "def resampleBinds : List (List String) := [" + ", ".join(_sl(b) for b in r["binds"]) + "]",
          f"def resampleHasElse : Bool := {'true' if r['hasElse'] else 'false'}",
          f"def resampleNeeded : List String := {_sl(r['needed'])}", ""]
    k = t["kernel"]
    L += ["/-- `mcmc.parallel_mcmc`: (literal compared with `sample`, function returned) and the `else` function -/",
          "def kernelBranches : List (String × String) := [" + ", ".join(f"({_s(a)}, {_s(b)})" for a, b in k["branches"]) + "]",
          "def kernelElse : Option String := " + (f"some {_s(k['else'])}" if k["else"] else "none"),
          "def kernelRunners : List (String × String) := [" + ", ".join(f"({_s(a)}, {_s(b)})" for a, b in sorted(k["runners"].items())) + "]",
          f"def abstractMethods : List String := {_sl(k['abstract'])}",
          "def runnerMethods : List (String × List String) := [" + ", ".join(f"({_s(a)}, {_sl(b)})" for a, b in sorted(k["methods"].items())) + "]", "",
          "/-- every downstream consumption of an option: site, option, context tag, guard (source order within a site) -/",
          "def uses : List Use := ["]
    L.append(",\n".join(f"  ⟨{_s(u[0])}, .{u[1]}, {_s(u[2])}, {_lean_g(u[3])}⟩" for u in t["uses"]))
    L += ["]", "", "/-- consumptions of the values G2's wiring table computes (`Wired.maxIter`, `Wired.minPoints`): site, slot, context -/",
          "def wiredUses : List (String × String × String) := ["]
    L.append(",\n".join(f"  ({_s(u[0])}, {_s(u[1])}, {_s(u[2])})" for u in t["wired"]))
    L += ["]", "", "end Gen.CtorPath", ""]
    return "\n".join(L)


def generate():
    try:
        t = extract()
        text = render(t)
    except Unavailable as e:
        return ("G8-ctorpath", "unavailable", str(e))
    except (SyntaxError, OSError, KeyError) as e:
        return ("G8-ctorpath", "unavailable", f"{type(e).__name__}: {e}")
    changed = common.write_if_changed(os.path.join(common.GEN, "CtorPath.lean"), text)
    return ("G8-ctorpath", "ok", f"{'re' if changed else ''}generated Gen/CtorPath.lean ({len(t['uses'])} use sites, "
                                  f"{len(t['stores'])} option-carrying attributes, {len(t['componentArgs'])} component keywords)")


if __name__ == "__main__":
    import pprint
    t = extract()
    for k in ("componentArgs", "stores", "binds", "resample", "kernel"):
        print(k)
        pprint.pprint(t[k], width=170)
    print("wired"); pprint.pprint(t["wired"], width=170)
    print("tags", sorted({u[2] for u in t["uses"]}))
    print("uses", len(t["uses"]))
    for u in t["uses"]:
        print("  ", u[0], u[1], u[2], u[3], u[4])
