"""C19 — clause-audit suites (wave 2): scipy's bisect / opt_nu / func0 against their models, the ModeStatistics construction with
the real fit inside, the degrees-of-freedom paths of Trainer.run, the hand-off to the tpCN kernel in real sampler runs, and the
property's own oracles run on the real code in every check."""
import contextlib
import io
import math
import random as _random
import warnings

import numpy as np

from . import common
from .common import Corr, f2hex, hex2f, flist
from . import c19 as base


# ------------------------------------------------------------------------------------------- scipy.optimize.bisect
def real_bisect(f, a, b, **kw):
    """scipy.optimize.bisect on `f`, every evaluation recorded; -> (kind, value), [(x, f(x))]"""
    from scipy import optimize
    ev = []

    def fw(x):
        with np.errstate(all="ignore"):
            y = float(f(float(x)))
        ev.append((float(x), y))
        return y

    try:
        with warnings.catch_warnings():
            warnings.simplefilter("ignore")
            r = optimize.bisect(fw, a, b, **kw)
        out = ("root", float(r))
    except ValueError as e:
        out = ("nanerr", ev[-1][0]) if "NaN" in str(e) else ("signerr", None)
    except RuntimeError:
        out = ("converr", None)
    return out, ev


BIS_FAMILIES = ("optnu_bracket", "cubic", "same_sign", "zero_at_a", "zero_at_b", "exact_mid", "nan_at_k", "step", "underflow",
                "small_maxiter", "custom_tol", "reversed", "inf_values", "neg_zero")


def _bis_case(rng, fam):
    """(f, a, b, kw) — f deterministic in x except for `nan_at_k` (which counts its calls; bisect never repeats a point)"""
    kw = {}
    F = np.float64
    if fam == "optnu_bracket":
        c, k = F(10.0 ** rng.uniform(-3, 3)), F(10.0 ** rng.uniform(-4, 2))
        return (lambda x: c / F(x) - k), 1e-300, 1e6, kw
    a = float(rng.randint(-8, 4)) + rng.choice([0.0, 0.5, 0.25])
    b = a + float(rng.randint(1, 12)) * rng.choice([1.0, 0.5, 4.0])
    r = a + (b - a) * rng.uniform(0.02, 0.98)
    s = rng.choice([1.0, -1.0])
    if fam == "cubic":
        return (lambda x: s * (x - r) * (x * x + 1.0)), a, b, kw
    if fam == "same_sign":
        return (lambda x: s * (x * x + 1.0)), a, b, kw
    if fam == "zero_at_a":
        return (lambda x: s * (x - a)), a, b, kw
    if fam == "zero_at_b":
        return (lambda x: s * (x - b)), a, b, kw
    if fam == "exact_mid":
        m = rng.randint(1, 6)
        j = rng.randrange(1, 2 ** m)
        z = a + (b - a) * j / 2.0 ** m
        return (lambda x: s * (x - z)), a, b, kw
    if fam == "nan_at_k":
        k = rng.randint(0, 8)
        box = {"n": 0}

        def f(x):
            box["n"] += 1
            return float("nan") if box["n"] - 1 == k else s * (x - r)
        return f, a, b, kw
    if fam == "step":
        return (lambda x: s if x < r else -s), a, b, kw
    if fam == "underflow":
        return (lambda x: s * 1e-170 * (r - x)), a, b, kw
    if fam == "small_maxiter":
        kw["maxiter"] = rng.randint(1, 6)
        return (lambda x: s * (x - r)), a, b, kw
    if fam == "custom_tol":
        kw["xtol"] = 10.0 ** rng.uniform(-9, -1)
        kw["rtol"] = 10.0 ** rng.uniform(-15, -3)
        if rng.random() < 0.3:
            kw["maxiter"] = rng.randint(3, 40)
        return (lambda x: s * (x - r) ** 3), a, b, kw
    if fam == "reversed":
        return (lambda x: s * (x - r)), b, a, kw
    if fam == "inf_values":
        return (lambda x: s * float("inf") if x < r else -s), a, b, kw
    # neg_zero: the function returns -0.0 on a whole interval around a dyadic point
    m = rng.randint(1, 4)
    z = a + (b - a) * rng.randrange(1, 2 ** m) / 2.0 ** m
    w = (b - a) * 2.0 ** -10
    return (lambda x: -0.0 if abs(x - z) <= w else s * (x - z)), a, b, kw


def correspond_bisect(tier):
    count = 700 if tier == "quick" else 12000
    rng = common.rng_for("C19.bisect")
    c = Corr("bisect-F", "bit-exact (Float model of scipy's bisect.c + _wrap_nan_raise on the table of values the real call saw; result "
                         "kind, root bits and the sequence of evaluation points must coincide)")
    drv = common.Driver()
    lines, exp = [], []
    for t in range(count):
        fam = BIS_FAMILIES[t % len(BIS_FAMILIES)]
        f, a, b, kw = _bis_case(rng, fam)
        out, ev = real_bisect(f, a, b, **kw)
        xs, ys = [x for x, _ in ev], [y for _, y in ev]
        line = f"sbis.F a={f2hex(a)} b={f2hex(b)} xs={flist(xs, f2hex)} ys={flist(ys, f2hex)}"
        if "xtol" in kw:
            line += f" xtol={f2hex(kw['xtol'])}"
        if "rtol" in kw:
            line += f" rtol={f2hex(kw['rtol'])}"
        if "maxiter" in kw:
            line += f" maxit={kw['maxiter']}"
        lines.append(line)
        exp.append((fam, out, xs, a, b, kw))
        c.case((fam, f2hex(a), f2hex(b), [f2hex(y) for y in ys[:6]], sorted(kw.items())), len(ev) >= 3 or out[0] != "root")
        c.count("fam_" + fam)
        c.count("res_" + out[0])
    res = drv.batch(lines)
    for (fam, out, xs, a, b, kw), line, ans in zip(exp, lines, res):
        want_v = "-" if out[1] is None else f2hex(out[1])
        want = f"{out[0]} {want_v} {flist(xs, f2hex)}"
        if ans != want:
            c.disagree(input=line[:300], impl=want[:300], model=ans[:300], family=fam)
        c.sample({"family": fam, "a": a, "b": b, "kw": kw, "real": [out[0], out[1]], "evaluations": len(xs)})
    return c


def correspond_bisect_q(tier):
    """regime Q: dyadic brackets / roots / tolerances, so that every floating-point operation of the real bisect is exact and the
    Rat instance of the model (exact arithmetic, the one the theorems are about) must give the same root and evaluation points"""
    from fractions import Fraction
    count = 250 if tier == "quick" else 4000
    rng = common.rng_for("C19.bisectQ")
    c = Corr("bisect-Q", "exact-dyadic (Rat model of scipy's bisect vs the real routine on piecewise-linear / step functions with dyadic "
                         "data, xtol = 2^-k, rtol = 2^-50: no rounding occurs in the real run)")
    drv = common.Driver()
    lines, exp = [], []
    fr = common.frac2s
    for t in range(count):
        a = float(rng.randint(1, 40))
        b = a + float(rng.randint(1, 24))
        m = rng.randint(1, 14)
        z = a + (b - a) * rng.randrange(0, 2 ** m + 1) / 2.0 ** m
        s = rng.choice([1.0, -1.0])
        kind = rng.choice(["linear", "linear", "step", "same_sign", "plateau"])
        if kind == "linear":
            f = lambda x, s=s, z=z: s * (x - z)
        elif kind == "step":
            f = lambda x, s=s, z=z: s if x < z else -s
        elif kind == "same_sign":
            f = lambda x, s=s, a=a: s * (x - a + 1.0)
        else:
            w = (b - a) * 2.0 ** -rng.randint(2, 8)
            f = lambda x, s=s, z=z, w=w: 0.0 if abs(x - z) <= w else s * (x - z)
        kw = {"xtol": 2.0 ** -rng.randint(3, 22), "rtol": 2.0 ** -50}
        if rng.random() < 0.25:
            kw["maxiter"] = rng.randint(1, 12)
        out, ev = real_bisect(f, a, b, **kw)
        xs, ys = [Fraction(x) for x, _ in ev], [Fraction(y) for _, y in ev]
        line = (f"sbis.Q a={fr(Fraction(a))} b={fr(Fraction(b))} xs={flist(xs, fr)} ys={flist(ys, fr)} xtol={fr(Fraction(kw['xtol']))} "
                f"rtol={fr(Fraction(kw['rtol']))}" + (f" maxit={kw['maxiter']}" if "maxiter" in kw else ""))
        lines.append(line)
        want_v = "-" if out[1] is None else fr(Fraction(out[1]))
        exp.append(f"{out[0]} {want_v} {flist(xs, fr)}")
        c.case((a, b, z, s, kind, sorted(kw.items())), len(ev) >= 3 or out[0] != "root")
        c.count("kind_" + kind)
        c.count("res_" + out[0])
    res = drv.batch(lines)
    for line, want, ans in zip(lines, exp, res):
        if ans != want:
            c.disagree(input=line[:300], impl=want[:300], model=ans[:300])
        c.sample({"op": line[:160], "real": want[:80]})
    return c


def correspond_constants(tier):
    """the literals the model hard-codes, against where the real code takes them from"""
    import inspect
    import tempest.student as st
    import tempest.modes as tm
    import tempest.config as tcfg
    from scipy.optimize import _zeros_py as z
    c = Corr("constants", "exact (the model's literals vs the real code: bracket of opt_nu as observed at scipy's bisect, scipy's default "
                          "xtol / rtol / maxiter, the defaults of fit_mvstud and of the two constructors, config.DOF_FALLBACK)")
    drv = common.Driver()
    ans = drv.batch(["nuconst.F"])[0].split(" ")
    model = {"nu_lo": hex2f(ans[0]), "nu_max": hex2f(ans[1]), "xtol": hex2f(ans[2]), "rtol": hex2f(ans[3]), "maxiter": int(ans[4]),
             "tolerance": hex2f(ans[5]), "max_iter": int(ans[6])}
    seen = {}
    from scipy import optimize

    def rec(f, a, b, *args, **kw):
        seen.setdefault("bracket", (float(a), float(b), args, dict(kw)))
        return optimize.bisect(f, a, b, *args, **kw)

    data = base.gen_data(11, 2, 60, "heavy")
    with common.patched(st, "optimize", base._Proxy(optimize, bisect=rec)), contextlib.redirect_stdout(io.StringIO()):
        st.fit_mvstud(data)
    sig = inspect.signature(st.fit_mvstud).parameters
    real = {"nu_lo": seen["bracket"][0], "nu_max": seen["bracket"][1], "xtol": float(z._xtol), "rtol": float(z._rtol),
            "maxiter": int(z._iter), "tolerance": float(sig["tolerance"].default), "max_iter": int(sig["max_iter"].default)}
    for k in model:
        c.case(("const", k), True)
        if f2hex(model[k]) != f2hex(real[k]):
            c.disagree(input=k, impl=repr(real[k]), model=repr(model[k]))
    c.case(("const", "bisect called with scipy's defaults"), True)
    if seen["bracket"][2] != () or seen["bracket"][3] != {}:
        c.disagree(input="bisect arguments", impl=repr(seen["bracket"][2:]), model="no further arguments (scipy's default tolerances)")
    for name, fn in (("from_particles", tm.ModeStatistics.from_particles), ("from_global", tm.ModeStatistics.from_global)):
        sg = inspect.signature(fn).parameters
        c.case(("const", name), True)
        if sg["resample_factor"].default != 4:
            c.disagree(input=name + ".resample_factor", impl=repr(sg["resample_factor"].default), model="4 (trainerRun)")
    # regenerated signatures: the model describes fit_mvstud(data, tolerance, max_iter), from_particles(u, weights, labels,
    # dof_fallback, resample_factor), from_global(u, weights, dof_fallback, resample_factor) and a Trainer whose only state besides
    # its configuration is _clusterer_fitted. A new (optional) argument or attribute is a new input channel of the fit that the
    # model does not have: the tie is not established until it is modelled.
    from tempest.steps.train import Trainer
    import ast
    want_sig = {"fit_mvstud": ["data", "tolerance", "max_iter"],
                "from_particles": ["cls", "u", "weights", "labels", "dof_fallback", "resample_factor"],
                "from_global": ["cls", "u", "weights", "dof_fallback", "resample_factor"],
                "Trainer.__init__": ["self", "state", "pbar", "clusterer", "cluster_every", "clustering", "TRIM_ESS", "TRIM_BINS",
                                     "DOF_FALLBACK"],
                "Trainer.run": ["self", "weights"]}
    got_sig = {"fit_mvstud": list(inspect.signature(st.fit_mvstud).parameters),
               "from_particles": ["cls"] + list(inspect.signature(tm.ModeStatistics.from_particles).parameters),
               "from_global": ["cls"] + list(inspect.signature(tm.ModeStatistics.from_global).parameters),
               "Trainer.__init__": list(inspect.signature(Trainer.__init__).parameters),
               "Trainer.run": list(inspect.signature(Trainer.run).parameters)}
    for k in want_sig:
        c.case(("signature", k), True)
        if got_sig[k] != want_sig[k]:
            c.disagree(input="signature of " + k, impl=repr(got_sig[k]), model=repr(want_sig[k]), signature_changed=k)
    # attributes assigned on self anywhere in the Trainer (static): configuration + the one flag
    tree = ast.parse(inspect.getsource(Trainer))
    assigned = sorted({t.attr for n in ast.walk(tree) if isinstance(n, (ast.Assign, ast.AugAssign, ast.AnnAssign))
                       for t in (n.targets if isinstance(n, ast.Assign) else [n.target])
                       if isinstance(t, ast.Attribute) and isinstance(t.value, ast.Name) and t.value.id == "self"})
    want_attr = sorted(["state", "pbar", "clusterer", "cluster_every", "clustering", "TRIM_ESS", "TRIM_BINS", "DOF_FALLBACK",
                        "_clusterer_fitted"])
    c.case(("signature", "Trainer attributes"), True)
    if assigned != want_attr:
        c.disagree(input="attributes the Trainer assigns on itself", impl=repr(assigned), model=repr(want_attr),
                   signature_changed="Trainer attributes")
    # calls of fit_mvstud in modes.py: the data only (defaults of tolerance / max_iter, no further channel)
    mtree = ast.parse(inspect.getsource(tm))
    calls = [n for n in ast.walk(mtree) if isinstance(n, ast.Call) and isinstance(n.func, ast.Name) and n.func.id == "fit_mvstud"]
    c.case(("signature", "fit_mvstud call sites in modes.py"), True)
    if len(calls) != 2 or any(len(n.args) != 1 or n.keywords for n in calls):
        c.disagree(input="fit_mvstud call sites in modes.py", impl=[ast.unparse(n) for n in calls],
                   model="two calls, fit_mvstud(u_resampled)", signature_changed="fit_mvstud call sites")
    c.case(("const", "config.DOF_FALLBACK finite"), True)
    if not (math.isfinite(float(tcfg.DOF_FALLBACK)) and float(tcfg.DOF_FALLBACK) > 0):
        c.disagree(input="config.DOF_FALLBACK", impl=repr(tcfg.DOF_FALLBACK), model="a positive finite number (assumption of the dof clause)")
    c.sample({"model": model, "real": real})
    return c


# ------------------------------------------------------------------------------------------- opt_nu / func0 inside real fits
SPIKE = "spike"


def gen_spike(seed, d, n):
    """non-degenerate data in which one point carries a large share of the sample (the resampled form of a heavily weighted
    particle): with share > 2/d the score function of nu has no sign change on the bracket and bisect raises ValueError"""
    g = np.random.default_rng(seed)
    x = g.standard_normal((n, d)) * np.exp(g.uniform(-1, 1, size=d)) + g.uniform(-3, 3, size=d)
    share = g.uniform(0.3, 0.95)
    k = min(n - (d + 2), int(share * n))
    if k > 0:
        p = x[0].copy()
        x[g.permutation(n)[:k]] = p
    return np.ascontiguousarray(x)


def _psi(x):
    from scipy import special
    return float(special.psi(x))


def _func0_terms_scale(nu, delta, dim, n):
    with np.errstate(all="ignore"):
        w = (nu + dim) / (nu + delta)
        parts = [abs(_psi(nu / 2)), abs(math.log(nu / 2)), abs(float(np.sum(np.abs(np.log(w)))) / n), abs(float(np.sum(w)) / n), 1.0,
                 abs(_psi((nu + dim) / 2)), abs(math.log((nu + dim) / 2))]
    return float(sum(parts))


def correspond_optnu(tier):
    nfits = 60 if tier == "quick" else 700
    rng = common.rng_for("C19.optnu")
    c = Corr("optnu-F", "bit-exact (Float model of opt_nu — nu_max test, bracket, scipy bisect — on the values func0 returned in the "
                        "real run, observed with sys.setprofile: outcome value/inf/fail, root bits and every evaluation point of func0)")
    c2 = Corr("func0-T", "tolerance 1e-11*(1+sum of |terms|) (Float model of func0 with special.psi supplied as a table vs the value the "
                         "real func0 returned; exact on inf/nan class)")
    drv = common.Driver()
    lines, exp = [], []
    lines2, exp2 = [], []
    for t in range(nfits):
        d = rng.choice([1, 2, 2, 3, 3, 4, 5, 6, 7, 8])
        seed = rng.getrandbits(40)
        if t % 6 == 5:
            law = SPIKE
            n = rng.randint(4 * d + 4, 120)
            data = gen_spike(seed, d, n)
        elif t % 6 == 4:
            law = base.DEGEN[(t // 6) % len(base.DEGEN)]
            n = max(2, (d + rng.randint(1, 2)) if law == "tiny_n" else rng.randint(2, 40))
            data = base.gen_degenerate(seed, d, n, law)
        else:
            law = base.LAWS[t % 4]
            n = rng.randint(4 * d, 160)
            data = base.gen_data(seed, d, n, law)
        maxit = rng.choice([100, 100, 3, 8])
        try:
            r = base.run_real(data, 1e-6, maxit, profile=True)
        except Exception as e:  # noqa — an exception escaping fit_mvstud (the model says: never, see C19_optNu_never_raises)
            c.disagree(input=f"gen seed={seed} d={d} n={n} law={law}", impl=f"fit_mvstud raised {type(e).__name__}: {e}", model="returns",
                       data_hex=[f2hex(v) for v in data.ravel()], shape=[n, d], tol=1e-6, maxit=maxit, degenerate=law in base.DEGEN)
            c.case((seed, d, n, law), False)
            continue
        calls = r["optnu_calls"]
        # which opt_nu calls are replayed: the first three, the last one and two in between
        pick = sorted(set([0, 1, 2, len(calls) - 1, len(calls) // 2, len(calls) // 3]) & set(range(len(calls))))
        for j in pick:
            cl = calls[j]
            xs, ys = [x for x, _ in cl["evals"]], [y for _, y in cl["evals"]]
            if cl["ret"] is None:
                want = "fail"
            elif math.isinf(cl["ret"]):
                want = "inf"
            else:
                want = "val " + f2hex(cl["ret"])
            lines.append(f"optnu.F xs={flist(xs, f2hex)} ys={flist(ys, f2hex)}")
            exp.append((want + " " + flist(xs, f2hex), law, d, n))
            c.case((seed, d, n, law, j), len(xs) >= 3)
            c.count("law_" + law)
            c.count("outcome_" + want.split(" ")[0])
            c.count(f"d={d}")
            # func0 pointwise: a spread of the evaluation points of this call
            m = len(cl["evals"])
            for q in sorted(set([0, 1, 2, 3, m // 2, m - 1]) & set(range(m))):
                nu, fv = cl["evals"][q]
                pxs = [nu / 2, (nu + d) / 2]
                with np.errstate(all="ignore"):
                    pys = [_psi(pxs[0]), _psi(pxs[1])]
                lines2.append(f"func0.F dim={d} n={n} delta={flist(cl['delta'].tolist(), f2hex)} nu={f2hex(nu)} "
                              f"pxs={flist(pxs, f2hex)} pys={flist(pys, f2hex)}")
                exp2.append((nu, fv, cl["delta"], d, n))
                c2.case((seed, d, n, law, j, q), True)
                c2.count("nu<1e-100" if nu < 1e-100 else ("nu<1" if nu < 1 else ("nu<1e3" if nu < 1e3 else "nu>=1e3")))
    res = drv.batch(lines)
    for (want, law, d, n), line, ans in zip(exp, lines, res):
        if ans != want:
            c.disagree(input=line[:300], impl=want[:300], model=ans[:300], law=law, d=d, n=n)
        if law != "gauss":
            c.sample({"law": law, "d": d, "n": n, "real": want[:60], "func0_evaluations": want.count(",") + 1})
    res2 = drv.batch(lines2)
    worst = 0.0
    for (nu, fv, delta, d, n), line, ans in zip(exp2, lines2, res2):
        fm = hex2f(ans) if len(ans) == 16 else float("nan")
        if math.isnan(fv) or math.isinf(fv) or math.isnan(fm) or math.isinf(fm):
            ok = (math.isnan(fv) and math.isnan(fm)) or fv == fm
            # overflow of one of the sums is decided by the summation order when the total is within a factor 2 of DBL_MAX
            if not ok and not math.isnan(fv) and not math.isnan(fm):
                c2.near_ties += 1
                ok = True
        else:
            sc = _func0_terms_scale(nu, delta, d, n)
            err = abs(fm - fv) / (1.0 + sc)
            worst = max(worst, err)
            ok = err <= 1e-11
        if not ok:
            c2.disagree(input=line[:300], impl=repr(fv), model=repr(fm), nu=nu, d=d, n=n)
        c2.sample({"nu": nu, "d": d, "n": n, "real_func0": fv, "model_func0": fm})
    c2.stats["max_err_over_scale"] = worst
    return [c, c2]


# ------------------------------------------------------------------------------------------- ModeStatistics with the real fit
def _uniform_stream(seed, total):
    np.random.seed(seed)
    return [float(v) for v in np.random.random_sample(total)]


def run_modes_real(kind, u, w, labels, fb, rf, seed, fit_override=None):
    """real ModeStatistics.from_global / from_particles under np.random.seed(seed): np.random.choice is the REAL legacy routine
    (its arguments and answer recorded), fit_mvstud is the REAL function run under the observers of base.run_real (whatever
    arguments modes.py passes are forwarded) unless `fit_override(x, *a, **k)` is given"""
    import tempest.modes as tm
    import tempest.student as st
    seen = {"fit": [], "choice": []}
    real_fit = st.fit_mvstud
    real_choice = np.random.choice

    def obs_fit(x, *a, **k):
        x = np.array(x, dtype=float, copy=True)
        if fit_override is not None:
            out = fit_override(x, *a, **k)
            seen["fit"].append({"x": x, "r": None, "args": (a, dict(k))})
            return out
        r = base.run_real(x, call=lambda: real_fit(x, *a, **k))
        seen["fit"].append({"x": x, "r": r, "args": (a, dict(k))})
        nu = r["nu"]
        return r["mu"], r["S"], nu

    def obs_choice(a, size=None, replace=True, p=None):
        idx = real_choice(a, size=size, replace=replace, p=p)
        seen["choice"].append((int(a), int(size), bool(replace), None if p is None else np.array(p, dtype=float, copy=True),
                               np.array(idx, copy=True)))
        return idx

    real_init = tm.ModeStatistics.__init__

    def obs_init(self, means, covariances, degrees_of_freedom, labels=None):
        # the model describes the ARGUMENTS handed to cls(...); whether the constructor then accepts them (np.linalg.inv /
        # cholesky of every covariance) is C14's contract — it refuses the singular scale matrix of a degenerate resample
        seen["ctor_args"] = (np.array(means, dtype=float), np.array(covariances, dtype=float), np.array(degrees_of_freedom, dtype=float),
                             None if labels is None else np.array(labels))
        try:
            real_init(self, means, covariances, degrees_of_freedom, labels)
        except np.linalg.LinAlgError as e:
            seen["ctor_refused"] = str(e)
            raise

    kw = {}
    if fb is not None:
        kw["dof_fallback"] = fb
    if rf is not None:
        kw["resample_factor"] = rf
    with common.patched(tm, "fit_mvstud", obs_fit), common.patched(np.random, "choice", obs_choice), \
            common.patched(tm.ModeStatistics, "__init__", obs_init), \
            contextlib.redirect_stdout(io.StringIO()), warnings.catch_warnings():
        warnings.simplefilter("ignore")
        np.random.seed(seed)
        try:
            if kind == "global":
                ms = tm.ModeStatistics.from_global(u, w, **kw)
            else:
                ms = tm.ModeStatistics.from_particles(u, w, labels, **kw)
        except np.linalg.LinAlgError:
            if "ctor_refused" not in seen:
                raise
            import types
            m_, c_, d_, l_ = seen["ctor_args"]
            ms = types.SimpleNamespace(means=np.atleast_2d(m_), covariances=c_.reshape((-1,) + c_.shape[-2:]),
                                       degrees_of_freedom=np.atleast_1d(d_), labels=l_)
    return ms, seen


def _tape_str(tape):
    return flist(tape, lambda v: v if isinstance(v, str) else f2hex(v))


def _fits_arg(fits):
    # a single empty tape ("-": the first solve raised, opt_nu was never called) must not read as "no fit functions"
    if not fits:
        return "-"
    return "-;-" if list(fits) == ["-"] else ";".join(fits)


def _modes_line(kind, u, w, labels, fbv, rfv, us, fits, extra=""):
    N, d = u.shape
    return (f"smodes.F kind={kind} d={d} N={N} u={flist(u.ravel().tolist(), f2hex)} w={flist(list(w), f2hex)} "
            f"labels={flist([int(v) for v in labels], str)} fb={f2hex(fbv)} rf={rfv} us={flist(us, f2hex)} "
            f"fits={_fits_arg(fits)}{extra}")


def _parse_built(ans):
    t = ans.split(" ")
    if t[0] != "ok" or len(t) != 6:
        return None
    K = int(t[1])
    means = [hex2f(h) for h in common.parse_list(t[2], str)]
    covs = [hex2f(h) for h in common.parse_list(t[3], str)]
    dofs = []
    for s in common.parse_list(t[4], str):
        dofs.append(hex2f(s[4:]) if s.startswith("fin:") else (math.inf if s == "inf" else math.nan))
    labels = None if t[5] == "none" else [int(v) for v in common.parse_list(t[5], str)]
    return K, means, covs, dofs, labels


def _gen_particles(rng, d, K):
    """K separated clusters in the unit cube, raw labels not contiguous, weights with a heavy tail"""
    g = np.random.default_rng(rng.getrandbits(40))
    raw = sorted(rng.sample(range(0, 9), K))
    us, labs = [], []
    for j in range(K):
        nj = rng.randint(max(4 * d, 6), 36)
        ctr = g.uniform(0.2, 0.8, size=d)
        a = g.standard_normal((d, d)) * 0.03 + np.eye(d) * 0.05
        kind = rng.choice(["gauss", "heavy", "heavy"])
        z = g.standard_normal((nj, d)) if kind == "gauss" else g.standard_t(rng.choice([0.7, 1, 2, 3, 5]), size=(nj, d))
        us.append(ctr + z @ a.T)
        labs += [raw[j]] * nj
    u = np.vstack(us)
    labels = np.array(labs)
    perm = g.permutation(len(u))
    u, labels = np.ascontiguousarray(u[perm]), labels[perm]
    w = g.random(len(u)) ** rng.choice([1, 3, 6]) + 1e-3
    if rng.random() < 0.3:
        w = w * rng.choice([1e-8, 1e5])
    return u, w, labels


def correspond_modes(tier):
    count = 90 if tier == "quick" else 900
    rng = common.rng_for("C19.modes")
    c = Corr("modes-F", "bit-exact for the resampling (probabilities through numpy's pairwise sum, legacy np.random.choice on the seeded "
                        "uniform stream: the rows handed to every fit must be the model's rows bit for bit) + tolerance 1e-8 relative to "
                        "per-entry scale for the fitted modes (real fit_mvstud inside the real constructor, Float twin on its opt_nu tape "
                        "with the default tolerance / max_iter); degrees of freedom after the fallback exact")
    drv = common.Driver()
    lines, cases = [], []
    for t in range(count):
        d = rng.choice([1, 2, 2, 3, 4])
        K = 1 if rng.random() < 0.35 else rng.randint(2, 3)
        kind = "global" if (K == 1 and rng.random() < 0.7) else "particles"
        u, w, labels = _gen_particles(rng, d, K)
        fb_spec = rng.choice(base.FB_SPECS)
        fb = base.make_fb(fb_spec)
        wform, uform = rng.choice(["array", "array", "list", "int", "int_list"]), rng.choice(["c64", "c64", "fortran", "list"])
        w_in, u_in = base.form_w(w, wform), base.form_u(u, uform)
        w = np.asarray(w_in, dtype=float)          # the values actually handed over (integer forms are rounded weights)
        rf = rng.choice([None, None, 1, 2, 3])
        seed = rng.getrandbits(31)
        if t % 15 == 14:
            # the shape check of the two constructors: arrays of different lengths -> ValueError before anything is drawn
            which = rng.choice(["w", "labels"]) if kind == "particles" else "w"
            w2, l2 = (w[:-1], labels) if which == "w" else (w, labels[:-1])
            try:
                run_modes_real(kind, u, np.asarray(w2, dtype=float), l2, fb, rf, seed)
                got = "returned"
            except ValueError as e:
                got = "valueerror"
            except Exception as e:  # noqa
                got = f"raised {type(e).__name__}: {e}"
            ans = drv.batch([_modes_line(kind, u, w2, l2, 1e6 if fb is None else float(fb), 4 if rf is None else rf, [], ["echo"])])[0]
            c.case((kind, len(u), which, seed), True)
            c.count("shape_check_valueerror")
            if got != "valueerror" or ans != "valueerror":
                c.disagree(input=f"{kind} N={len(u)} with {which} one short", impl=got, model=ans)
            continue
        try:
            ms, seen = run_modes_real(kind, u_in, w_in, labels, fb, rf, seed)
        except Exception as e:  # noqa
            c.disagree(input=f"{kind} N={len(u)} K={K} d={d} seed={seed} fb={fb!r} weights as {wform} u as {uform}",
                       impl=f"raised {type(e).__name__}: {e}", model="-")
            c.case((t,), False)
            continue
        fbv = 1e6 if fb is None else float(fb)
        rfv = 4 if rf is None else rf
        c.count("fallback_form_" + ("default" if fb_spec is None else fb_spec[0]))
        c.count("weights_form_" + wform)
        c.count("u_form_" + uform)
        total = sum(sz for (_, sz, _, _, _) in seen["choice"])
        us = _uniform_stream(seed, total)
        nm = len(seen["fit"])
        tapes = [_tape_str(f["r"]["tape"]) for f in seen["fit"]]
        lines.append(_modes_line(kind, u, w, labels, fbv, rfv, us, ["echo"] * max(nm, 1)))
        lines.append(_modes_line(kind, u, w, labels, fbv, rfv, us, tapes))
        cases.append((kind, u, w, labels, fbv, rfv, seed, ms, seen, {"fb_spec": fb_spec, "wform": wform, "uform": uform}))
        c.case((kind, len(u), K, d, repr(fb_spec), wform, uform, rf, seed), True)
        c.count(kind)
        c.count(f"K={K}")
        c.count(f"d={d}")
        c.count("rf=" + str(rf))
        if "ctor_refused" in seen:
            c.count("constructor_refused_singular_mode(degenerate_resample)")
        for f in seen["fit"]:
            c.count("fit_stop_" + f["r"]["stop"])
            if f["args"] != ((), {}):
                c.count("fit_called_with_arguments")
    res = drv.batch(lines)
    for i, (kind, u, w, labels, fbv, rfv, seed, ms, seen, forms) in enumerate(cases):
        echo, ans = res[2 * i], res[2 * i + 1]
        d = u.shape[1]
        info = dict(kind=kind, N=len(u), d=d, seed=seed, fb=fbv, rf=rfv, **forms)
        pe, pa = _parse_built(echo), _parse_built(ans)
        if pe is not None and pa is None and ans == "raised" and \
                any(not base._comparable(f["r"], f["x"])[1] for f in seen["fit"]):
            # a solve / Cholesky decision on an ill-conditioned matrix went the other way in the model: its loop ran past the
            # end of the recorded tape. Rounding noise on both sides, not a disagreement; the resampled rows are still compared
            c.near_ties += 1
            c.count("near_tie_illconditioned_mode")
            pa = False
        if pe is None or pa is None:
            c.disagree(input=lines[2 * i][:200], impl="real constructor returned", model=(echo[:80], ans[:80]), **info)
            continue
        # (1) the rows handed to each fit, bit for bit
        flat_real = [v for f in seen["fit"] for v in f["x"].ravel().tolist()]
        if pe[0] != len(seen["fit"]) or [f2hex(v) for v in pe[1]] != [f2hex(v) for v in flat_real]:
            c.disagree(input=lines[2 * i][:200], impl="rows handed to fit_mvstud differ from the model's resampled rows",
                       model=f"K={pe[0]}, {len(pe[1])} numbers", real=f"K={len(seen['fit'])}, {len(flat_real)} numbers", **info)
            continue
        if pa is False:
            continue
        # (2) the constructor's arguments
        K = ms.means.shape[0]
        want_labels = None if ms.labels is None else [int(v) for v in np.asarray(ms.labels).tolist()]
        probs = []
        if pa[0] != K or pa[4] != want_labels:
            probs.append(f"K / labels model={pa[0]},{pa[4]} real={K},{want_labels}")
        else:
            for k in range(K):
                r = seen["fit"][k]["r"]
                x = seen["fit"][k]["x"]
                _, decidable = base._comparable(r, x)
                if not decidable:
                    c.near_ties += 1
                    c.count("near_tie_illconditioned_mode")
                    continue
                mu_m = pa[1][k * d:(k + 1) * d]
                S_m = [pa[2][k * d * d + a * d:k * d * d + (a + 1) * d] for a in range(d)]
                sd0 = np.sqrt(np.abs(np.diag(np.atleast_2d(r["its"][0]["S"])))) if r["its"] else np.sqrt(np.abs(np.diag(ms.covariances[k])))
                wv = base._cmp_state(x, mu_m, S_m, ms.means[k], ms.covariances[k], sd0)
                if not (wv <= base.TOL_T):
                    probs.append(f"mode {k}: |model-real|/scale = {wv:.3g}")
                dr = float(np.asarray(ms.degrees_of_freedom, dtype=float)[k])
                if not (pa[3][k] == dr):
                    probs.append(f"mode {k}: dof model={pa[3][k]!r} real={dr!r} (fit returned {r['nu']!r}, fallback {fbv!r} given as "
                                 f"{forms['fb_spec']!r})")
                    info.setdefault("dofs", []).append(repr(float(r["nu"])))
                if not math.isfinite(r["nu"]):
                    c.count("fallback_applied")
        if probs:
            c.disagree(input=lines[2 * i + 1][:200], impl=probs, model=ans[:120], **info)
        c.sample({"kind": kind, "N": len(u), "d": d, "K": K, "fallback": fbv, "resample_factor": rfv,
                  "real_dof": np.asarray(ms.degrees_of_freedom, dtype=float).tolist(),
                  "fit_dof": [f["r"]["nu"] for f in seen["fit"]]})
    return c


# ------------------------------------------------------------------------------------------- Trainer.run: every path
class _Clusterer:
    def __init__(self, labels):
        self.labels = np.asarray(labels)
        self.events = []

    def fit(self, u, w=None):
        self.events.append("F")
        return self

    def predict(self, u):
        self.events.append("P")
        return self.labels[:len(u)].copy()


def run_trainer_real(d, n, beta, clustering, ce, it, fitted, fbv, dofs, labels, seed):
    """REAL Trainer.run on a REAL StateManager; fit_mvstud stubbed (dof tape), the clusterer a double answering `labels`;
    returns the ModeStatistics, which constructor was called with what, and the recorded events"""
    import tempest.modes as tm
    from tempest.state_manager import StateManager
    from tempest.steps.train import Trainer
    rs = np.random.RandomState(seed % (2 ** 31))
    st = StateManager(d)
    for _ in range(2):
        u = rs.rand(n, d)
        st.update_current({"u": u, "x": 10 * u - 5, "logl": -rs.rand(n), "beta": 0.0, "logz": 0.0, "iter": 0,
                           "assignments": np.zeros(n, dtype=int)})
        st.commit_current_to_history()
    st.set_current("iter", it)
    st.set_current("beta", beta)
    cl = _Clusterer(labels)
    kw = {} if fbv is None else {"DOF_FALLBACK": fbv}
    tr = Trainer(state=st, pbar=None, clusterer=cl if clustering else None, cluster_every=ce, clustering=clustering,
                 TRIM_ESS=0.99, TRIM_BINS=10, **kw)
    tr._clusterer_fitted = bool(fitted)
    seen = {"ctor": None, "fit_in": [], "choice": []}
    it_d = iter(dofs)
    real_fp, real_fg = tm.ModeStatistics.from_particles.__func__, tm.ModeStatistics.from_global.__func__
    real_choice = np.random.choice

    def fake_fit(x, *a, **k):
        seen["fit_in"].append(np.array(x, copy=True))
        return np.arange(d, dtype=float), np.eye(d) * 2.0, next(it_d)

    def fp(cls, u, weights, labels_, *a, **k):
        seen["ctor"] = ("particles", np.array(u, dtype=float, copy=True), np.array(weights, dtype=float, copy=True),
                        np.array(labels_, copy=True), a, dict(k))
        return real_fp(cls, u, weights, labels_, *a, **k)

    def fg(cls, u, weights, *a, **k):
        seen["ctor"] = ("global", np.array(u, dtype=float, copy=True), np.array(weights, dtype=float, copy=True), None, a, dict(k))
        return real_fg(cls, u, weights, *a, **k)

    def obs_choice(a, size=None, replace=True, p=None):
        idx = real_choice(a, size=size, replace=replace, p=p)
        seen["choice"].append(int(size))
        return idx

    nh = 2 * n
    w = rs.rand(nh) + 0.05
    w = w / w.sum()
    with common.patched(tm, "fit_mvstud", fake_fit), common.patched(tm.ModeStatistics, "from_particles", classmethod(fp)), \
            common.patched(tm.ModeStatistics, "from_global", classmethod(fg)), common.patched(np.random, "choice", obs_choice), \
            warnings.catch_warnings():
        warnings.simplefilter("ignore")
        np.random.seed(seed % (2 ** 31))
        ms = tr.run(w.copy())
    return ms, seen, "".join(cl.events), tr


def _dof_s(v):
    v = float(v)
    return "nan" if v != v else ("inf" if math.isinf(v) else "fin:" + f2hex(v))


def correspond_trainer(tier):
    count = 400 if tier == "quick" else 4000
    rng = common.rng_for("C19.trainer")
    c = Corr("trainer-dof-paths", "exact (real Trainer.run on a real StateManager, every branch: beta=0 dummy / fit+predict / predict only / "
                                  "no clustering; fit_mvstud stubbed to return inf / nan / finite dof; the ModeStatistics it returns — means, "
                                  "covariances, degrees of freedom, labels — must equal the model's trainerRun bit for bit, the branch taken "
                                  "must be the model's trainerPath)")
    drv = common.Driver()
    lines, cases = [], []
    for t in range(count):
        d = rng.randint(1, 3)
        n = rng.randint(6, 14)
        beta = 0.0 if rng.random() < 0.15 else rng.choice([0.5, 1.0, 1e-3])
        clustering = rng.random() < 0.7
        ce = rng.choice([1, 2, 3, 5])
        it = rng.randint(0, 7)
        fitted = rng.random() < 0.6
        fb_spec = rng.choice([None, ["float", 1e6], ["float", 7.5], ["float", 123.25], ["float", 1.0], ["int", 1], ["int", 1000000],
                              ["np.int64", 12], ["np.float32", 7.5], ["bool", True]])
        fbv = base.make_fb(fb_spec)
        K = rng.randint(1, 3)
        raw = sorted(rng.sample(range(0, 7), K))
        labels = [raw[i % K] for i in range(2 * n)]
        rng.shuffle(labels)
        dofs = [base._dof_values(rng) for _ in range(K)]
        seed = rng.getrandbits(31)
        try:
            ms, seen, events, tr = run_trainer_real(d, n, beta, clustering, ce, it, fitted, fbv, dofs, labels, seed)
        except Exception as e:  # noqa
            c.disagree(input=f"trainer d={d} n={n} beta={beta} clustering={clustering} ce={ce} iter={it} fitted={fitted} fb={fbv}",
                       impl=f"raised {type(e).__name__}: {e}", model="-",
                       trainer_case={"d": d, "n": n, "beta": beta, "clustering": clustering, "ce": ce, "it": it, "fitted": fitted,
                                     "fbv": None if fbv is None else float(fbv), "fb_spec": fb_spec, "dofs_hex": [f2hex(float(v)) for v in dofs], "labels": [int(v) for v in labels],
                                     "seed": seed})
            c.case((t,), False)
            continue
        cfg_fb = 1.0 if fbv is None else float(fbv)      # Trainer's own default
        c.count("fallback_form_" + ("default" if fb_spec is None else fb_spec[0]))
        oc = (it % ce == 0) or it == 0
        flags = f" bz={int(beta == 0.0)} cl={int(clustering)} oc={int(oc)} ft={int(fitted)}"
        if seen["ctor"] is None:
            real_path = "dummy"
            u_in, w_in, lab_in = np.zeros((1, d)), np.ones(1), [0]
            used = 0
        else:
            kind, u_in, w_in, lab_in, a_, k_ = seen["ctor"]
            real_path = "global" if kind == "global" else ("fitPredict" if "F" in events else "predictOnly")
            lab_in = [0] * len(u_in) if lab_in is None else [int(v) for v in lab_in]
            used = len(seen["fit_in"])
        us = _uniform_stream(seed % (2 ** 31), sum(seen["choice"]))
        fits = ["stub:" + _dof_s(v) for v in dofs[:max(used, 1)]]
        lines.append("tpath.X" + flags)
        lines.append(_modes_line("trainer", u_in, w_in, lab_in, cfg_fb, 4, us, fits, extra=flags))
        tc = {"d": d, "n": n, "beta": beta, "clustering": clustering, "ce": ce, "it": it, "fitted": fitted,
              "fbv": None if fbv is None else float(fbv), "fb_spec": fb_spec,
              "dofs_hex": [f2hex(float(v)) for v in dofs], "labels": [int(v) for v in labels], "seed": seed}
        cases.append((real_path, ms, dofs[:used], cfg_fb, d, (d, n, beta, clustering, ce, it, fitted, repr(fb_spec)), tc))
        c.case((d, n, beta, clustering, ce, it, fitted, repr(fb_spec), [repr(float(v)) for v in dofs], seed),
               real_path == "dummy" or any(base._dof_tag(v) != "fin" for v in dofs[:used]))
        c.count("path_" + real_path)
        c.count("fallback_default" if fbv is None else "fallback_configured")
    res = drv.batch(lines)
    for i, (real_path, ms, dofs, cfg_fb, d, key, tc) in enumerate(cases):
        pth, ans = res[2 * i], res[2 * i + 1]
        info = dict(zip(("d", "n", "beta", "clustering", "cluster_every", "iter", "fitted", "DOF_FALLBACK"), key))
        info["dofs"] = [repr(float(v)) for v in dofs]
        info["trainer_case"] = tc
        if pth != real_path:
            c.disagree(input=lines[2 * i], impl=f"real Trainer.run took the path {real_path}", model=pth, **info)
            continue
        pa = _parse_built(ans)
        if pa is None:
            c.disagree(input=lines[2 * i + 1][:200], impl="real Trainer.run returned a ModeStatistics", model=ans[:80], **info)
            continue
        K = ms.means.shape[0]
        real_d = [float(v) for v in np.asarray(ms.degrees_of_freedom, dtype=float).ravel()]
        want_labels = None if ms.labels is None else [int(v) for v in np.asarray(ms.labels).tolist()]
        ok = (pa[0] == K and pa[4] == want_labels
              and [f2hex(v) for v in pa[1]] == [f2hex(v) for v in np.asarray(ms.means, dtype=float).ravel()]
              and [f2hex(v) for v in pa[2]] == [f2hex(v) for v in np.asarray(ms.covariances, dtype=float).ravel()]
              and [f2hex(v) for v in pa[3]] == [f2hex(v) for v in real_d]
              and all(math.isfinite(v) for v in real_d))
        if not ok:
            c.disagree(input=lines[2 * i + 1][:200], model=ans[:200],
                       impl=f"path {real_path}: K={K} labels={want_labels} degrees_of_freedom={real_d} (fit dofs {info['dofs']}, "
                            f"Trainer.DOF_FALLBACK={cfg_fb!r})", **info)
        c.sample({"path": real_path, "fit_dofs": info["dofs"], "DOF_FALLBACK": cfg_fb, "degrees_of_freedom": real_d})
    return c


# ------------------------------------------------------------------------------------------- one Trainer over several iterations
class _RankClusterer:
    """deterministic double of the clusterer: K = 1, or two clusters split at the median of the first coordinate of the data it
    was FITTED on (raw labels 0 and 3); predict() before fit() raises like the real one"""

    def __init__(self, k):
        self.k = k
        self.thr = None
        self.events = []

    def fit(self, u, w=None):
        self.events.append("F")
        self.thr = float(np.median(np.asarray(u)[:, 0]))
        return self

    def predict(self, u):
        self.events.append("P")
        if self.thr is None:
            raise ValueError("Normalization bounds not set. Call fit first.")
        u = np.asarray(u)
        if self.k == 1:
            return np.zeros(len(u), dtype=int)
        return (u[:, 0] > self.thr).astype(int) * 3


def sequence_cfg(rng, family=None):
    """a weighted particle history whose weight moves from an early broad population A to a later population B over the
    iterations of ONE Trainer; `drift` in units of A's spread, `shrink` = spread of B / spread of A"""
    family = family or rng.choice(["contract_drift", "contract_drift", "contract_drift", "same", "expand", "far"])
    if family == "contract_drift":     # what reweighting does when beta increases
        drift, shrink = rng.uniform(0.8, 1.6), rng.choice([0.03, 0.05, 0.1, 0.2])
    elif family == "same":
        drift, shrink = 0.0, 1.0
    elif family == "expand":
        drift, shrink = rng.uniform(0.0, 1.0), rng.uniform(1.5, 3.0)
    else:
        drift, shrink = rng.uniform(2.5, 6.0), rng.uniform(0.2, 1.0)
    return {"family": family, "d": rng.choice([1, 2, 2, 3]), "n": rng.randint(40, 90), "k": rng.choice([1, 1, 2]),
            "ce": rng.choice([1, 2, 2, 3, 5]), "it0": rng.randint(0, 6), "iters": rng.randint(3, 5),
            "law": rng.choice(["gauss", "gauss", "gauss", "heavy"]), "drift": drift, "shrink": shrink, "sharp": rng.random() < 0.5,
            "fbv": rng.choice([None, 1e6, 7.5]), "seed": rng.getrandbits(31)}


def _sequence_history(cfg):
    g = np.random.default_rng(cfg["seed"])
    d, n = cfg["d"], cfg["n"]
    z = (lambda: g.standard_normal((n, d))) if cfg["law"] == "gauss" else (lambda: g.standard_t(4, size=(n, d)) / math.sqrt(2.0))
    ca, sa = g.uniform(0.25, 0.45, size=d), g.uniform(0.05, 0.1)
    dirn = g.standard_normal(d)
    dirn /= np.linalg.norm(dirn)
    pop_a = ca + sa * z()
    pop_b = ca + cfg["drift"] * sa * dirn + cfg["shrink"] * sa * z()
    wa, wb = g.random(n) + 0.2, g.random(n) + 0.2
    return pop_a, pop_b, wa / wa.sum(), wb / wb.sum()


def run_trainer_sequence(cfg):
    """REAL Trainer (clusterer: deterministic double) called once per iteration on ONE StateManager history while the weights
    move from population A to population B.  Every fit_mvstud call made by the trainer is recorded with its data.
    Model-free oracles, all exact on correct code:
      * statement: each fit's location is finite and inside the bounding box of ITS data, scale symmetric with a Cholesky factor,
        nu in (0, inf]; the ModeStatistics carries exactly these values (dof through the fallback);
      * the fit is a function of its data: fit_mvstud(same rows) called afresh returns the same triple bit for bit, and a NEW Trainer
        given the same state / clusterer state / random stream returns the same ModeStatistics bit for bit;
      * the Trainer carries no fitted quantity from call to call (its attribute set is the constructor's)."""
    import copy
    import tempest.modes as tm
    import tempest.student as st
    from tempest.state_manager import StateManager
    from tempest.steps.train import Trainer
    d, n = cfg["d"], cfg["n"]
    pop_a, pop_b, wa, wb = _sequence_history(cfg)
    state = StateManager(d)
    for j, u in enumerate((pop_a, pop_b)):
        state.update_current({"u": u, "x": u.copy(), "logl": -0.5 * np.sum(u ** 2, axis=1), "beta": 0.0, "logz": 0.0, "iter": j,
                              "assignments": np.zeros(n, dtype=int)})
        state.commit_current_to_history()
    kw = {} if cfg["fbv"] is None else {"DOF_FALLBACK": cfg["fbv"]}

    def mk(cl):
        return Trainer(state=state, pbar=None, clusterer=cl, cluster_every=cfg["ce"], clustering=True, TRIM_ESS=0.99, TRIM_BINS=10, **kw)

    cl = _RankClusterer(cfg["k"])
    tr = mk(cl)
    attrs0 = set(vars(tr))
    real_fit = st.fit_mvstud
    rec = []

    def obs_fit(x, *a, **k):
        x = np.array(x, dtype=float, copy=True)
        with contextlib.redirect_stdout(io.StringIO()):
            out = real_fit(x, *a, **k)
        rec.append({"x": x, "args": (a, dict(k)), "out": (np.array(out[0], dtype=float), np.atleast_2d(np.array(out[1], dtype=float)),
                                                           float(out[2]))})
        return out

    statement, function, stats = [], [], {"fits": 0, "reuse_iterations": 0, "inf_exits": 0}
    L = cfg["iters"]
    with common.patched(tm, "fit_mvstud", obs_fit), contextlib.redirect_stdout(io.StringIO()), warnings.catch_warnings():
        warnings.simplefilter("ignore")
        for t in range(L):
            it = cfg["it0"] + t
            lam = 1.0 - t / (L - 1)
            if cfg["sharp"]:
                lam = 1.0 if t < L // 2 else 0.0
            if cfg["k"] > 1:
                # with two clusters keep some weight on both populations: a cluster whose particles all have weight 0 makes
                # np.random.choice refuse its probabilities (0/0) -- not a situation the reweighting step produces
                lam = min(max(lam, 0.03), 0.97)
            w = np.concatenate([lam * wa, (1.0 - lam) * wb])
            w = np.maximum(w, 0.0) / w.sum()
            state.set_current("iter", it)
            state.set_current("beta", 0.1 + 0.8 * t / L)
            cl_before = copy.deepcopy(cl)
            fitted_before = tr._clusterer_fitted
            del rec[:]
            where = f"iteration {it} (call {t + 1} of this Trainer, cluster_every={cfg['ce']})"
            np.random.seed((cfg["seed"] + t) % (2 ** 31))
            try:
                ms = tr.run(w.copy())
            except np.linalg.LinAlgError:
                stats["constructor_refused"] = stats.get("constructor_refused", 0) + 1
                break
            mine = [dict(r) for r in rec]
            if "F" not in cl.events[len(cl_before.events):]:
                stats["reuse_iterations"] += 1
            got_d = [float(v) for v in np.asarray(ms.degrees_of_freedom, dtype=float).ravel()]
            for k_, r in enumerate(mine):
                stats["fits"] += 1
                x, (mu, S, nu) = r["x"], r["out"]
                if math.isinf(nu):
                    stats["inf_exits"] += 1
                lo, hi = x.min(0), x.max(0)
                slack = 1e-12 * (np.abs(lo) + np.abs(hi) + (hi - lo))
                tag = f"{where}, mode {k_}, {len(x)} rows"
                if not np.all(np.isfinite(mu)) or np.any(mu < lo - slack) or np.any(mu > hi + slack):
                    statement.append(f"{tag}: fitted location {mu.tolist()} outside the bounding box [{lo.tolist()}, {hi.tolist()}] of "
                                     f"the rows it was fitted to (sd fitted/data = {(np.sqrt(np.abs(np.diag(S))) / x.std(0)).tolist()})")
                elif not (nu > 0):
                    statement.append(f"{tag}: degrees of freedom {nu!r} not in (0, inf]")
                else:
                    sd = np.sqrt(np.abs(np.diag(S)))
                    if not np.all(np.isfinite(S)) or np.any(np.abs(S - S.T) > 1e-12 * np.outer(sd, sd)):
                        statement.append(f"{tag}: scale matrix not finite / symmetric")
                    elif base._rcond(S) > 1e-10:
                        try:
                            np.linalg.cholesky(S)
                        except np.linalg.LinAlgError:
                            statement.append(f"{tag}: scale matrix has no Cholesky factor")
                with contextlib.redirect_stdout(io.StringIO()):
                    fmu, fS, fnu = real_fit(x.copy())
                fmu, fS, fnu = np.asarray(fmu, dtype=float), np.atleast_2d(np.asarray(fS, dtype=float)), float(fnu)
                same = (np.array_equal(fmu, mu) and np.array_equal(fS, S) and (fnu == nu or (fnu != fnu and nu != nu)))
                if not same:
                    e = base._rel_diff(mu, S, nu, fmu, fS, fnu)
                    function.append((e, f"{tag}: the fit is not a function of its data: the trainer's fit returned location {mu.tolist()}, "
                                        f"nu {nu!r}; fit_mvstud(the same rows) returns {fmu.tolist()}, nu {fnu!r} (relative {e:.3g}); "
                                        f"arguments passed besides the data: {r['args']!r}"))
                want_d = nu if math.isfinite(nu) else float(tr.DOF_FALLBACK)
                if k_ < ms.means.shape[0] and not (np.array_equal(np.asarray(ms.means[k_], dtype=float), mu)
                                                   and np.array_equal(np.asarray(ms.covariances[k_], dtype=float), S)
                                                   and f2hex(got_d[k_]) == f2hex(want_d)):
                    function.append((math.inf, f"{tag}: ModeStatistics holds mean {np.asarray(ms.means[k_]).tolist()}, dof {got_d[k_]!r}; the "
                                               f"fit returned {mu.tolist()}, nu {nu!r} (fallback {float(tr.DOF_FALLBACK)!r})"))
            # a NEW trainer in the same situation (same state, same clusterer state and flag, same random stream)
            cl2 = copy.deepcopy(cl_before)
            tr2 = mk(cl2)
            tr2._clusterer_fitted = fitted_before
            np.random.seed((cfg["seed"] + t) % (2 ** 31))
            try:
                ms2 = tr2.run(w.copy())
                eq = (np.array_equal(np.asarray(ms.means), np.asarray(ms2.means))
                      and np.array_equal(np.asarray(ms.covariances), np.asarray(ms2.covariances))
                      and [f2hex(v) for v in got_d] == [f2hex(float(v)) for v in np.asarray(ms2.degrees_of_freedom, dtype=float).ravel()])
            except np.linalg.LinAlgError:
                eq = True
            if not eq:
                e = float(np.max(np.abs(np.asarray(ms.means) - np.asarray(ms2.means))
                                 / np.sqrt(np.abs(np.diagonal(np.asarray(ms2.covariances), axis1=1, axis2=2)))))
                function.append((e, f"{where}: a Trainer with a history returns means {np.asarray(ms.means).tolist()}, a new Trainer in the "
                                    f"same state with the same random stream returns {np.asarray(ms2.means).tolist()}"))
            extra = set(vars(tr)) - attrs0
            if extra:
                function.append((0.0, f"{where}: the Trainer acquired state between calls: attribute(s) {sorted(extra)}"))
    function.sort(key=lambda p: -p[0])
    return statement, function, stats


def sequence_oracle(cfg, statement_only=False):
    """failing input of the property: a clause of the statement violated by a fit the Trainer hands to the kernel, or a fit that
    differs from the fit of its own data by more than 1e-6 relative (location / scale in units of the fitted spread, nu)"""
    statement, function, _ = run_trainer_sequence(cfg)
    if statement:
        return statement[0]
    if statement_only:
        return None
    for e, msg in function:
        if e > 1e-6:
            return msg
    return None


def correspond_sequence(tier):
    count = 30 if tier == "quick" else 500
    rng = common.rng_for("C19.sequence")
    c = Corr("trainer-sequence", "exact oracle on the real Trainer called 3-6 times on one history while the weights move from a broad to a "
                                 "(compact, drifted / expanded / far / identical) population, cluster_every in {1,2,3,5}, K in {1,2}: every fit "
                                 "handed to the kernel satisfies the statement against ITS OWN rows, equals fit_mvstud(same rows) and the result "
                                 "of a new Trainer bit for bit, and the Trainer holds no fitted state between calls")
    for t in range(count):
        cfg = sequence_cfg(rng)
        try:
            statement, function, stats = run_trainer_sequence(cfg)
        except Exception as e:  # noqa
            c.disagree(input=cfg, impl=f"raised {type(e).__name__}: {e}", model="-", sequence_cfg=cfg)
            c.case(tuple(sorted(cfg.items())), False)
            continue
        c.case(tuple(sorted(cfg.items())), stats["reuse_iterations"] > 0)
        c.count("family_" + cfg["family"])
        c.count(f"cluster_every={cfg['ce']}")
        for k, v in stats.items():
            c.count(k, v)
        if statement or function:
            c.disagree(input=cfg, impl=(statement + [m for _, m in function])[:3], model="every fit is the fit of its own rows",
                       sequence_cfg=cfg)
        c.sample({"cfg": cfg, "stats": stats})
    return c


# ------------------------------------------------------------------------------------------- hand-off to the kernel (real runs)
def kernel_handoff_run(cfg):
    """one real Sampler run (tpCN kernel); fit_mvstud is the real function but its returned nu is overridden on a schedule
    (inf / nan / kept); returns the problems found: a degrees-of-freedom value read by the kernel (through the shape argument of
    np.random.gamma in TPCNRunner._propose and through the array the runner holds) that is not finite, not the value
    Trainer.run put into the ModeStatistics of that iteration, or not the configured fallback where the fit was non-finite"""
    from tempest import Sampler
    import tempest.config as tcfg
    import tempest.modes as tm
    import tempest.mcmc as mc
    from tempest.steps.train import Trainer
    d = cfg["d"]
    rng = _random.Random(cfg["seed"])
    real_fit = tm.fit_mvstud
    real_run = Trainer.run
    real_gamma = np.random.gamma
    real_init = mc.TPCNRunner.__init__
    cur = {"ms": None, "fit_dofs": [], "iter": 0}
    problems = []
    soft = []
    stats = {"gamma_calls": 0, "fallbacks": 0, "iterations_with_kernel": 0, "runner_arrays": 0}

    def fit(x, *a, **k):
        mu, S, nu = real_fit(x, *a, **k)
        # the fit handed to the kernel is the fit of ITS rows (whatever this Trainer fitted on earlier iterations)
        xx = np.array(x, dtype=float)
        stats["fits"] = stats.get("fits", 0) + 1
        lo, hi = xx.min(0), xx.max(0)
        slack = 1e-12 * (np.abs(lo) + np.abs(hi) + (hi - lo))
        m_ = np.asarray(mu, dtype=float)
        if (not np.all(np.isfinite(m_)) or np.any(m_ < lo - slack) or np.any(m_ > hi + slack)) and len(problems) < 5:
            problems.append(f"iteration {cur['iter'] + 1}: fit of {len(xx)} rows: location {m_.tolist()} outside the bounding box "
                            f"[{lo.tolist()}, {hi.tolist()}] of its rows (sd fitted/data = "
                            f"{(np.sqrt(np.abs(np.diag(np.atleast_2d(S)))) / xx.std(0)).tolist()})")
        else:
            fmu, fS, fnu = real_fit(xx.copy())
            if not (np.array_equal(np.asarray(fmu), m_) and np.array_equal(np.atleast_2d(fS), np.atleast_2d(S))
                    and (float(fnu) == float(nu))):
                e = base._rel_diff(m_, np.atleast_2d(np.asarray(S, dtype=float)), float(nu), np.asarray(fmu, dtype=float),
                                   np.atleast_2d(np.asarray(fS, dtype=float)), float(fnu))
                stats["fits_not_fresh"] = stats.get("fits_not_fresh", 0) + 1
                if e > 1e-6 and len(problems) < 5:
                    problems.append(f"iteration {cur['iter'] + 1}: fit of {len(xx)} rows returned location {m_.tolist()}, nu {float(nu)!r}; "
                                    f"fit_mvstud(the same rows) returns {np.asarray(fmu).tolist()}, nu {float(fnu)!r} (relative {e:.3g}); "
                                    f"extra arguments {(a, dict(k))!r}")
                elif e <= 1e-6:
                    soft.append(f"fit differs from the fit of its rows in the last bits (relative {e:.3g})")
        q = rng.random()
        if q < cfg["p_inf"]:
            nu = rng.choice([np.inf, float("inf"), np.float64("inf")])
        elif q < cfg["p_inf"] + cfg["p_nan"]:
            nu = rng.choice([float("nan"), np.float64("nan")])
        cur["fit_dofs"].append(float(nu))
        return mu, S, nu

    def run(self, weights):
        cur["fit_dofs"] = []
        ms = real_run(self, weights)
        cur["ms"] = ms
        cur["iter"] += 1
        got = [float(v) for v in np.asarray(ms.degrees_of_freedom, dtype=float).ravel()]
        if cur["fit_dofs"]:
            want = [v if math.isfinite(v) else float(tcfg.DOF_FALLBACK) for v in cur["fit_dofs"]]
            stats["fallbacks"] += sum(1 for v in cur["fit_dofs"] if not math.isfinite(v))
            if [f2hex(v) for v in got] != [f2hex(v) for v in want]:
                problems.append(f"iteration {cur['iter']}: fit returned dof {cur['fit_dofs']}, configured fallback "
                                f"{float(tcfg.DOF_FALLBACK)!r}: ModeStatistics.degrees_of_freedom = {got}")
        if not all(math.isfinite(v) and v > 0 for v in got):
            problems.append(f"iteration {cur['iter']}: ModeStatistics.degrees_of_freedom = {got} not positive finite")
        return ms

    def init(self, *a, **k):
        real_init(self, *a, **k)
        stats["runner_arrays"] += 1
        held = [float(v) for v in np.asarray(self.degrees_of_freedom, dtype=float).ravel()]
        src = [float(v) for v in np.asarray(cur["ms"].degrees_of_freedom, dtype=float).ravel()] if cur["ms"] is not None else None
        if self.mode_stats is not cur["ms"] or [f2hex(v) for v in held] != [f2hex(v) for v in (src or [])]:
            problems.append(f"iteration {cur['iter']}: the tpCN runner holds degrees_of_freedom {held}, Trainer.run produced {src}")
        cur["shapes"] = {f2hex((self.n_dim + v) / 2) for v in held}

    def gamma(shape, scale=1.0, size=None):
        stats["gamma_calls"] += 1
        sh = float(shape)
        if not (math.isfinite(sh) and sh > 0) or f2hex(sh) not in cur.get("shapes", ()):
            if len(problems) < 5:
                problems.append(f"iteration {cur['iter']}: np.random.gamma called with shape {sh!r}: not (n_dim + dof)/2 of a mode of "
                                f"this iteration")
        return real_gamma(shape, scale, size)

    def prior(u):
        return 10.0 * u - 5.0

    def like(x):
        a = -0.5 * float(np.sum((x - 1.5) ** 2)) / 0.25
        b = -0.5 * float(np.sum((x + 1.5) ** 2)) / 0.25
        return float(np.logaddexp(a, b))

    crashed = None
    with common.patched(tm, "fit_mvstud", fit), common.patched(Trainer, "run", run), common.patched(np.random, "gamma", gamma), \
            common.patched(mc.TPCNRunner, "__init__", init), contextlib.redirect_stdout(io.StringIO()), \
            contextlib.redirect_stderr(io.StringIO()), warnings.catch_warnings():
        warnings.simplefilter("ignore")
        np.random.seed(cfg["seed"])
        try:
            s = Sampler(prior, like, d, n_particles=cfg["n_particles"], clustering=cfg["clustering"], sample="tpcn",
                        cluster_every=cfg.get("ce", 1), n_steps=2, n_max_steps=4)
            s.run(n_total=cfg["n_particles"] * cfg.get("mult", 2), progress=False)
        except Exception as e:  # noqa
            crashed = f"{type(e).__name__}: {e}"
    assert np.random.gamma is real_gamma and tm.fit_mvstud is real_fit
    stats["soft"] = len(soft)
    return problems, stats, crashed


def handoff_cfgs(tier, rng):
    n = 6 if tier == "quick" else 40
    out = []
    for t in range(n):
        out.append({"d": rng.choice([2, 3]), "n_particles": rng.choice([16, 24]), "clustering": t % 3 != 2,
                    "ce": rng.choice([1, 2, 3, 5]) if t % 3 == 0 else rng.choice([2, 3, 5]), "mult": rng.choice([2, 4]),
                    "p_inf": rng.choice([0.5, 0.3, 1.0]), "p_nan": rng.choice([0.0, 0.3]), "seed": rng.getrandbits(31)})
    return out


def correspond_handoff(tier):
    rng = common.rng_for("C19.handoff")
    c = Corr("kernel-handoff", "exact oracle on real Sampler runs (tpCN): the degrees of freedom the kernel reads — the runner's array and the "
                               "shape argument (n_dim + dof)/2 of every np.random.gamma call — are those Trainer.run produced in that "
                               "iteration, finite, and equal to config.DOF_FALLBACK wherever the (overridden) fit returned inf or nan")
    for cfg in handoff_cfgs(tier, rng):
        problems, stats, crashed = kernel_handoff_run(cfg)
        c.case(tuple(sorted(cfg.items())), stats["gamma_calls"] > 0 and stats["fallbacks"] > 0)
        for k, v in stats.items():
            c.count(k, v)
        c.count("clustering" if cfg["clustering"] else "global")
        c.count(f"cluster_every={cfg['ce']}")
        if stats.get("soft"):
            c.disagree(input=cfg, impl=f"{stats['soft']} fit(s) handed to the kernel differ from fit_mvstud(their rows) in the last bits",
                       model="bit-identical: the fit is a function of its rows", handoff_cfg=cfg)
        if crashed:
            # a run that stops with an exception out of the Student-t fit / the ModeStatistics constructor on a degenerate
            # cluster never reaches the kernel: no dof was handed over; what was handed over before is still checked
            c.count("run_ended_by_exception")
        if problems:
            c.disagree(input=cfg, impl=problems[:3], model="dof read by the kernel = ModeStatistics.degrees_of_freedom = fit dof or fallback",
                       handoff_cfg=cfg)
        c.sample({"cfg": cfg, "stats": stats, "crashed": crashed})
    return c


# ------------------------------------------------------------------------------------------- the property's own oracles, every run
def correspond_property(tier):
    """the statement's clauses on the REAL fit_mvstud, d = 1..8, n >= 4d, the four laws, scalings 2^[-20,20] (1e-6..1e6), shifts and
    coordinate permutations; never-raises on degenerate sets; recovery of the generating parameters of large t samples"""
    rng = common.rng_for("C19.property")
    c = Corr("property-T", "the property's own oracle on the real code (no model): finite location in the bounding box, symmetric scale with a "
                           "Cholesky factor, nu in (0,inf]; equivariance to 1e-6 relative (powers of two, so the transformed data are exact); "
                           "no exception on degenerate finite data; recovery of (mu, Sigma, nu) of t samples with n = 20000 inside wide bands")
    count = 96 if tier == "quick" else 1600
    for t in range(count):
        d = 1 + t % 8
        n = rng.randint(4 * d, 200) if rng.random() < 0.8 else 4 * d
        law = base.LAWS[(t // 8) % 4]
        data = base.gen_data(rng.getrandbits(40), d, n, law)
        bcase = {"data_hex": [f2hex(v) for v in data.ravel()], "shape": [n, d], "law": law}
        msg = base.wellposed(data)
        c.case((t, d, n, law), True)
        c.count(f"d={d}")
        c.count("law_" + law)
        if msg:
            c.disagree(input=f"wellposed d={d} n={n} law={law}", impl=msg, model="clause holds", **dict(bcase, kind="wellposed"))
            continue
        perm = list(range(d))
        rng.shuffle(perm)
        pw = [rng.randint(-20, 20) for _ in range(d)]
        rg = (data.max(0) - data.min(0))[perm]
        shift = [0.0] * d if rng.random() < 0.3 else [float(math.ldexp(rng.uniform(-8, 8) * rg[a], pw[a])) for a in range(d)]
        msg = base.equivariant(data, np.array(perm, dtype=int), pw, np.array(shift, dtype=float))
        c.count("equivariance_checked")
        if perm != sorted(perm):
            c.count("nontrivial_permutation")
        if msg:
            c.disagree(input=f"equivariant d={d} n={n} law={law}", impl=msg, model="clause holds",
                       **dict(bcase, kind="equiv", perm=perm, pw=pw, shift=shift))
    for t in range(40 if tier == "quick" else 600):
        d = 1 + t % 8
        kind = base.DEGEN[(t // 8) % len(base.DEGEN)]
        n = max(2, d + rng.randint(1, 2)) if kind == "tiny_n" else rng.randint(2, 60)
        data = base.gen_degenerate(rng.getrandbits(40), d, n, kind)
        msg = base.noraise(data)
        c.case(("noraise", t, d, n, kind), True)
        c.count("degenerate_" + kind)
        if msg:
            c.disagree(input=f"noraise d={d} n={n} kind={kind}", impl=msg, model="returns its last valid estimate",
                       data_hex=[f2hex(v) for v in data.ravel()], shape=[n, d], kind="noraise", degenerate=True)
    # the statement's dof clauses through the two constructors with the real fit, option and arrays in every accepted form
    for t in range(36 if tier == "quick" else 500):
        case = forms_case(rng)
        msg = forms_oracle(case)
        c.case(("forms", tuple(sorted((k, repr(v)) for k, v in case.items()))), True)
        c.count("forms_fb_" + case["fb_spec"][0])
        c.count("forms_checked")
        if msg:
            c.disagree(input=f"forms {case}", impl=msg, model="clause holds", forms_case=case)
    rec = [(0, 3, 2), (3, 2, 5)] if tier == "quick" else [(0, 3, 2), (1, 5, 2), (2, 1, 2), (3, 2, 5), (4, 3, 8), (5, 1.5, 6), (6, 2, 1), (7, 8, 2)]
    for seed, nu_true, d in rec:
        msg = base.recovery(seed, nu_true, d=d)
        c.case(("recovery", seed, nu_true, d), True)
        c.count("recovery_checked")
        if msg:
            c.disagree(input=f"recovery seed={seed} nu={nu_true} d={d}", impl=msg, model="clause holds",
                       kind="recovery", seed=seed, nu_true=nu_true, d=d)
    return c


# ------------------------------------------------------------------------------------------- oracles for the failing-input search
def trainer_oracle(tc):
    """the statement's last sentence on the REAL Trainer.run: every degrees-of-freedom entry of the ModeStatistics handed to the
    mutation step is finite, equals the fit's value where that was finite and the configured Trainer.DOF_FALLBACK where it was not"""
    dofs = [hex2f(h) for h in tc["dofs_hex"]]
    fbv = base.make_fb(tc["fb_spec"]) if tc.get("fb_spec") else tc["fbv"]
    try:
        ms, seen, events, tr = run_trainer_real(tc["d"], tc["n"], tc["beta"], tc["clustering"], tc["ce"], tc["it"], tc["fitted"],
                                                fbv, dofs, tc["labels"], tc["seed"])
    except Exception as e:  # noqa
        return f"Trainer.run raised {type(e).__name__}: {e}"
    got = [float(v) for v in np.asarray(ms.degrees_of_freedom, dtype=float).ravel()]
    fb = float(tr.DOF_FALLBACK)
    if not all(math.isfinite(v) for v in got):
        return f"Trainer.run (DOF_FALLBACK={fb!r}) returned degrees_of_freedom={got}: not finite"
    if seen["ctor"] is None:
        return None
    used = dofs[:len(seen["fit_in"])]
    want = [v if math.isfinite(v) else fb for v in used]
    if [f2hex(v) for v in got] != [f2hex(v) for v in want]:
        return (f"Trainer.run (DOF_FALLBACK={tr.DOF_FALLBACK!r} [{type(tr.DOF_FALLBACK).__name__}], path via from_{seen['ctor'][0]}): fits returned dof {used}, "
                f"degrees_of_freedom={got} (want {want})")
    return None


def handoff_oracle(cfg):
    problems, stats, crashed = kernel_handoff_run(cfg)
    return problems[0] if problems else None


def sweep_cases(tier):
    """trainer / hand-off cases tried by the search whatever the hints are"""
    rng = common.rng_for("C19.search.paths")
    out = []
    for beta, clustering, it, fitted in ((0.5, True, 0, False), (0.5, True, 3, True), (0.5, False, 1, True), (0.0, True, 1, True)):
        for fbv, spec in ((7.5, None), (None, None), (1.0, ["int", 1]), (12.0, ["np.int64", 12])):
            for dofs in ([math.inf, math.nan], [3.5, math.inf], [0.6, 2.45]):
                labels = [0, 2] * 12
                out.append({"kind": "trainer", "trainer_case": {
                    "d": 2, "n": 10, "beta": beta, "clustering": clustering, "ce": 2, "it": it, "fitted": fitted, "fbv": fbv, "fb_spec": spec,
                    "dofs_hex": [f2hex(v) for v in dofs], "labels": labels, "seed": rng.getrandbits(31)}})
    for cfg in handoff_cfgs("quick", rng)[:2 if tier == "quick" else 6]:
        out.append({"kind": "handoff", "handoff_cfg": cfg})
    for t in range(30 if tier == "quick" else 300):
        case = forms_case(rng)
        if t % 2:
            case["nu_true"], case["fb_spec"] = 0.6, rng.choice([["int", 1], ["int", 1000000], ["np.int64", 12], ["bool", True]])
        out.append({"kind": "forms", "forms_case": case})
    # one Trainer over several iterations while the weighted population contracts and drifts (cluster_every >= 2: the iterations
    # that reuse the clustering) -- every mode handed to the kernel must be the fit of its own rows
    for t in range(24 if tier == "quick" else 200):
        cfg = sequence_cfg(rng, "contract_drift" if t % 4 else None)
        if t % 4:
            cfg["ce"] = rng.choice([2, 3, 5])
            cfg["law"] = "gauss"
        out.append({"kind": "sequence", "sequence_cfg": cfg})
    return out


def forms_case(rng):
    return {"seed": rng.getrandbits(31), "d": rng.choice([1, 2, 3]), "n": rng.randint(40, 120), "nu_true": rng.choice([0.6, 0.6, 1.5, 2.45, 4.45, 30]),
            "kind": rng.choice(["global", "particles"]), "fb_spec": rng.choice([s_ for s_ in base.FB_SPECS if s_ is not None]),
            "wform": rng.choice(base.W_FORMS), "uform": rng.choice(base.U_FORMS)}


def forms_oracle(case):
    """REAL from_global / from_particles with the REAL fit on a t_nu sample, the option dof_fallback and the arrays given in the stated
    form: every degrees-of-freedom entry is the nu its fit returned bit for bit — in (0, inf), no truncation — when that was finite,
    and the fallback's value otherwise; the location lies in the bounding box of the rows fitted"""
    import tempest.modes as tm
    g = np.random.default_rng(case["seed"])
    d, n, nu = case["d"], case["n"], case["nu_true"]
    z = g.standard_normal((n, d)) / np.sqrt(g.chisquare(nu, size=(n, 1)) / nu)
    u = 0.5 + 0.05 * z
    labels = (np.arange(n) % 2) * 3
    w = g.random(n) + 0.1
    fb = base.make_fb(case["fb_spec"])
    rec = []
    real_fit = tm.fit_mvstud

    def obs(x, *a, **k):
        with contextlib.redirect_stdout(io.StringIO()):
            out = real_fit(x, *a, **k)
        rec.append((np.array(x, dtype=float), float(out[2]), np.asarray(out[0], dtype=float)))
        return out

    with common.patched(tm, "fit_mvstud", obs), warnings.catch_warnings():
        warnings.simplefilter("ignore")
        np.random.seed(case["seed"])
        try:
            if case["kind"] == "global":
                ms = tm.ModeStatistics.from_global(base.form_u(u, case["uform"]), base.form_w(w, case["wform"]), dof_fallback=fb)
            else:
                ms = tm.ModeStatistics.from_particles(base.form_u(u, case["uform"]), base.form_w(w, case["wform"]), labels, dof_fallback=fb)
        except np.linalg.LinAlgError:
            return None           # the constructor refusing a singular scale matrix (degenerate resample): C14's contract
        except Exception as e:  # noqa
            return f"from_{case['kind']} raised {type(e).__name__}: {e}"
    got = [float(v) for v in np.asarray(ms.degrees_of_freedom, dtype=float).ravel()]
    tag = (f"ModeStatistics.from_{case['kind']}(dof_fallback={fb!r} [{type(fb).__name__}], weights as {case['wform']}, u as {case['uform']}) on a "
           f"t_{nu} sample (n={n}, d={d}, default_rng({case['seed']}))")
    if len(got) != len(rec):
        return f"{tag}: {len(rec)} fits, {len(got)} degrees of freedom"
    for k, ((x, nu_fit, mu), y) in enumerate(zip(rec, got)):
        want = nu_fit if math.isfinite(nu_fit) else float(fb)
        if not (y > 0 and math.isfinite(y)):
            return f"{tag}: mode {k}: the fit returned nu={nu_fit!r}, degrees_of_freedom={y!r} is not in (0, inf)"
        if f2hex(y) != f2hex(want):
            return f"{tag}: mode {k}: the fit returned nu={nu_fit!r}, degrees_of_freedom={y!r} (want {want!r})"
        lo, hi = x.min(0), x.max(0)
        m = np.asarray(ms.means[k], dtype=float)
        if np.any(m < lo - 1e-12 * (np.abs(lo) + np.abs(hi))) or np.any(m > hi + 1e-12 * (np.abs(lo) + np.abs(hi))):
            return f"{tag}: mode {k}: location {m.tolist()} outside the bounding box of its rows"
    return None
