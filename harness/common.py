"""Shared machinery of the tempest verification checks.

Everything here is plumbing: building / auditing the Lean library, talking to the model driver,
float <-> bit-pattern helpers, evidence and verdict handling.  The per-property logic lives in
harness/cXX.py.
"""
import contextlib
import fcntl
import hashlib
import json
import os
import random
import re
import struct
import subprocess
import sys
import time
from fractions import Fraction

VERIF = os.path.dirname(os.path.dirname(os.path.abspath(__file__)))
REPO = os.environ.get("TEMPEST_REPO", "/repo")
LEAN = os.path.join(VERIF, "lean")
DRIVER = os.path.join(LEAN, ".lake", "build", "bin", "driver")
EVIDENCE = os.environ.get("VERIF_EVIDENCE_DIR") or os.path.join(VERIF, "evidence")
REPLAYS = os.path.join(VERIF, "replays")
GEN = os.path.join(LEAN, "TempestVerif", "Gen")

ALLOWED_AXIOMS = {"propext", "Classical.choice", "Quot.sound"}
TRUSTED_BASE = [
    "Lean 4.33.0 kernel (thorough tier: leanchecker re-check of the compiled Props modules)",
    "Mathlib v4.33.0 as installed; axioms allowed: propext, Classical.choice, Quot.sound (audited per theorem by #print axioms)",
    "no sorry/admit/native_decide/bv_decide/user axioms (source grep gate + axiom audit)",
    "theorems are about the model at exact real arithmetic (Sc ℝ instance); IEEE rounding is bridged only by the correspondence check",
    "the correspondence harness (Python, calls the real code in-process) and the translators under /verif/translate",
]


# ----------------------------------------------------------------------------- misc helpers
@contextlib.contextmanager
def patched(obj, name, value):
    old = getattr(obj, name)
    setattr(obj, name, value)
    try:
        yield
    finally:
        setattr(obj, name, old)


def seed():
    try:
        return int(os.environ.get("VERIF_SEED", "0"))
    except ValueError:
        return 0


def f2hex(x):
    return "%016x" % struct.unpack("<Q", struct.pack("<d", float(x)))[0]


def hex2f(h):
    return struct.unpack("<d", struct.pack("<Q", int(h, 16)))[0]


def frac2s(q):
    q = Fraction(q)
    return str(q.numerator) if q.denominator == 1 else f"{q.numerator}/{q.denominator}"


def s2frac(s):
    return Fraction(s)


def flist(xs, enc):
    xs = list(xs)
    return ",".join(enc(x) for x in xs) if xs else "-"


def parse_list(s, dec):
    return [] if s == "-" else [dec(t) for t in s.split(",")]


def digest(obj):
    return hashlib.sha1(json.dumps(obj, sort_keys=True, default=str).encode()).hexdigest()[:16]


def ulp_diff(a, b):
    """distance in units of representable doubles (inf if signs/NaN make it meaningless)"""
    import math
    if a == b:
        return 0
    if math.isnan(a) or math.isnan(b) or math.isinf(a) or math.isinf(b):
        return float("inf")
    ia = struct.unpack("<q", struct.pack("<d", a))[0]
    ib = struct.unpack("<q", struct.pack("<d", b))[0]
    if ia < 0:
        ia = -(ia & 0x7FFFFFFFFFFFFFFF)
    if ib < 0:
        ib = -(ib & 0x7FFFFFFFFFFFFFFF)
    return abs(ia - ib)


# ----------------------------------------------------------------------------- Lean side
class LeanError(Exception):
    pass


@contextlib.contextmanager
def lake_lock():
    os.makedirs(os.path.join(LEAN, ".lake"), exist_ok=True)
    with open(os.path.join(LEAN, ".lake", "verif.lock"), "w") as fh:
        fcntl.flock(fh, fcntl.LOCK_EX)
        try:
            yield
        finally:
            fcntl.flock(fh, fcntl.LOCK_UN)


def run(cmd, cwd=None, timeout=3600, input=None):
    p = subprocess.run(cmd, cwd=cwd, stdout=subprocess.PIPE, stderr=subprocess.STDOUT, timeout=timeout,
                       input=input, text=True)
    return p.returncode, p.stdout


def lake_build(targets):
    """lake build <targets>; returns (ok, output)."""
    with lake_lock():
        rc, out = run(["lake", "build"] + list(targets), cwd=LEAN, timeout=3000)
    return rc == 0, out


def write_if_changed(path, text):
    os.makedirs(os.path.dirname(path), exist_ok=True)
    try:
        with open(path) as fh:
            if fh.read() == text:
                return False
    except FileNotFoundError:
        pass
    with open(path, "w") as fh:
        fh.write(text)
    return True


_THM_RE = re.compile(r"^\s*(?:@\[[^\]]*\]\s*)?(?:private\s+|protected\s+)?theorem\s+([^\s:({\[]+)", re.M)
_NS_RE = re.compile(r"^\s*namespace\s+([A-Za-z_][A-Za-z0-9_.]*)", re.M)


def strip_comments(src):
    # remove block comments (nested) and line comments
    out = []
    i = 0
    depth = 0
    n = len(src)
    while i < n:
        if src.startswith("/-", i):
            depth += 1
            i += 2
        elif depth and src.startswith("-/", i):
            depth -= 1
            i += 2
        elif depth:
            if src[i] == "\n":
                out.append("\n")
            i += 1
        elif src.startswith("--", i):
            while i < n and src[i] != "\n":
                i += 1
        else:
            out.append(src[i])
            i += 1
    return "".join(out)


def theorem_names(module):
    """fully qualified names of the theorems declared in a Props module (single top-level namespace)."""
    path = os.path.join(LEAN, *module.split(".")) + ".lean"
    src = strip_comments(open(path).read())
    ns = _NS_RE.search(src)
    prefix = ns.group(1) + "." if ns else ""
    return [prefix + m for m in _THM_RE.findall(src)]


FORBIDDEN = re.compile(r"\b(sorry|admit|native_decide|bv_decide|implemented_by|unsafe)\b|^\s*axiom\s|maxHeartbeats\s+0\b", re.M)


_IMPORT_RE = re.compile(r"^\s*import\s+(TempestVerif(?:\.[A-Za-z0-9_]+)+)", re.M)


def import_closure(modules):
    """the project files a set of modules depends on (transitively), as paths"""
    seen, todo = {}, list(modules)
    while todo:
        m = todo.pop()
        if m in seen:
            continue
        path = os.path.join(LEAN, *m.split(".")) + ".lean"
        seen[m] = path
        if os.path.exists(path):
            todo += _IMPORT_RE.findall(strip_comments(open(path).read()))
    return seen


def grep_gate(modules):
    """forbidden constructs outside comments in the given modules and everything of this project they import"""
    hits = []
    for m, f in sorted(import_closure(modules).items()):
        if not os.path.exists(f):
            continue
        src = strip_comments(open(f).read())
        for mm in FORBIDDEN.finditer(src):
            line = src.count("\n", 0, mm.start()) + 1
            hits.append(f"{os.path.relpath(f, LEAN)}:{line}: {mm.group(0).strip()}")
    return hits


def audit_axioms(modules):
    """#print axioms for every theorem of the modules -> {name: [axioms]} ; raises LeanError if lean fails"""
    names = []
    for m in modules:
        names += theorem_names(m)
    if not names:
        return {}
    body = "".join(f"import {m}\n" for m in modules) + "".join(f"#print axioms {n}\n" for n in names)
    d = os.path.join(LEAN, ".lake", "audit")
    os.makedirs(d, exist_ok=True)
    path = os.path.join(d, "Audit_" + digest(modules) + ".lean")
    with open(path, "w") as fh:
        fh.write(body)
    rc, out = run(["lake", "env", "lean", path], cwd=LEAN, timeout=1800)
    res = {}
    # outputs:  'X' depends on axioms: [a, b]   |   'X' does not depend on any axioms
    flat = out.replace("\n ", " ")
    for m in re.finditer(r"^'(.+?)' depends on axioms: \[([^\]]*)\]", flat, re.M):
        res[m.group(1)] = [a.strip() for a in m.group(2).replace("\n", " ").split(",") if a.strip()]
    for m in re.finditer(r"^'(.+?)' does not depend on any axioms", flat, re.M):
        res[m.group(1)] = []
    missing = [n for n in names if n not in res]
    if rc != 0 or missing:
        raise LeanError(f"axiom audit failed (rc={rc}, missing={missing[:5]}):\n{out[-2000:]}")
    return res


class Driver:
    """Batch interface to the compiled model driver (one op per line in, one result per line out)."""

    def __init__(self):
        if not os.path.exists(DRIVER):
            ok, out = lake_build(["driver"])
            if not ok:
                raise LeanError("cannot build model driver:\n" + out[-3000:])

    def batch(self, lines, timeout=1800):
        if not lines:
            return []
        p = subprocess.run([DRIVER], input="\n".join(lines) + "\n", stdout=subprocess.PIPE,
                           stderr=subprocess.PIPE, text=True, timeout=timeout)
        out = p.stdout.split("\n")
        if out and out[-1] == "":
            out.pop()
        if p.returncode != 0 or len(out) != len(lines):
            raise LeanError(f"driver rc={p.returncode} produced {len(out)} lines for {len(lines)} ops: {p.stderr[-2000:]}")
        return out


# ----------------------------------------------------------------------------- known findings
def load_known():
    with open(os.path.join(VERIF, "known_findings.json")) as fh:
        return json.load(fh)


# ----------------------------------------------------------------------------- results
class Corr:
    """Result of one correspondence suite (model vs real code)."""

    def __init__(self, name, regime):
        self.name = name
        self.regime = regime
        self.evaluations = 0
        self.keys = set()          # digests of non-trivial cases
        self.disagreements = []    # list of dicts (input, impl, model)
        self.samples = []
        self.stats = {}
        self.near_ties = 0
        self.error = None          # infrastructure problem running the suite (string)

    def case(self, key_obj, nontrivial):
        self.evaluations += 1
        if nontrivial:
            self.keys.add(digest(key_obj))

    def count(self, k, n=1):
        self.stats[k] = self.stats.get(k, 0) + n

    def sample(self, obj, cap=3):
        if len(self.samples) < cap:
            self.samples.append(obj)

    def disagree(self, **kw):
        if len(self.disagreements) < 50:
            self.disagreements.append(kw)
        self.count("disagreements")

    @property
    def ok(self):
        return not self.disagreements and self.error is None


def rng_for(name):
    return random.Random(f"{seed()}:{name}")
