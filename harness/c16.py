"""C16 — boundary maps fold every real number into the unit interval."""
import math
import warnings
from fractions import Fraction

import numpy as np

from . import common
from .common import Corr, f2hex, hex2f, frac2s, flist, parse_list

ID = "C16"
LEAN_MODULES = ["TempestVerif.Props.C16"]
RULE = ("generated points (d=1..5, 1-D and 2-D arrays) x index lists for periodic/reflective (empty, None, all, duplicates in either list, "
        "reversed order, and - in ~12% of the cases - an index in BOTH lists, which the functions accept although SamplerConfig rejects it); "
        "regime Q: dyadic rationals whose float image is exact, compared exactly with the Rat model; "
        "regime F: adversarial doubles (signed zeros, subnormals, neighbours of integers, tiny negatives that wrap to exactly 1.0, "
        "2^52..2^64, 1e300, random bit patterns) compared bit-for-bit with the Float model. "
        "Suite property-F runs the property's own exact oracle (untouched bits, range, exact fold within 2^-52, idempotence "
        "identifying the periodic end points, bounds check = all remaining coordinates in [0,1]) on the REAL code for every regime-F case. "
        "Non-trivial = some designated coordinate lies outside [0,1).")
MODELLED = ["numpy float remainder `x % 1.0` is modelled as x - floor x (identical for every finite double; checked bit-for-bit here)",
            "NaN / +-inf inputs are outside the statement and not generated",
            "H_round (used only by the C16_round_* theorems): binary64 subtraction is the exact difference followed by a monotone, "
            "idempotent rounding that fixes 0 and 1; np.floor and the parity test np.mod(n, 2.0) == 0 are exact on finite doubles "
            "(Lemmas/ScRound.lean `Rounding`; not discharged by a proof about IEEE-754 - the bit-exact suite and property-F check its consequences)",
            "the passage from the one-coordinate pushforward identity (C16_periodic_pushforward / C16_reflective_pushforward, proved) to the "
            "d-dimensional one is not proved: on the whole vector only the symmetry of the preimage sum Kvec is (C16_fold_vector_symmetric)"]
ASSUMPTIONS = ["index lists contain valid non-negative indices (SamplerConfig.validate enforces 0 <= i < n_dim)"]


def _impl(per, refl, u):
    from tempest.mcmc import apply_boundary_conditions, check_bounds
    a = np.array(u, dtype=float)
    p = None if per is None else np.array(per, dtype=int)
    r = None if refl is None else np.array(refl, dtype=int)
    with warnings.catch_warnings():
        warnings.simplefilter("ignore")
        v = apply_boundary_conditions(a, p, r)
        cb0 = check_bounds(a, p, r)
        cb1 = check_bounds(v, p, r)
    return a, v, cb0, cb1


ADVERSARIAL = None


def adversarial():
    global ADVERSARIAL
    if ADVERSARIAL is None:
        xs = [0.0, -0.0, 5e-324, -5e-324, 2.2250738585072014e-308, -2.2250738585072014e-308, 0.5, -0.5, 1.0, -1.0]
        for k in range(-4, 5):
            xs += [float(k), math.nextafter(float(k), math.inf), math.nextafter(float(k), -math.inf), k + 0.5, k + 0.25]
        for e in (52, 53, 62, 63, 64, 100):
            b = 2.0 ** e
            xs += [b, -b, b + 1.0, b - 1.0, -(b - 1.0), math.nextafter(b, 0.0), math.nextafter(b, math.inf), b + 2.0 ** (e - 51)]
        # tiny negatives: x % 1.0 == 1.0 exactly (the periodic end point the statement identifies with 0)
        xs += [-2.0 ** -60, -2.0 ** -54, -1e-17, -1e-30, -1e-20, -1e-200]
        xs += [1e300, -1e300, 1.7976931348623157e308, -1.7976931348623157e308, 4503599627370497.5, -4503599627370495.5,
               2.0 ** 51 + 0.5, -(2.0 ** 51 + 1.5), 9007199254740993.0, 1e16 + 2, 3.0000000000000004, 1.9999999999999998]
        ADVERSARIAL = xs
    return ADVERSARIAL


def _rand_double(rng):
    k = rng.random()
    if k < 0.35:
        return rng.choice(adversarial())
    if k < 0.55:
        return rng.uniform(-6, 6)
    if k < 0.7:
        return rng.gauss(0, 1) * 10 ** rng.randint(-12, 18)
    if k < 0.8:
        # neighbour of a random integer
        n = float(rng.randint(-2 ** 40, 2 ** 40))
        return math.nextafter(n, rng.choice([math.inf, -math.inf]))
    while True:
        x = hex2f("%016x" % rng.getrandbits(64))
        if math.isfinite(x):
            return x


def _rand_dyadic(rng):
    # exact in double AND every intermediate of the Python code exact: <= 20 fractional bits, |x| < 2^30
    k = rng.random()
    fb = rng.choice([0, 1, 2, 3, 8, 20])
    if k < 0.2:
        n = rng.randint(-8, 8) * 2 ** fb + rng.choice([0, 0, 1, -1])
    else:
        n = rng.randint(-2 ** rng.randint(1, 30 + fb), 2 ** rng.randint(1, 30 + fb))
    return Fraction(n, 2 ** fb)


def _subsets(rng, d):
    idx = list(range(d))
    per = [i for i in idx if rng.random() < 0.35]
    refl = [i for i in idx if i not in per and rng.random() < 0.45]
    if rng.random() < 0.1:
        per = per + per[:1]       # duplicate entry
    if rng.random() < 0.1:
        refl = list(reversed(refl))
    if rng.random() < 0.08:
        refl = refl + refl[-1:]   # duplicate entry in the reflective list
    if rng.random() < 0.12 and per:
        refl = refl + [rng.choice(per)]   # an index in both lists (wrapped first, then reflected)
    pr = per if (per or rng.random() < 0.5) else None
    rr = refl if (refl or rng.random() < 0.5) else None
    return pr, rr


def _nontrivial(per, refl, vals):
    des = set(per or []) | set(refl or [])
    return any((i % len(vals[0]) in des) and not (0 <= x < 1) for row in vals for i, x in enumerate(row))


def correspond(tier):
    n = 1500 if tier == "quick" else 40000
    drv = common.Driver()
    out = []
    for regime in ("Q", "F"):
        rng = common.rng_for("C16." + regime)
        c = Corr(f"boundary-{regime}", {"Q": "exact-dyadic (Rat model)", "F": "bit-exact (Float model)"}[regime])
        lines, cases, prop_cases = [], [], []
        for _ in range(n):
            d = rng.randint(1, 5)
            rows = 1 if rng.random() < 0.6 else rng.randint(2, 4)
            per, refl = _subsets(rng, d)
            if regime == "Q":
                pts = [[_rand_dyadic(rng) for _ in range(d)] for _ in range(rows)]
                fl = [[float(x) for x in row] for row in pts]
            else:
                fl = [[_rand_double(rng) for _ in range(d)] for _ in range(rows)]
                pts = fl
            arr = fl[0] if rows == 1 else fl
            a, v, cb0, cb1 = _impl(per, refl, arr)
            v2 = np.atleast_2d(v)
            cb0 = np.atleast_1d(cb0)
            cb1 = np.atleast_1d(cb1)
            for r in range(rows):
                enc = frac2s if regime == "Q" else f2hex
                lines.append(f"bc.{regime} per={flist(per or [], str)} refl={flist(refl or [], str)} u={flist(pts[r], enc)}")
                cases.append((per, refl, pts[r], [float(t) for t in v2[r]], bool(cb0[r]), bool(cb1[r])))
            c.case((per, refl, [[f2hex(x) for x in row] for row in fl]), _nontrivial(per, refl, fl))
            c.count("rows", rows)
            c.count("2d" if rows > 1 else "1d")
            c.count("all_special" if set(range(d)) <= set(per or []) | set(refl or []) else "has_strict")
            c.count(f"d={d}")
            if per is None:
                c.count("per_None")
            if refl is None:
                c.count("refl_None")
            if set(per or []) & set(refl or []):
                c.count("index_in_both_lists")
            if len(set(per or [])) < len(per or []) or len(set(refl or [])) < len(refl or []):
                c.count("duplicate_index")
            if regime == "F":
                prop_cases.append((per, refl, fl))
        res = drv.batch(lines)
        for (per, refl, pt, impl_v, icb0, icb1), line, ans in zip(cases, lines, res):
            toks = ans.split(" ")
            if len(toks) != 3:
                c.disagree(input=line, impl=[f2hex(x) for x in impl_v], model=ans)
                continue
            if regime == "Q":
                mv = parse_list(toks[0], Fraction)
                same = len(mv) == len(impl_v) and all(Fraction(x) == y for x, y in zip(impl_v, mv))
                impl_s = [frac2s(Fraction(x)) for x in impl_v]
            else:
                same = toks[0] == flist(impl_v, f2hex)
                impl_s = [f2hex(x) for x in impl_v]
            mcb0, mcb1 = toks[1] == "1", toks[2] == "1"
            if not (same and mcb0 == icb0 and mcb1 == icb1):
                c.disagree(input=line, impl=[impl_s, icb0, icb1], model=ans,
                           point=[float(x) for x in pt], per=per, refl=refl)
            c.count("check_true" if icb0 else "check_false")
            c.sample({"op": line, "impl": impl_s, "model": ans})
        out.append(c)
        if regime == "F":
            out.append(_property_suite(prop_cases))
    return out


def _property_suite(prop_cases):
    """the property's own oracle on the real code, for every regime-F case (exact; cannot fire on correct code)"""
    c = Corr("property-F", "exact oracle on the real code (no model involved)")
    for per, refl, fl in prop_cases:
        per_s, refl_s = set(per or []), set(refl or [])
        bad = None
        for row in fl:
            msg = oracle(per, refl, row)
            if msg and bad is None:
                bad = (row, msg)
            # end-point statistics (what the clause "identifying the periodic end points" is about)
            _, v, _, _ = _impl(per, refl, row)
            _, v2, _, _ = _impl(per, refl, v.tolist())
            for i, (y, z) in enumerate(zip(v.tolist(), v2.tolist())):
                if i in per_s and y == 1.0:
                    c.count("periodic_hits_one")
                if y != z:
                    c.count("second_application_1_to_0")
                if i in refl_s and i not in per_s and y in (0.0, 1.0):
                    c.count("reflective_end_point")
        c.case((per, refl, [[f2hex(x) for x in row] for row in fl]), _nontrivial(per, refl, fl))
        if bad:
            c.disagree(input=str((per, refl)), impl=bad[1], model="property oracle",
                       point=[float(x) for x in bad[0]], per=per, refl=refl)
    return c


# ------------------------------------------------------------------ property oracle on the real code
def _tri(q):
    # period-2 triangle wave of an exact rational
    k = q / 2
    n = math.floor(k + Fraction(1, 2))
    return abs(q - 2 * n)


def oracle(per, refl, pt):
    """returns a description of the violation on the real code, or None"""
    a, v, cb0, cb1 = _impl(per, refl, pt)
    per_s, refl_s = set(per or []), set(refl or [])
    for i, (x, y) in enumerate(zip(a.tolist(), v.tolist())):
        if i not in per_s and i not in refl_s:
            if f2hex(x) != f2hex(y):
                return f"untouched coordinate {i} changed: {x!r} -> {y!r}"
            continue
        if not (0.0 <= y <= 1.0):
            return f"coordinate {i}: {x!r} mapped outside [0,1]: {y!r}"
        q = Fraction(x)
        want = q - math.floor(q) if i in per_s else None
        if i in refl_s:
            want = _tri(want if want is not None else q)
        err = abs(Fraction(y) - want)
        # identify the periodic end points 0 and 1 (also when the index is, additionally, reflective:
        # a wrap that rounds to exactly 1.0 may be wrapped again to 0.0 by a duplicate entry before the reflection)
        if i in per_s:
            err = min(err, abs(Fraction(y) - want - 1), abs(Fraction(y) - want + 1))
        if err > Fraction(1, 2 ** 52):
            return f"coordinate {i}: {x!r} -> {y!r}, exact fold is {float(want)!r}"
    _, v2, _, _ = _impl(per, refl, v.tolist())
    for i, (y, z) in enumerate(zip(v.tolist(), v2.tolist())):
        if y != z and not (i in per_s and {y, z} == {0.0, 1.0}):
            return f"not idempotent at coordinate {i}: {y!r} -> {z!r}"
    strict = [i for i in range(len(pt)) if i not in per_s and i not in refl_s]
    want_cb = all(0.0 <= a[i] <= 1.0 for i in strict)
    if bool(cb0) != want_cb:
        return f"check_bounds={bool(cb0)} but strict coordinates {'are' if want_cb else 'are not'} all in [0,1]"
    return None


def search(tier, hints):
    found = []
    cands = []
    for h in hints:
        if "point" in h:
            cands.append((h.get("per"), h.get("refl"), h["point"]))
    rng = common.rng_for("C16.search")
    for x in adversarial():
        cands.append(([0], None, [x, 0.5]))
        cands.append((None, [0], [x, 0.5]))
        cands.append(([1], [0], [x, x]))
        cands.append((None, None, [x]))
    for _ in range(4000 if tier == "quick" else 100000):
        d = rng.randint(1, 4)
        per, refl = _subsets(rng, d)
        cands.append((per, refl, [_rand_double(rng) for _ in range(d)]))
    for per, refl, pt in cands:
        try:
            msg = oracle(per, refl, pt)
        except Exception as e:  # noqa
            msg = f"raised {type(e).__name__}: {e}"
        if msg:
            found.append({"what": msg, "per": per, "refl": refl, "point": [float(x) for x in pt],
                          "point_hex": [f2hex(x) for x in pt]})
            if len(found) >= 5:
                break
    return found


def replay(obj):
    f = obj.get("failing_input", obj)
    if "witness" in f.get("replay", {}):
        from . import witnesses
        return witnesses.ALL[f["replay"]["witness"]]()
    pt = [hex2f(h) for h in f["point_hex"]]
    msg = oracle(f.get("per"), f.get("refl"), pt)
    return {"fails": msg is not None, "detail": msg}
