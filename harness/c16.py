"""C16 — boundary maps fold every real number into the unit interval."""
import math
import warnings
from fractions import Fraction

import numpy as np

from . import common, c16_calls
from .common import Corr, f2hex, hex2f, frac2s, flist, parse_list

ID = "C16"
LEAN_MODULES = ["TempestVerif.Props.C16", "TempestVerif.Props.C16Vec", "TempestVerif.Props.C16Py", "TempestVerif.Props.C16Acc",
                "TempestVerif.Props.C16Source"]
RULE = ("generated points (d=1..5, 1-D and 2-D arrays) x index lists for periodic/reflective (empty, None, all, duplicates in either list, "
        "reversed order, and - in ~12% of the cases - an index in BOTH lists, which the functions accept although SamplerConfig rejects it); "
        "regime Q: dyadic rationals whose float image is exact, compared exactly with the Rat model; "
        "regime F: adversarial doubles (signed zeros, subnormals, neighbours of integers, tiny negatives that wrap to exactly 1.0, "
        "2^52..2^64, 1e300, random bit patterns) compared bit-for-bit with the Float model. "
        "Suite property-F runs the property's own exact oracle (untouched bits, range, exact fold within 2^-52, idempotence "
        "identifying the periodic end points, bounds check = all remaining coordinates in [0,1]) on the REAL code for every regime-F case. "
        "Non-trivial = some designated coordinate lies outside [0,1). "
        "Second pass - suites pycall-Q/F/S: WHOLE calls (1-D, 2-D with 1 walker, 2-4 walkers, 0 walkers; periodic/reflective given as None, "
        "list, tuple, int64/int32/uint8/read-only arrays, range, empty float64 array; u C-contiguous, Fortran, strided, transposed view, "
        "read-only; float32 input in regime S) against Model/BoundaryPy.lean (None handling, column-at-a-time updates, early exit and "
        "scalar-vs-vector result of check_bounds); result shape and dtype compared too. Suite property-S: the property oracle on float32 input. "
        "Suites callsite-rwm/tpcn: ONE iteration of the real RWMRunner/TPCNRunner with taped normal draws (n_walkers 1..4, adversarial "
        "increments); the recorded raw proposals go through the model `proposeAll` and must give, bit for bit, the points handed to "
        "prior_transform and the in_bounds flags; rejected walkers must not move (fix 9001dc4). "
        "Suite sequence-F (seeded change C16f): call SEQUENCES (3-8 calls) in which the same two index containers (list / int64 array) are re-used and "
        "mutated in place between calls (item and slice assignment, append, pop, clear), swap roles, alternate with None and fresh copies and meet "
        "another n_dim; every call is judged on its own with the contents at that call: exact property oracle and bit-exact Float model.")
MODELLED = ["numpy float remainder `x % 1.0` is modelled as x - floor x (identical for every finite double; checked bit-for-bit here)",
            "NaN / +-inf inputs are outside the statement and not generated",
            "H_round (used only by the C16_round_* theorems): binary64 subtraction is the exact difference followed by a monotone, "
            "idempotent rounding that fixes 0 and 1; np.floor and the parity test np.mod(n, 2.0) == 0 are exact on finite doubles "
            "(Lemmas/ScRound.lean `Rounding`; not discharged by a proof about IEEE-754 - the bit-exact suite and property-F check its consequences)",
            "float32 input (outside the statement's quantifier, accepted by the code): numpy keeps the arithmetic in binary32 (NEP 50); modelled by "
            "the Sc Float32 instance of Model/BoundaryPy.lean, compared bit for bit (pycall-S); binary32 is one more Rounding of H_round",
            "the d-dimensional pushforward / reversibility theorems (Props/C16Vec.lean) need the increment density to be sign-invariant in the "
            "purely reflective coordinates (SignInv; sharp - F21 is the counterexample for correlated covariances); that the sampler's density "
            "has this invariance is C03's clause, not assumed here for the real code"]
ASSUMPTIONS = ["index lists contain valid non-negative indices, no index in both lists (SamplerConfig.__post_init__ enforces 0 <= i < n_dim and "
               "disjointness: config.py:158-182; the range and overlap rules are the generated rules `.allIdx .periodic .le 0 .lt .n_dim`, "
               "`.allIdx .reflective ...`, `.overlap .periodic .reflective` of Gen/Validate.lean (C18 owns the validation); suite index-validation "
               "checks on every run that the real SamplerConfig accepts no other list). The two functions are nevertheless exercised with an index "
               "in both lists and with duplicates.",
               "indices are ints, not bools: numpy reads u[..., True] as a mask (every coordinate wrapped) while check_bounds reads True as index 1; "
               "the two functions are unchanged, the assumption is discharged by the validation since /repo b8d82fc (`isinstance(i, int) and not "
               "isinstance(i, bool) and 0 <= i < n_dim`; found by this audit, F-number assigned by the coordinator) and checked on every run by suite "
               "index-validation (bool entries generated for SamplerConfig only, never for the two functions)"]


def translators():
    """G15: `apply_boundary_conditions` / `check_bounds` compiled from /repo's current source into Gen/BoundarySrc.lean (two parts:
    skeleton tables, compiled terms); Props/C16Source.lean proves that the executable model is that compiled source"""
    from translate import g15_boundary
    return list(g15_boundary.generate())


def _impl(per, refl, u, dtype=float):
    from tempest.mcmc import apply_boundary_conditions, check_bounds
    a = np.array(u, dtype=dtype)
    p = None if per is None else np.array(per, dtype=int)
    r = None if refl is None else np.array(refl, dtype=int)
    with warnings.catch_warnings():
        warnings.simplefilter("ignore")
        v = apply_boundary_conditions(a, p, r)
        cb0 = check_bounds(a, p, r)
        cb1 = check_bounds(v, p, r)
    return a, v, cb0, cb1


ADVERSARIAL = None


def adversarial():
    global ADVERSARIAL
    if ADVERSARIAL is None:
        xs = [0.0, -0.0, 5e-324, -5e-324, 2.2250738585072014e-308, -2.2250738585072014e-308, 0.5, -0.5, 1.0, -1.0]
        for k in range(-4, 5):
            xs += [float(k), math.nextafter(float(k), math.inf), math.nextafter(float(k), -math.inf), k + 0.5, k + 0.25]
        for e in (52, 53, 62, 63, 64, 100):
            b = 2.0 ** e
            xs += [b, -b, b + 1.0, b - 1.0, -(b - 1.0), math.nextafter(b, 0.0), math.nextafter(b, math.inf), b + 2.0 ** (e - 51)]
        # tiny negatives: x % 1.0 == 1.0 exactly (the periodic end point the statement identifies with 0)
        xs += [-2.0 ** -60, -2.0 ** -54, -1e-17, -1e-30, -1e-20, -1e-200]
        # huge integers: odd ones exist only below 2^53; everything from 2^53 on is even; 2^63.. does not fit int64
        xs += [2.0 ** 53 - 1.0, -(2.0 ** 53 - 1.0), 2.0 ** 53 + 2.0, 2.0 ** 52 + 1.0, -(2.0 ** 52 + 1.0), 2.0 ** 51 + 1.0,
               2.0 ** 62 + 2.0 ** 10, 2.0 ** 63 + 2.0 ** 11, -(2.0 ** 63), 2.0 ** 1023, -(2.0 ** 1023), 1.0 - 2.0 ** -53, -(1.0 - 2.0 ** -53),
               2.0 - 2.0 ** -52, -0.0]
        xs += [1e300, -1e300, 1.7976931348623157e308, -1.7976931348623157e308, 4503599627370497.5, -4503599627370495.5,
               2.0 ** 51 + 0.5, -(2.0 ** 51 + 1.5), 9007199254740993.0, 1e16 + 2, 3.0000000000000004, 1.9999999999999998]
        ADVERSARIAL = xs
    return ADVERSARIAL


def _rand_double(rng):
    k = rng.random()
    if k < 0.35:
        return rng.choice(adversarial())
    if k < 0.55:
        return rng.uniform(-6, 6)
    if k < 0.7:
        return rng.gauss(0, 1) * 10 ** rng.randint(-12, 18)
    if k < 0.8:
        # neighbour of a random integer
        n = float(rng.randint(-2 ** 40, 2 ** 40))
        return math.nextafter(n, rng.choice([math.inf, -math.inf]))
    while True:
        x = hex2f("%016x" % rng.getrandbits(64))
        if math.isfinite(x):
            return x


def _rand_dyadic(rng):
    # exact in double AND every intermediate of the Python code exact: <= 20 fractional bits, |x| < 2^30
    k = rng.random()
    fb = rng.choice([0, 1, 2, 3, 8, 20])
    if k < 0.2:
        n = rng.randint(-8, 8) * 2 ** fb + rng.choice([0, 0, 1, -1])
    else:
        n = rng.randint(-2 ** rng.randint(1, 30 + fb), 2 ** rng.randint(1, 30 + fb))
    return Fraction(n, 2 ** fb)


def _subsets(rng, d):
    idx = list(range(d))
    per = [i for i in idx if rng.random() < 0.35]
    refl = [i for i in idx if i not in per and rng.random() < 0.45]
    if rng.random() < 0.1:
        per = per + per[:1]       # duplicate entry
    if rng.random() < 0.1:
        refl = list(reversed(refl))
    if rng.random() < 0.08:
        refl = refl + refl[-1:]   # duplicate entry in the reflective list
    if rng.random() < 0.12 and per:
        refl = refl + [rng.choice(per)]   # an index in both lists (wrapped first, then reflected)
    pr = per if (per or rng.random() < 0.5) else None
    rr = refl if (refl or rng.random() < 0.5) else None
    return pr, rr


def _nontrivial(per, refl, vals):
    des = set(per or []) | set(refl or [])
    return any((i % len(vals[0]) in des) and not (0 <= x < 1) for row in vals for i, x in enumerate(row))


def correspond(tier):
    n = 1500 if tier == "quick" else 40000
    drv = common.Driver()
    out = []
    for regime in ("Q", "F"):
        rng = common.rng_for("C16." + regime)
        c = Corr(f"boundary-{regime}", {"Q": "exact-dyadic (Rat model)", "F": "bit-exact (Float model)"}[regime])
        lines, cases, prop_cases = [], [], []
        for _ in range(n):
            d = rng.randint(1, 5)
            rows = 1 if rng.random() < 0.6 else rng.randint(2, 4)
            per, refl = _subsets(rng, d)
            if regime == "Q":
                pts = [[_rand_dyadic(rng) for _ in range(d)] for _ in range(rows)]
                fl = [[float(x) for x in row] for row in pts]
            else:
                fl = [[_rand_double(rng) for _ in range(d)] for _ in range(rows)]
                pts = fl
            arr = fl[0] if rows == 1 else fl
            try:
                a, v, cb0, cb1 = _impl(per, refl, arr)
            except Exception as ex:  # the model runs on every such input
                c.case((per, refl, [[f2hex(x) for x in row] for row in fl]), True)
                c.disagree(input=f"per={per} refl={refl} u={arr}", impl=f"raised {type(ex).__name__}: {ex}", model="runs",
                           point=[float(x) for x in fl[0]], per=per, refl=refl, rows=[[float(x) for x in r] for r in fl],
                           nd=1 if rows == 1 else 2)
                if c.stats.get("disagreements", 0) >= 20:
                    break
                continue
            v2 = np.atleast_2d(v)
            cb0 = np.atleast_1d(cb0)
            cb1 = np.atleast_1d(cb1)
            if v2.shape != (rows, d) or cb0.shape != (rows,) or cb1.shape != (rows,):
                c.case((per, refl, [[f2hex(x) for x in row] for row in fl]), True)
                c.disagree(input=f"per={per} refl={refl} u={arr}", impl=f"result shape {v2.shape}, check shapes {cb0.shape} {cb1.shape}",
                           model=f"({rows}, {d}) and one flag per row", point=[float(x) for x in fl[0]], per=per, refl=refl,
                           rows=[[float(x) for x in r] for r in fl])
                continue
            for r in range(rows):
                enc = frac2s if regime == "Q" else f2hex
                lines.append(f"bc.{regime} per={flist(per or [], str)} refl={flist(refl or [], str)} u={flist(pts[r], enc)}")
                cases.append((per, refl, pts[r], [float(t) for t in v2[r]], bool(cb0[r]), bool(cb1[r])))
            c.case((per, refl, [[f2hex(x) for x in row] for row in fl]), _nontrivial(per, refl, fl))
            c.count("rows", rows)
            c.count("2d" if rows > 1 else "1d")
            c.count("all_special" if set(range(d)) <= set(per or []) | set(refl or []) else "has_strict")
            c.count(f"d={d}")
            if per is None:
                c.count("per_None")
            if refl is None:
                c.count("refl_None")
            if set(per or []) & set(refl or []):
                c.count("index_in_both_lists")
            if len(set(per or [])) < len(per or []) or len(set(refl or [])) < len(refl or []):
                c.count("duplicate_index")
            if regime == "F":
                prop_cases.append((per, refl, fl))
        res = drv.batch(lines)
        for (per, refl, pt, impl_v, icb0, icb1), line, ans in zip(cases, lines, res):
            toks = ans.split(" ")
            if len(toks) != 3:
                c.disagree(input=line, impl=[f2hex(x) for x in impl_v], model=ans)
                continue
            if regime == "Q":
                mv = parse_list(toks[0], Fraction)
                same = len(mv) == len(impl_v) and all(Fraction(x) == y for x, y in zip(impl_v, mv))
                impl_s = [frac2s(Fraction(x)) for x in impl_v]
            else:
                same = toks[0] == flist(impl_v, f2hex)
                impl_s = [f2hex(x) for x in impl_v]
            mcb0, mcb1 = toks[1] == "1", toks[2] == "1"
            if not (same and mcb0 == icb0 and mcb1 == icb1):
                c.disagree(input=line, impl=[impl_s, icb0, icb1], model=ans,
                           point=[float(x) for x in pt], per=per, refl=refl)
            c.count("check_true" if icb0 else "check_false")
            c.sample({"op": line, "impl": impl_s, "model": ans})
        out.append(c)
        if regime == "F":
            out.append(_property_suite(prop_cases))
    gens = {"rand_double": _rand_double, "rand_dyadic": _rand_dyadic, "subsets": _subsets}
    out += c16_calls.pycall_suites(tier, gens)
    out.append(_property_suite_f32(tier))
    out += c16_calls.callsite_suites(tier, gens)
    out.append(c16_calls.validation_suite(tier))
    out.append(c16_calls.sequence_suite(tier, gens))
    return out


def _property_suite_f32(tier):
    """the property's own oracle on the real code for float32 input (the code keeps binary32; tolerance 2^-23)"""
    c = Corr("property-S", "exact oracle on the real code, float32 input (no model involved)")
    rng = common.rng_for("C16.propS")
    for _ in range(800 if tier == "quick" else 20000):
        d = rng.randint(1, 5)
        per, refl = _subsets(rng, d)
        row = [c16_calls.rand_f32(rng, _rand_double) for _ in range(d)]
        try:
            msg = oracle(per, refl, row, np.float32)
            _, v, _, _ = _impl(per, refl, row, np.float32)
        except Exception as ex:  # noqa
            msg, v = f"raised {type(ex).__name__}: {ex}", np.array([], dtype=np.float32)
        for i, y in enumerate(np.asarray(v).tolist()):
            if i in set(per or []) and y == 1.0:
                c.count("periodic_hits_one")
        c.count("result_dtype_" + str(np.asarray(v).dtype))
        c.case((per, refl, [c16_calls.f32hex(x) for x in row]), _nontrivial(per, refl, [[float(x) for x in row]]))
        if msg:
            c.disagree(input=str((per, refl)), impl=msg, model="property oracle (float32)",
                       point=[float(x) for x in row], per=per, refl=refl, f32=True)
    return c


def _property_suite(prop_cases):
    """the property's own oracle on the real code, for every regime-F case (exact; cannot fire on correct code)"""
    c = Corr("property-F", "exact oracle on the real code (no model involved)")
    for per, refl, fl in prop_cases:
        per_s, refl_s = set(per or []), set(refl or [])
        bad = None
        for row in fl:
            try:
                msg = oracle(per, refl, row)
                # end-point statistics (what the clause "identifying the periodic end points" is about)
                _, v, _, _ = _impl(per, refl, row)
                _, v2, _, _ = _impl(per, refl, v.tolist())
            except Exception as ex:  # noqa
                msg, v, v2 = f"raised {type(ex).__name__}: {ex}", np.array([]), np.array([])
            if msg and bad is None:
                bad = (row, msg)
            for i, (y, z) in enumerate(zip(v.tolist(), v2.tolist())):
                if i in per_s and y == 1.0:
                    c.count("periodic_hits_one")
                if y != z:
                    c.count("second_application_1_to_0")
                if i in refl_s and i not in per_s and y in (0.0, 1.0):
                    c.count("reflective_end_point")
        c.case((per, refl, [[f2hex(x) for x in row] for row in fl]), _nontrivial(per, refl, fl))
        if bad:
            c.disagree(input=str((per, refl)), impl=bad[1], model="property oracle",
                       point=[float(x) for x in bad[0]], per=per, refl=refl)
    return c


# ------------------------------------------------------------------ property oracle on the real code
def _tri(q):
    # period-2 triangle wave of an exact rational
    k = q / 2
    n = math.floor(k + Fraction(1, 2))
    return abs(q - 2 * n)


def _oracle_core(per, refl, a_row, v_row, cb0, v2_row, eps, hx):
    per_s, refl_s = set(per or []), set(refl or [])
    for i, (x, y) in enumerate(zip(a_row, v_row)):
        if i not in per_s and i not in refl_s:
            if hx(x) != hx(y):
                return f"untouched coordinate {i} changed: {x!r} -> {y!r}"
            continue
        if not (0.0 <= y <= 1.0):
            return f"coordinate {i}: {x!r} mapped outside [0,1]: {y!r}"
        q = Fraction(x)
        want = q - math.floor(q) if i in per_s else None
        if i in refl_s:
            want = _tri(want if want is not None else q)
        err = abs(Fraction(y) - want)
        # identify the periodic end points 0 and 1 (also when the index is, additionally, reflective:
        # a wrap that rounds to exactly 1.0 may be wrapped again to 0.0 by a duplicate entry before the reflection)
        if i in per_s:
            err = min(err, abs(Fraction(y) - want - 1), abs(Fraction(y) - want + 1))
        if err > eps:
            return f"coordinate {i}: {x!r} -> {y!r}, exact fold is {float(want)!r}"
    for i, (y, z) in enumerate(zip(v_row, v2_row)):
        if y != z and not (i in per_s and {y, z} == {0.0, 1.0}):
            return f"not idempotent at coordinate {i}: {y!r} -> {z!r}"
    strict = [i for i in range(len(a_row)) if i not in per_s and i not in refl_s]
    want_cb = all(0.0 <= a_row[i] <= 1.0 for i in strict)
    if bool(cb0) != want_cb:
        return f"check_bounds={bool(cb0)} but strict coordinates {'are' if want_cb else 'are not'} all in [0,1]"
    return None


def _eps_hx(v):
    if np.asarray(v).dtype == np.float64:
        return Fraction(1, 2 ** 52), f2hex
    return Fraction(1, 2 ** 23), c16_calls.f32hex


def oracle(per, refl, pt, dtype=float):
    """the property on ONE point through the 1-D call path of the real code: a description of the violation, or None"""
    a, v, cb0, cb1 = _impl(per, refl, pt, dtype)
    eps, hx = _eps_hx(v)
    _, v2, _, _ = _impl(per, refl, v.tolist(), np.asarray(v).dtype)
    if np.shape(v) != np.shape(a) or np.ndim(cb0) != 0:
        return f"1-D input of shape {np.shape(a)}: result shape {np.shape(v)}, check_bounds shape {np.shape(cb0)}"
    return _oracle_core(per, refl, a.tolist(), v.tolist(), cb0, v2.tolist(), eps, hx)


def oracle2d(per, refl, rows, dtype=float):
    """the property on every row of a 2-D array (shape (n_walkers, n_dim)) through the 2-D call path of the real code"""
    a, v, cb0, cb1 = _impl(per, refl, rows, dtype)
    if a.ndim != 2:
        return None
    eps, hx = _eps_hx(v)
    if np.shape(v) != a.shape:
        return f"2-D input of shape {a.shape}: result shape {np.shape(v)}"
    try:
        flags = np.broadcast_to(np.asarray(cb0), (a.shape[0],))
    except ValueError:
        return f"2-D input of shape {a.shape}: check_bounds result of shape {np.shape(cb0)} is not one flag per row"
    _, v2, _, _ = _impl(per, refl, np.asarray(v).tolist(), np.asarray(v).dtype)
    for r in range(a.shape[0]):
        msg = _oracle_core(per, refl, a[r].tolist(), v[r].tolist(), flags[r], np.asarray(v2)[r].tolist(), eps, hx)
        if msg:
            return f"row {r}: {msg}"
    return None


def search(tier, hints):
    found = []
    cands = []
    f32_cands, site_cands, cands2 = [], [], []
    seq_cands = [h["seq"] for h in hints if "seq" in h]
    srng = common.rng_for("C16.search.seq")
    for _ in range(400 if tier == "quick" else 8000):
        seq_cands.append(c16_calls.seq_gen(srng, _rand_double))
    for seq in seq_cands:
        msg = c16_calls.seq_oracle(seq)
        if msg:
            found.append({"what": msg, "seq": seq})
            break
    for h in hints:
        if "cfg" in h:
            msg = c16_calls.config_oracle(h["cfg"], oracle)
            if msg:
                found.append({"what": msg, "cfg": h["cfg"]})
        if "site" in h:
            site_cands.append(h["site"])
        for row in h.get("rows", []) or ([h["point"]] if "point" in h else []):
            if len(row) > 0:
                (f32_cands if h.get("f32") else cands).append((h.get("per"), h.get("refl"), row))
        if len(h.get("rows", [])) >= 1 and h.get("nd", 2) == 2:
            cands2.append((h.get("per"), h.get("refl"), h["rows"], np.float32 if h.get("f32") else float))
    rng = common.rng_for("C16.search")
    for per, refl, pt in f32_cands:
        try:
            msg = oracle(per, refl, pt, np.float32)
        except Exception as e:  # noqa
            msg = f"raised {type(e).__name__}: {e}"
        if msg:
            found.append({"what": msg, "per": per, "refl": refl, "point": [float(x) for x in pt], "f32": True,
                          "point_hex": [f2hex(x) for x in pt]})
    for _ in range(600 if tier == "quick" else 20000):
        d = rng.randint(1, 4)
        per, refl = _subsets(rng, d)
        cands2.append((per, refl, [[_rand_double(rng) for _ in range(d)] for _ in range(rng.randint(1, 4))], float))
    for per, refl, rows, dt in cands2:
        if len(found) >= 5:
            break
        try:
            msg = oracle2d(per, refl, rows, dt)
        except Exception as e:  # noqa
            msg = f"raised {type(e).__name__}: {e}"
        if msg:
            found.append({"what": msg, "per": per, "refl": refl, "rows": [[float(x) for x in r] for r in rows],
                          "rows_hex": [[f2hex(x) for x in r] for r in rows], "f32": dt is np.float32})
    gens = {"rand_double": _rand_double, "rand_dyadic": _rand_dyadic, "subsets": _subsets}
    for kind in ("rwm", "tpcn"):
        for _ in range(150 if tier == "quick" else 3000):
            site_cands.append(c16_calls._site_gen(rng, gens, kind, "F"))
    for case in site_cands:
        if len(found) >= 5:
            break
        try:
            msg = c16_calls.site_oracle(case)
        except Exception as e:  # noqa
            msg = f"raised {type(e).__name__}: {e}"
        if msg:
            found.append({"what": msg, "site": case})
    if len(found) >= 5:
        return found[:5]
    for x in adversarial():
        cands.append(([0], None, [x, 0.5]))
        cands.append((None, [0], [x, 0.5]))
        cands.append(([1], [0], [x, x]))
        cands.append((None, None, [x]))
    for _ in range(4000 if tier == "quick" else 100000):
        d = rng.randint(1, 4)
        per, refl = _subsets(rng, d)
        cands.append((per, refl, [_rand_double(rng) for _ in range(d)]))
    for per, refl, pt in cands:
        try:
            msg = oracle(per, refl, pt)
        except Exception as e:  # noqa
            msg = f"raised {type(e).__name__}: {e}"
        if msg:
            found.append({"what": msg, "per": per, "refl": refl, "point": [float(x) for x in pt],
                          "point_hex": [f2hex(x) for x in pt]})
            if len(found) >= 5:
                break
    return found


def replay(obj):
    f = obj.get("failing_input", obj)
    if "witness" in f.get("replay", {}):
        from . import witnesses
        return witnesses.ALL[f["replay"]["witness"]]()
    if "seq" in f:
        msg = c16_calls.seq_oracle(f["seq"])
        return {"fails": msg is not None, "detail": msg}
    if "cfg" in f:
        msg = c16_calls.config_oracle(f["cfg"], oracle)
        return {"fails": msg is not None, "detail": msg}
    if "site" in f:
        msg = c16_calls.site_oracle(f["site"])
        return {"fails": msg is not None, "detail": msg}
    if "rows_hex" in f:
        try:
            msg = oracle2d(f.get("per"), f.get("refl"), [[hex2f(h) for h in r] for r in f["rows_hex"]], np.float32 if f.get("f32") else float)
        except Exception as e:  # noqa
            msg = f"raised {type(e).__name__}: {e}"
        return {"fails": msg is not None, "detail": msg}
    pt = [hex2f(h) for h in f["point_hex"]]
    msg = oracle(f.get("per"), f.get("refl"), pt, np.float32 if f.get("f32") else float)
    return {"fails": msg is not None, "detail": msg}
