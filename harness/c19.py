"""C19 — the Student-t proposal fit is well-posed and equivariant; non-finite dof are replaced by the fallback."""
import contextlib
import io
import math
import os
import sys
import warnings

import numpy as np

from . import common
from .common import Corr, f2hex, hex2f, flist

ID = "C19"
LEAN_MODULES = ["TempestVerif.Props.C19", "TempestVerif.Props.C19Nu", "TempestVerif.Props.C19Twin", "TempestVerif.Props.C19Modes",
                "TempestVerif.Props.C19Source"]
RULE = ("regime T (fit-T): generated data sets, d=1..8; 75%: n in [4d,200], laws gauss / heavy (t with 2,3,5 dof) / skew (lognormal) / "
        "contam (5% outliers x20), random mixing matrix (cond <= ~30), per-coordinate scales 10^[-3,3] and shifts; 5%: 'spike' (one point "
        "carrying 30-95% of the sample: the resampled form of a heavily weighted particle, where opt_nu's bracket has no sign change); 20%: "
        "degenerate sets (n >= 2: at most d distinct points duplicated, points in a proper affine subspace, a constant coordinate, n = d+1 or "
        "d+2, all rows identical); random tolerance in {1e-6,1e-3,1e-9} and max_iter in {100 (60%),1,2,3,5}; in 10% of the cases a fault is "
        "injected into one call of opt_nu's bisect (a ValueError, or the value -dim that zeroes every weight so that new_Sigma = 0 is "
        "rejected by the Cholesky test). The real fit_mvstud runs with scipy.optimize.bisect, np.linalg.solve and np.linalg.cholesky "
        "observed through proxy modules installed in tempest.student only (the proxies see the exceptions the real code catches); the "
        "Float twin replays the loop on the recorded opt_nu tape (value / inf / fail) and must give the same exit (conv, maxit, inf, "
        "notpd = solve raised, fail = bisect raised, chol = new_Sigma rejected), the same number of iterates, the same returned nu, the "
        "same warning flag, every (mu,Sigma) iterate and the returned triple within 1e-8*(scale) (per entry: (sd_a + 1e-4*max|x_a|) * "
        "(sd_b + ...)). Where a solve / Cholesky decision was taken on a matrix with rcond < 1e-6 (or a column is constant up to "
        "rounding but not exactly representable) the decision is rounding noise on both sides: counted as near-tie, states up to that "
        "point still compared. Non-trivial = the loop made >= 1 update or left through one of the three failure exits.  "
        "regime dof (dof-fallback): ModeStatistics.from_particles/from_global with "
        "tempest.modes.fit_mvstud stubbed to return inf / nan / finite dof and np.random.choice on a tape; the data handed to "
        "the fit must be u[tape] exactly and degrees_of_freedom must equal the Dof model bit-for-bit. Non-trivial = some mode had "
        "a non-finite dof.  "
        "bisect-F / bisect-Q: scipy.optimize.bisect itself on 14 families of functions (the opt_nu bracket [1e-300,1e6], cubics, no sign "
        "change, zero at an end point, exact hit of a dyadic midpoint, NaN at the k-th evaluation, step functions, values whose product "
        "underflows, small maxiter (RuntimeError), custom xtol/rtol, reversed bracket, infinite values, -0.0 plateaus); the model gets the "
        "table of values the real call saw and must return the same kind / root bits / sequence of evaluation points. Non-trivial = the "
        "loop was entered or the call failed.  optnu-F / func0-T: real fits (the four laws, spike, degenerate; d=1..8) run under "
        "sys.setprofile, which delivers the arguments and return values of the nested functions opt_nu and func0: six opt_nu calls per "
        "fit are replayed bit-exactly from func0's recorded values (nu_max test, bracket, bisect, mapping of failures), and six values of "
        "func0 per call are recomputed by the Float model (special.psi supplied as a table) to 1e-11 relative to the sum of |terms|.  "
        "modes-F: real from_global / from_particles (K=1..3 clusters, non-contiguous raw labels, heavy-tailed weights, resample_factor "
        "default/1/2/3, fallback default or configured) under np.random.seed with the REAL legacy np.random.choice and the REAL fit_mvstud "
        "(observed): the model draws from the uniforms of the same seeded stream and must hand every fit the same rows bit for bit; fitted "
        "modes to 1e-8 of scale, degrees of freedom after the fallback exact.  trainer-dof-paths: real Trainer.run on a real StateManager, "
        "beta in {0, >0}, clustering on/off, cluster_every, iter, _clusterer_fitted and DOF_FALLBACK (default / configured) varied, fit stubbed "
        "to inf / nan / finite; branch and returned ModeStatistics must equal the model bit for bit. Non-trivial = dummy branch or a "
        "non-finite dof.  kernel-handoff: real Sampler runs (tpCN, d=2/3, clustering on/off) in which the nu returned by the real fit is "
        "overridden by inf / nan on a schedule; oracle on the dof array the runner holds and on the shape argument of every "
        "np.random.gamma call.  property-T: the statement's own oracle on the real fit for d=1..8, n>=4d, four laws, scalings 2^[-20,20], "
        "shifts, permutations; degenerate sets; two (quick) / eight (thorough) recovery cases with n=20000.")
MODELLED = ["SOURCE-DERIVED (translator G17, Props/C19Source.lean): every arithmetic expression, comparison and literal of fit_mvstud / opt_nu / func0 "
            "and of from_particles / from_global the model mirrors is regenerated from /repo's source on every run (Gen/StudentSrc.lean: scalar "
            "kernels over Sc / ScT, statement skeletons, call-argument tables) and the hand-written definitions are proved (rfl, every scalar "
            "type) to unfold to exactly these terms; hand-copied remain the models of the numpy / scipy primitives the kernels are applied to "
            "and the broadcasting layout (which map / zipWith applies a kernel) -- see clauses/C19.md, 'Source-derived model'",
            "special.psi (scipy's digamma) is a PARAMETER of the model of func0 / opt_nu: every theorem holds for every function psi; in the "
            "Float replays its values are supplied as a table read from scipy",
            "scipy.optimize.bisect (C routine + _wrap_nan_raise + results_c) is modelled statement by statement (Model/StudentNu.lean: bisect, "
            "bisectLoop; the update test is signbit(fm) == signbit(fa), as the installed scipy (1.18) behaves — the test fm*fa >= 0 of older sources misfires when the product underflows "
            "and suite bisect-F refutes it); tied to the installed scipy bit for bit by bisect-F / bisect-Q, not proved about its source",
            "np.log in func0 is Real.log in the theorems and Float.log in the replay (func0-T: tolerance); np.sum is the sequential sum there",
            "np.linalg.solve (LAPACK LU with partial pivoting; raises only on an exactly zero pivot) is modelled by the Gauss-Jordan inverse "
            "without pivoting (fails on a pivot that is not > 0); np.linalg.cholesky succeeding is modelled by all Gauss-Jordan pivots being "
            "> 0. PROVED (Lemmas/GaussJordan.lean): in exact arithmetic the model's inverse inverts every positive definite matrix, and on a "
            "positive semidefinite matrix it answers iff the matrix is positive definite — so on every matrix the loop meets the two criteria "
            "are 'singular' and 'not positive definite'. Agreement with LAPACK in floating point only away from singular matrices "
            "(near-ties otherwise); numpy's cholesky does not raise on NaN input whereas the twin rejects NaN -- NaN matrices are not generated",
            "np.median / np.cov / np.var / np.dot (pairwise and BLAS summation orders) are modelled by merge sort + middle element and by "
            "sequential sums: tolerance in fit-T. The median's properties (inside [min,max], affine-equivariant for every real factor) are "
            "proved of the model's median, not assumed",
            "np.random.choice(p=...) is numpy's legacy algorithm (Model.Resample.multinomial) on the uniforms of the seeded global stream, np.sum "
            "its pairwise summation (Model.Resample.npSum): bit-exact in modes-F",
            "Trainer.run: trim_weights and the clusterer are outside (C20 / C14 / C15): the model takes the (u, weights, labels) the constructor "
            "receives; the clusterer is a recording double in trainer-dof-paths and the real one in kernel-handoff",
            "the theorems of Props/C19.lean are about a matrix form over the reals; C19_twin_fit (Props/C19Twin.lean) proves that the executable "
            "list model Model.Student.fitF at the reals — initialisation, median, opt_nu/bisect, Gauss-Jordan solve and Cholesky test, loop "
            "control — returns exactly the list form of that matrix-level trace for every data set with n >= 2: no relation 'by inspection' is left",
            "recovery of the generating parameters of large t samples is not proved (statistical consistency of the MLE): property-T runs a "
            "loose fixed-seed check every run, fixed-seed witness F19 in the corpus"]
ASSUMPTIONS = ["n >= 2 and finite data; positive definiteness of every iterate additionally needs non-degenerate data (not contained in an "
               "affine hyperplane); for degenerate data the theorems give: location in the box, symmetric positive semidefinite scale, "
               "positive definite unless the initial matrix is singular (then the initial state and nu = 20 are returned), and at most one "
               "accepted update (C19_degenerate_at_most_one_update)",
               "H_lapack: in exact arithmetic np.linalg.solve raises iff Sigma is singular and np.linalg.cholesky raises iff new_Sigma is not "
               "positive definite (the model's Gauss-Jordan criteria are PROVED equivalent to these on positive semidefinite matrices; that "
               "LAPACK meets them is checked by fit-T away from rcond < 1e-6)",
               "IEEE rounding is not covered by any theorem (exact real arithmetic); bridged by the Float replays",
               "the configured dof_fallback is a finite number (config.DOF_FALLBACK = 1e6 in the shipped wiring: checked by kernel-handoff)"]

LAWS = ("gauss", "heavy", "skew", "contam")


def translators():
    from translate import g17_student
    return g17_student.generate_all()


# ------------------------------------------------------------------------------------------- data
def gen_data(seed, d, n, law, plain=False):
    """deterministic data set (n, d) from an integer seed"""
    g = np.random.default_rng(seed)
    if law == "gauss":
        z = g.standard_normal((n, d))
    elif law == "heavy":
        z = g.standard_t([2, 3, 5][seed % 3], size=(n, d))
    elif law == "skew":
        z = g.lognormal(0.0, 0.75, size=(n, d))
    else:
        z = g.standard_normal((n, d))
        k = max(1, int(round(0.05 * n)))
        idx = g.choice(n, size=k, replace=False)
        z[idx] *= 20.0
    if plain:
        return z
    # mixing with bounded condition number, then per-coordinate scale and shift
    q, _ = np.linalg.qr(g.standard_normal((d, d)))
    sv = np.exp(g.uniform(0.0, math.log(30.0), size=d))
    a = (q * sv) @ q.T if g.random() < 0.7 else np.eye(d)
    x = z @ a.T
    scale = 10.0 ** g.uniform(-3, 3, size=d) if g.random() < 0.5 else np.ones(d)
    shift = g.uniform(-100, 100, size=d) * scale if g.random() < 0.6 else np.zeros(d)
    return x * scale + shift


class _Proxy:
    """forwards every attribute to `target` except the overridden ones (installed in ONE module's globals only)"""

    def __init__(self, target, **over):
        object.__setattr__(self, "_t", target)
        object.__setattr__(self, "_o", over)

    def __getattr__(self, k):
        o = object.__getattribute__(self, "_o")
        if k in o:
            return o[k]
        return getattr(object.__getattribute__(self, "_t"), k)


DEGEN = ("dup", "collinear", "const", "tiny_n", "allsame")


def gen_degenerate(seed, d, n, kind):
    """degenerate / barely determined data sets (n >= 2) on which fit_mvstud must return instead of raising"""
    g = np.random.default_rng(seed)
    if kind == "dup":            # at most d distinct points, duplicated
        k = min(n, int(g.integers(1, d + 1)))
        pts = g.standard_normal((k, d)) * 3.0 + g.uniform(-5, 5, size=d)
        x = pts[g.integers(0, k, size=n)]
        x[:k] = pts
    elif kind == "collinear":    # points in a proper affine subspace (exactly, up to rounding of the map)
        r = int(g.integers(1, d)) if d > 1 else 1
        z = g.standard_normal((n, r))
        B = g.integers(-3, 4, size=(r, d)).astype(float)
        x = z @ B + g.integers(-4, 5, size=d)
        if d == 1:
            x = np.repeat(x[:1], n, axis=0)
    elif kind == "const":        # one coordinate constant
        x = g.standard_normal((n, d)) * 2.0
        x[:, int(g.integers(0, d))] = float(g.integers(-3, 4))
    elif kind == "tiny_n":       # n barely above d (the caller chose n)
        x = g.standard_normal((n, d)) * np.exp(g.uniform(-2, 2, size=d))
    else:                        # all rows identical
        row = g.standard_normal((1, d)) if g.random() < 0.5 else g.integers(-5, 6, size=(1, d)).astype(float)
        x = np.repeat(row, n, axis=0)
    return np.ascontiguousarray(x, dtype=float)


def run_real(data, tol=1e-6, maxit=100, observe=True, fail_at=None, fail_kind="raise", profile=False, call=None):
    """real fit_mvstud with every iteration observed: the (Sigma, diffs) handed to np.linalg.solve (and whether it
    raised), what opt_nu's bisect did (value / raised; `fail_at=j` injects a ValueError into the j-th bisect call, as
    scipy raises it for a bracket without sign change), the matrix handed to np.linalg.cholesky (and whether it raised).
    The real code catches these exceptions; exceptions that escape fit_mvstud propagate to the caller."""
    import tempest.student as st
    from scipy import optimize
    its = []          # one dict per started iteration

    def rec_solve(S, D):
        its.append({"S": np.array(S, dtype=float, copy=True), "D": np.array(D, dtype=float, copy=True), "ev": None})
        try:
            return np.linalg.solve(S, D)
        except np.linalg.LinAlgError:
            its[-1]["ev"] = "notpd"
            raise

    def rec_bisect(f, a, b, *args, **kw):
        nb = sum(1 for t in its if isinstance(t["ev"], float) or t["ev"] == "fail")
        if fail_at is not None and nb == fail_at:
            if fail_kind == "zero":
                dim = its[-1]["S"].shape[0]
                its[-1]["ev"] = -float(dim)
                return -float(dim)
            its[-1]["ev"] = "fail"
            raise ValueError("f(a) and f(b) must have different signs (injected)")
        try:
            r = optimize.bisect(f, a, b, *args, **kw)
        except ValueError:
            its[-1]["ev"] = "fail"
            raise
        its[-1]["ev"] = float(r)
        return r

    def rec_chol(M):
        its[-1]["cand"] = np.array(M, dtype=float, copy=True)
        try:
            L = np.linalg.cholesky(M)
        except np.linalg.LinAlgError:
            its[-1]["chol_ok"] = False
            raise
        its[-1]["chol_ok"] = True
        return L

    # `profile=True`: every call of the nested functions opt_nu / func0 is observed through sys.setprofile (arguments from the
    # frame, the value from the return event): what func0 returned at which nu, the delta_iobs each opt_nu call was handed and
    # what it returned (None = it raised)
    calls = []        # one dict per opt_nu call: {"delta": array, "evals": [(nu, f)], "ret": float | None}
    src = os.path.realpath(st.__file__)

    def prof(frame, event, arg):
        co = frame.f_code
        if co.co_name == "opt_nu" and os.path.realpath(co.co_filename) == src:
            if event == "call":
                calls.append({"delta": np.array(frame.f_locals["delta_iobs"], dtype=float, copy=True), "evals": [], "ret": None,
                              "open": True})
            elif event == "return" and calls and calls[-1].get("open"):
                calls[-1]["ret"] = None if arg is None else float(arg)
                calls[-1]["open"] = False
        elif event == "return" and co.co_name == "func0" and os.path.realpath(co.co_filename) == src and calls:
            if arg is not None:
                calls[-1]["evals"].append((float(frame.f_locals["nu"]), float(arg)))

    buf = io.StringIO()
    with contextlib.ExitStack() as es:
        if observe:
            es.enter_context(common.patched(st, "np", _Proxy(np, linalg=_Proxy(np.linalg, solve=rec_solve, cholesky=rec_chol))))
            es.enter_context(common.patched(st, "optimize", _Proxy(optimize, bisect=rec_bisect)))
        es.enter_context(contextlib.redirect_stdout(buf))
        es.enter_context(warnings.catch_warnings())
        warnings.simplefilter("ignore")
        if profile:
            old_prof = sys.getprofile()
            sys.setprofile(prof)
        try:
            if call is not None:
                mu, S, nu = call()
            else:
                mu, S, nu = st.fit_mvstud(np.array(data, dtype=float), tolerance=tol, max_iter=maxit)
        finally:
            if profile:
                sys.setprofile(old_prof)
    assert st.np is np and st.optimize is optimize
    nu = float(nu)
    if its and its[-1]["ev"] is None:
        its[-1]["ev"] = "inf"         # solve succeeded, bisect was not reached: opt_nu answered inf (early return)
    warned = "did not converge" in buf.getvalue()
    last = its[-1] if its else None
    if last is None:
        stop = "maxit" if warned else "conv"
    elif last["ev"] in ("notpd", "fail", "inf"):
        stop = last["ev"]
    elif last.get("chol_ok") is False:
        stop = "chol"
    else:
        stop = "maxit" if warned else "conv"
    return {"mu": np.asarray(mu, dtype=float), "S": np.atleast_2d(np.asarray(S, dtype=float)), "nu": nu,
            "its": its, "warned": warned, "stop": stop, "optnu_calls": calls,
            "tape": [t["ev"] for t in its if t["ev"] != "notpd"],
            "nus": [t["ev"] for t in its if isinstance(t["ev"], float)],
            "solves": [(t["S"], t["D"]) for t in its]}


def _line(data, tape, tol, maxit):
    n, d = data.shape
    return (f"mvst.F d={d} n={n} data={flist(data.ravel().tolist(), f2hex)} "
            f"nus={flist(tape, lambda v: v if isinstance(v, str) else f2hex(v))} tol={f2hex(tol)} maxit={maxit}")


def _cmp_state(data, mu_m, S_m, mu_r, S_r, sd0):
    """max ratio |model - real| / tolerance-scale  (<= 1e-8 expected)"""
    d = data.shape[1]
    sdr = np.sqrt(np.abs(np.diag(S_r)))
    worst = 0.0
    for a in range(d):
        sc = sd0[a] + sdr[a] + 1e-4 * float(np.max(np.abs(data[:, a])))
        if sc == 0.0:
            sc = 1e-300
        worst = max(worst, abs(mu_m[a] - mu_r[a]) / sc)
        for b in range(d):
            sb = sd0[b] + sdr[b] + 1e-4 * float(np.max(np.abs(data[:, b])))
            sab = sc * sb
            worst = max(worst, abs(S_m[a][b] - S_r[a][b]) / (sab if sab > 0 else 1e-300))
    return worst


TOL_T = 1e-8
RCOND_MIN = 1e-6


def _rcond(M):
    """lambda_min / lambda_max of the correlation-normalised matrix (0 if some diagonal entry is not > 0 or not finite)"""
    M = np.atleast_2d(M)
    dg = np.diag(M)
    if not np.all(np.isfinite(M)) or np.any(dg <= 0):
        return 0.0
    s = 1.0 / np.sqrt(dg)
    ev = np.linalg.eigvalsh(M * np.outer(s, s))
    return max(0.0, float(ev[0] / ev[-1])) if ev[-1] > 0 else 0.0


def _comparable(r, data):
    """number L of leading states on which model and real code must agree to tolerance, and whether the whole run is
    decidable (no solve / Cholesky decision taken on an ill-conditioned matrix).  State j+1 is computed from a solve with
    Sigma_j and accepted by a Cholesky test of the candidate; once one of these matrices has rcond < 1e-6 (and is not the
    exactly singular initial matrix with a zero-variance coordinate, on which both sides fail deterministically) the
    PD decisions and everything computed afterwards are rounding noise on both sides: a near-tie, not a disagreement."""
    its = r["its"]
    if not its:
        return 1, True
    S0 = its[0]["S"]
    # a coordinate whose spread is at rounding level of its magnitude (constant column): whether its variance comes out
    # as exactly 0 (solve raises) or as ~1e-32 depends on the summation order of the mean
    flat = np.sqrt(np.abs(np.diag(S0))) <= 1e-9 * np.max(np.abs(data), axis=0)
    if np.any(flat):
        n = data.shape[0]
        exact = all(np.all(data[:, a] == data[0, a]) and float(data[0, a]).is_integer() and abs(data[0, a]) * n < 2.0 ** 50
                    for a in np.where(flat)[0])
        # exactly constant integer-valued column: mean and variance are exact on both sides, the initial matrix has an
        # exactly zero row, solve raises / the model's pivot is exactly 0 -- a deterministic decision
        return (None, True) if exact and its[0]["ev"] == "notpd" else (1, False)
    if _rcond(S0) < RCOND_MIN:
        return 1, False
    for j, t in enumerate(its):
        if "cand" in t and np.all(t["cand"] == 0.0):
            return None, True          # the zero matrix is rejected deterministically by both sides; the run ends there
        if "cand" in t and _rcond(t["cand"]) < RCOND_MIN:
            return j + 1, False
    return None, True


def _check_fit_case(c, data, tol, maxit, line, ans, r, degenerate):
    n, d = data.shape
    info = dict(data_hex=[f2hex(v) for v in data.ravel()], shape=[n, d], tol=tol, maxit=maxit, degenerate=degenerate)
    toks = ans.split(" ")
    if len(toks) != 6:
        c.disagree(input=line[:300], model=ans, impl="real run ok", **info)
        return
    stop, k = toks[0], int(toks[1])
    mus = [hex2f(h) for h in common.parse_list(toks[2], str)]
    sig = [hex2f(h) for h in common.parse_list(toks[3], str)]
    nu_m = math.inf if toks[4] == "inf" else hex2f(toks[4])
    warned_m = toks[5] == "1"
    # states the real run went through: one per started iteration (what np.linalg.solve was handed), plus the returned
    # one when the loop ended through its test (on every other exit the returned state is the last one)
    real_states = [(data[0, :] - t["D"][:, 0], t["S"]) for t in r["its"]]
    if r["stop"] in ("conv", "maxit"):
        real_states.append((r["mu"], r["S"]))
    L, decidable = _comparable(r, data)
    problems = []
    if decidable:
        if stop != r["stop"]:
            problems.append(f"stop reason model={stop} real={r['stop']}")
        if k != len(real_states):
            problems.append(f"iterates model={k} real={len(real_states)}")
        if not (nu_m == r["nu"]):
            problems.append(f"returned nu model={nu_m!r} real={r['nu']!r}")
        if warned_m != r["warned"]:
            problems.append(f"warning printed model={warned_m} real={r['warned']}")
        L = len(real_states)
    else:
        c.near_ties += 1
        c.count("near_tie_illconditioned")
        if k < L:
            problems.append(f"model stopped after {k} states, before the first ill-conditioned decision (state {L})")
    worst = 0.0
    if not problems:
        sd0 = np.sqrt(np.abs(np.diag(real_states[0][1])))
        for j in range(min(L, len(real_states))):
            mu_r, S_r = real_states[j]
            mu_m = mus[j * d:(j + 1) * d]
            S_m = [sig[j * d * d + a * d:j * d * d + (a + 1) * d] for a in range(d)]
            w = _cmp_state(data, mu_m, S_m, mu_r, S_r, sd0)
            if not (w <= TOL_T):
                problems.append(f"iterate {j}: |model-real|/scale = {w:.3g}")
                break
            worst = max(worst, w)
        if decidable and not problems:
            # the returned triple equals the last state the loop held
            mu_m = mus[(k - 1) * d:k * d]
            S_m = [sig[(k - 1) * d * d + a * d:(k - 1) * d * d + (a + 1) * d] for a in range(d)]
            w = _cmp_state(data, mu_m, S_m, r["mu"], r["S"], sd0)
            if not (w <= TOL_T):
                problems.append(f"returned state: |model-real|/scale = {w:.3g}")
            worst = max(worst, w)
    if problems:
        c.disagree(input=line[:200] + "...", model=ans[:200], impl=problems, **info)
    c.stats["max_err_over_scale"] = max(c.stats.get("max_err_over_scale", 0.0), worst)
    c.count("stop_" + r["stop"])
    c.count("updates", max(0, len(real_states) - 1))


def _fit_cases(rng, count, dmax=8):
    for t in range(count):
        d = rng.choice([1, 1, 2, 2, 2, 3, 3, 3, 4, 5, 6, 7, dmax])
        seed = rng.getrandbits(40)
        tol = rng.choice([1e-6, 1e-6, 1e-6, 1e-3, 1e-9])
        maxit = rng.choice([100, 100, 100, 100, 100, 100, 1, 2, 3, 5])
        fail_at = rng.randint(0, 3) if rng.random() < 0.10 else None
        fail_kind = rng.choice(["raise", "zero"])
        if t % 5 == 4:
            law = DEGEN[(t // 5) % len(DEGEN)]
            n = (d + rng.randint(1, 2)) if law == "tiny_n" else rng.randint(2, 40)
            n = max(n, 2)
        elif t % 20 == 7:
            law = "spike"
            n = rng.randint(4 * d + 4, 120)
        else:
            law = LAWS[t % 4]
            n = rng.randint(4 * d, 200) if rng.random() < 0.8 else 4 * d + rng.randint(0, 3)
        yield seed, d, n, law, tol, maxit, fail_at, fail_kind


def make_data(seed, d, n, law):
    if law == "spike":
        from . import c19b
        return c19b.gen_spike(seed, d, n)
    return gen_degenerate(seed, d, n, law) if law in DEGEN else gen_data(seed, d, n, law)


def correspond_fit(tier):
    count = 650 if tier == "quick" else 7500
    rng = common.rng_for("C19.fit")
    c = Corr("fit-T", "tolerance 1e-8 relative to per-entry scale (Float twin on the recorded opt_nu tape; exact on stop reason / "
                      "iterate count / nu / warning unless a solve or Cholesky decision was taken on a matrix with rcond < 1e-6)")
    drv = common.Driver()
    lines, cases = [], []
    for seed, d, n, law, tol, maxit, fail_at, fail_kind in _fit_cases(rng, count):
        data = make_data(seed, d, n, law)
        degenerate = law in DEGEN
        try:
            r = run_real(data, tol, maxit, fail_at=fail_at, fail_kind=fail_kind)
        except Exception as e:  # the real code raising is a finding for `search` (it must return its last valid estimate)
            c.disagree(input=f"gen seed={seed} d={d} n={n} law={law}", impl=f"raised {type(e).__name__}: {e}", model="-",
                       data_hex=[f2hex(v) for v in data.ravel()], shape=[n, d], tol=tol, maxit=maxit, degenerate=degenerate)
            c.case((seed, d, n, law, tol, maxit, fail_at, fail_kind), False)
            continue
        lines.append(_line(data, r["tape"], tol, maxit))
        cases.append((data, tol, maxit, r, degenerate))
        c.case((seed, d, n, law, tol, maxit, fail_at, fail_kind), len(r["nus"]) >= 1 or r["stop"] in ("notpd", "fail", "chol"))
        c.count(f"d={d}")
        c.count("law_" + law)
        if fail_at is not None and r["stop"] == "fail":
            c.count("injected_bisect_failure_reached")
        if fail_at is not None and r["stop"] == "chol" and any(isinstance(v, float) and v < 0 for v in r["tape"]):
            c.count("injected_zero_weights_rejected_by_cholesky")
        if len(c.samples) < 2 and len(r["nus"]) >= 2 and n <= 12:
            c.sample({"gen": {"seed": seed, "d": d, "n": n, "law": law}, "tol": tol, "max_iter": maxit,
                      "opt_nu_tape": r["tape"], "stop": r["stop"],
                      "real": {"mu": r["mu"].tolist(), "Sigma": r["S"].tolist(), "nu": r["nu"]}})
    if c.error is None and lines:
        res = drv.batch(lines)
        for (data, tol, maxit, r, degenerate), line, ans in zip(cases, lines, res):
            _check_fit_case(c, data, tol, maxit, line, ans, r, degenerate)
    return c


# ------------------------------------------------------------------------------------------- dof fallback
# the FORM in which an option / array is handed over must not matter: the value is what counts
FB_SPECS = [None, None, None, ["float", 1e6], ["float", 1.0], ["float", 7.5], ["float", 12345.678],
            ["int", 1], ["int", 1000000], ["int", 7], ["np.int64", 12], ["np.int32", 5], ["np.float32", 7.5], ["np.float64", 2.5],
            ["bool", True]]
W_FORMS = ("array", "array", "list", "int", "int_list", "float32")
U_FORMS = ("c64", "c64", "fortran", "float32", "list")


def make_fb(spec):
    """the dof_fallback option in the given form (None = not passed)"""
    if spec is None:
        return None
    form, v = spec
    return {"float": float, "int": int, "bool": bool, "np.int64": np.int64, "np.int32": np.int32, "np.float32": np.float32,
            "np.float64": np.float64}[form](v)


def form_w(w, form):
    w = np.asarray(w, dtype=float)
    if form == "list":
        return [float(v) for v in w]
    if form in ("int", "int_list"):
        wi = np.maximum(1, np.round(w * 16)).astype(np.int64)
        return wi if form == "int" else [int(v) for v in wi]
    if form == "float32":
        return w.astype(np.float32)
    return w


def form_u(u, form):
    u = np.asarray(u, dtype=float)
    if form == "fortran":
        return np.asfortranarray(u)
    if form == "float32":
        return u.astype(np.float32)
    if form == "list":
        return [[float(v) for v in r] for r in u]
    return u


def run_modes(kind, u, weights, labels, dofs, fb, tape_rng, resample_factor):
    """ModeStatistics.from_particles / from_global with fit stubbed (dof tape) and np.random.choice on a tape"""
    import tempest.modes as tm
    d = np.asarray(u).shape[1]
    seen = {"fit_in": [], "choice": []}
    it = iter(dofs)

    def fake_fit(x, *a, **k):
        seen["fit_in"].append(np.array(x, copy=True))
        return np.arange(d, dtype=float), np.eye(d) * 2.0, next(it)

    def tape_choice(a, size=None, replace=True, p=None):
        idx = np.array([tape_rng.randrange(int(a)) for _ in range(int(size))], dtype=int)
        seen["choice"].append((int(a), int(size), bool(replace), None if p is None else np.array(p, copy=True), idx))
        return idx

    kw = {} if fb is None else {"dof_fallback": fb}
    if resample_factor is not None:
        kw["resample_factor"] = resample_factor
    with common.patched(tm, "fit_mvstud", fake_fit), common.patched(np.random, "choice", tape_choice), \
            warnings.catch_warnings():
        warnings.simplefilter("ignore")
        if kind == "global":
            ms = tm.ModeStatistics.from_global(u, weights, **kw)
        else:
            ms = tm.ModeStatistics.from_particles(u, weights, labels, **kw)
    return ms, seen


def _dof_values(rng):
    k = rng.random()
    if k < 0.3:
        return math.inf
    if k < 0.55:
        return math.nan
    if k < 0.65:
        return np.float64(math.inf) if rng.random() < 0.5 else np.float64(math.nan)
    if k < 0.75:
        return rng.choice([1e6, 1.0, 20, 1e300, 5e-324, 2.5, 1e-300, 999999.9999999999])
    if k < 0.85:
        return rng.choice([0.6, 0.05, 0.999, 2.45, 4.45, 1.5, 0.3])
    return float(np.float64(rng.uniform(0.05, 200.0)))


def _dof_tag(v):
    v = float(v)
    return "nan" if v != v else ("inf" if math.isinf(v) else "fin")


def correspond_dof(tier):
    count = 400 if tier == "quick" else 5000
    rng = common.rng_for("C19.dof")
    c = Corr("dof-fallback", "exact (Dof model, bit-for-bit; resampled data = u[tape])")
    drv = common.Driver()
    lines, cases = [], []
    for t in range(count):
        d = rng.randint(1, 4)
        K = 1 if rng.random() < 0.4 else rng.randint(2, 4)
        kind = "global" if (K == 1 and rng.random() < 0.7) else "particles"
        N = rng.randint(3 * K, 30)
        g = np.random.default_rng(rng.getrandbits(40))
        u = g.random((N, d))
        w = g.random(N) + 1e-3
        labels = np.array([i % K for i in range(N)]) * rng.choice([1, 3])   # raw labels need not be 0..K-1
        g.shuffle(labels)
        dofs = [_dof_values(rng) for _ in range(K)]
        fb_spec = rng.choice(FB_SPECS)
        fb = make_fb(fb_spec)
        wform, uform = rng.choice(W_FORMS), rng.choice(U_FORMS)
        rf = rng.choice([None, None, 1, 2, 4])
        tape_seed = rng.getrandbits(40)
        import random as _r
        w_in, u_in = form_w(w, wform), form_u(u, uform)
        w = np.asarray(w_in, dtype=float)                  # the values actually handed over
        u = np.asarray(u_in)
        forms = {"fb_spec": fb_spec, "wform": wform, "uform": uform}
        try:
            ms, seen = run_modes(kind, u_in, w_in, labels, dofs, fb, _r.Random(tape_seed), rf)
        except Exception as e:  # noqa
            c.disagree(input=f"{kind} N={N} K={K} dofs={dofs!r} fb={fb!r} forms={forms}", impl=f"raised {type(e).__name__}: {e}", model="-",
                       dofs=[repr(float(v)) for v in dofs], fb=None if fb is None else float(fb), kind=kind, **forms)
            c.case((t,), False)
            continue
        fbv = 1e6 if fb is None else float(fb)
        c.count("fallback_form_" + ("default" if fb_spec is None else fb_spec[0]))
        c.count("weights_form_" + wform)
        c.count("u_form_" + uform)
        got = [float(v) for v in np.asarray(ms.degrees_of_freedom).ravel()]
        # resampling: the fit saw exactly u_cluster[idx]
        ok_rs = len(seen["fit_in"]) == K and len(seen["choice"]) == K and len(got) == K
        if ok_rs:
            wn = w / np.sum(w)
            for j, lab in enumerate(np.unique(labels) if kind == "particles" else [None]):
                sel = np.arange(N) if lab is None else np.where(labels == lab)[0]
                a, size, repl, p, idx = seen["choice"][j]
                rfv = 4 if rf is None else rf
                ok_rs &= (a == len(sel) and size == len(sel) * rfv and repl and p is not None and len(p) == len(sel)
                          and abs(float(np.sum(p)) - 1.0) < (1e-5 if wform == "float32" else 1e-9)
                          and np.allclose(p, wn[sel] / np.sum(wn[sel]), rtol=1e-6 if wform == "float32" else 1e-12, atol=0)
                          and np.array_equal(seen["fit_in"][j], u[sel][idx]))
        if not ok_rs:
            c.disagree(input=f"{kind} N={N} K={K} rf={rf}", impl="resampled data handed to the fit is not u_cluster[tape]",
                       model="u_cluster[idx], size n_cluster*resample_factor, p = normalised cluster weights")
        for v, y in zip(dofs, got):
            lines.append(f"dof.F tag={_dof_tag(v)} x={f2hex(0.0 if _dof_tag(v) != 'fin' else float(v))} fb={f2hex(fbv)}")
            cases.append((kind, float(v), fbv, y, forms))
        c.case((kind, N, K, [repr(float(v)) for v in dofs], repr(fb_spec), wform, uform, rf, tape_seed),
               any(_dof_tag(v) != "fin" for v in dofs) or (fb_spec is not None and fb_spec[0] != "float"))
        c.count(kind)
        for v in dofs:
            c.count("dof_" + _dof_tag(v))
    res = drv.batch(lines)
    for (kind, v, fbv, y, forms), line, ans in zip(cases, lines, res):
        want = "fin " + f2hex(y)
        if ans != want or not math.isfinite(y):
            c.disagree(input=line, impl=f"{kind}: fit dof={v!r} fallback={fbv!r} (given as {forms['fb_spec']!r}) -> "
                                        f"degrees_of_freedom={y!r} ({want})", model=ans,
                       dofs=[repr(v)], fb=fbv, kind=kind, **forms)
        c.sample({"op": line, "impl": repr(y), "model": ans})
    return c


def correspond(tier):
    from . import c19b
    return ([c19b.correspond_constants(tier), correspond_fit(tier), correspond_dof(tier), c19b.correspond_bisect(tier), c19b.correspond_bisect_q(tier)] + c19b.correspond_optnu(tier)
            + [c19b.correspond_modes(tier), c19b.correspond_trainer(tier), c19b.correspond_sequence(tier), c19b.correspond_handoff(tier),
               c19b.correspond_property(tier)])


# ------------------------------------------------------------------------------------------- property oracle (real code)
def _quiet_fit(data, **kw):
    from tempest.student import fit_mvstud
    with contextlib.redirect_stdout(io.StringIO()), warnings.catch_warnings():
        warnings.simplefilter("ignore")
        mu, S, nu = fit_mvstud(np.array(data, dtype=float), **kw)
    return np.asarray(mu, dtype=float), np.atleast_2d(np.asarray(S, dtype=float)), float(nu)


def _func0(nu, delta, dim, n):
    from scipy import special
    w = (nu + dim) / (nu + delta)
    return float(-special.psi(nu / 2) + np.log(nu / 2) + np.sum(np.log(w)) / n - np.sum(w) / n + 1
                 + special.psi((nu + dim) / 2) - np.log((nu + dim) / 2))


def _knife_edge(data, **kw):
    """does some iteration's inf/finite decision hang on |func0(nu_max)| at rounding level?  (observed, not re-derived:
    the deltas come from the (Sigma, diffs) the real run handed to np.linalg.solve)"""
    try:
        r = run_real(data, kw.get("tolerance", 1e-6), kw.get("max_iter", 100))
    except Exception:  # noqa
        return False
    n, d = data.shape
    for S, D in r["solves"]:
        delta = np.sum(D * np.linalg.solve(S, D), 0)
        for numax in (1e6,):
            if abs(_func0(numax, delta, d, n)) < 2e-13:   # evaluation noise of func0 at 1e6 is ~1e-14
                return True
    return False


def wellposed(data, **kw):
    """clauses 'finite location inside the bounding box, symmetric positive-definite scale, dof in (0, inf]'"""
    n, d = data.shape
    try:
        mu, S, nu = _quiet_fit(data, **kw)
    except Exception as e:  # noqa
        return f"fit_mvstud raised {type(e).__name__}: {e}"
    lo, hi = data.min(0), data.max(0)
    slack = 1e-12 * (np.abs(lo) + np.abs(hi) + (hi - lo))
    if mu.shape != (d,) or not np.all(np.isfinite(mu)):
        return f"location not finite: {mu!r}"
    if np.any(mu < lo - slack) or np.any(mu > hi + slack):
        return f"location {mu.tolist()!r} outside the bounding box [{lo.tolist()!r}, {hi.tolist()!r}]"
    if S.shape != (d, d) or not np.all(np.isfinite(S)):
        return f"scale matrix not finite: {S!r}"
    sd = np.sqrt(np.abs(np.diag(S)))
    if np.any(np.abs(S - S.T) > 1e-12 * np.outer(sd, sd)):
        return f"scale matrix not symmetric: max |S-S^T| = {np.max(np.abs(S - S.T))!r}"
    try:
        np.linalg.cholesky(S)
    except np.linalg.LinAlgError:
        return f"scale matrix not positive definite (cholesky fails): {S.tolist()!r}"
    if not (nu > 0):
        return f"degrees of freedom {nu!r} not in (0, inf]"
    return None


def noraise(data, **kw):
    """fit_mvstud never raises (LinAlgError / ValueError / anything) on finite data with n >= 2: on degenerate samples it
    returns its last valid estimate"""
    try:
        mu, S, nu = _quiet_fit(data, **kw)
    except Exception as e:  # noqa
        return f"fit_mvstud raised {type(e).__name__}: {e} on finite data of shape {list(data.shape)}"
    if mu.shape != (data.shape[1],) or S.shape != (data.shape[1], data.shape[1]):
        return f"wrong shapes returned: mu {mu.shape}, Sigma {S.shape}"
    return None


def _rel_diff(mu1, S1, nu1, mu2, S2, nu2):
    sd = np.sqrt(np.abs(np.diag(S2)))
    e = float(np.max(np.abs(mu1 - mu2) / sd))
    e = max(e, float(np.max(np.abs(S1 - S2) / np.outer(sd, sd))))
    if math.isfinite(nu1) and math.isfinite(nu2):
        e = max(e, abs(nu1 - nu2) / abs(nu2))
    elif nu1 != nu2:
        e = math.inf
    return e


def equivariant(data, perm, pw, shift):
    """y = x[:, perm] * 2^pw + shift  must give (mu[perm]*2^pw + shift, D S[perm,perm] D, nu)"""
    s = np.ldexp(1.0, np.array(pw, dtype=int))
    y = data[:, perm] * s + shift
    n, d = data.shape
    for kw in ({}, {"tolerance": 1e-10, "max_iter": 500}):
        try:
            mu1, S1, nu1 = _quiet_fit(data, **kw)
            mu2, S2, nu2 = _quiet_fit(y, **kw)
        except Exception as e:  # noqa
            return f"fit_mvstud raised {type(e).__name__}: {e}"
        e = _rel_diff(mu1[perm] * s + shift, S1[np.ix_(perm, perm)] * np.outer(s, s), nu1, mu2, S2, nu2)
        if e <= 1e-6:
            return None
    if _knife_edge(data, **kw) or _knife_edge(y, **kw):
        return None     # the inf / finite decision of opt_nu hangs on rounding noise: not a verdict on equivariance
    return (f"not equivariant (relative {e:.3g} > 1e-6, also with tolerance=1e-10,max_iter=500): perm={list(map(int, perm))} "
            f"scale=2^{list(map(int, pw))} shift={np.asarray(shift).tolist()} -> nu {nu1!r} vs {nu2!r}, mu {mu1.tolist()} vs {mu2.tolist()}")


def dof_oracle(v, fb, fb_spec=None, wform="array", uform="c64"):
    """the dof handed on by the two constructors is the finite fitted dof BIT FOR BIT (in (0, inf) whenever the fit's is), the
    configured fallback exactly when the fit's is not finite -- in whatever form the option and the arrays are given"""
    import random as _r
    u = form_u(np.random.default_rng(5).random((12, 2)), uform)
    w = form_w(np.ones(12), wform)
    if fb_spec is not None:
        fb = make_fb(fb_spec)
    for kind in ("global", "particles"):
        try:
            ms, _ = run_modes(kind, u, w, np.zeros(12, dtype=int), [v], fb, _r.Random(1), None)
        except Exception as e:  # noqa
            return f"{kind}: raised {type(e).__name__}: {e}"
        y = float(np.asarray(ms.degrees_of_freedom).ravel()[0])
        want = float(fb) if not math.isfinite(float(v)) else float(v)
        if not (math.isfinite(y) and y == want) or (float(v) > 0 and math.isfinite(float(v)) and not y > 0):
            return (f"ModeStatistics.from_{kind}(dof_fallback={fb!r} [{type(fb).__name__}], weights as {wform}, u as {uform}): fit returned "
                    f"dof={float(v)!r}: degrees_of_freedom={y!r} (want {want!r})")
    return None


def recovery(seed, nu_true, n=20000, d=2):
    """loose sanity check (never a pass criterion of the correspondence): d-variate t sample with known parameters,
    compared in whitened coordinates (tolerances several sampling standard deviations wide at n = 20000)"""
    g = np.random.default_rng(seed)
    if d == 2:
        L = np.array([[1.5, 0.0], [0.4, 0.8]])
        m = np.array([1.0, -2.0])
    else:
        A = g.standard_normal((d, d))
        L = np.linalg.cholesky(A @ A.T / d + np.eye(d))
        m = g.uniform(-1.0, 1.0, d)
    z = g.standard_normal((n, d)) / np.sqrt(g.chisquare(nu_true, size=(n, 1)) / nu_true)
    x = m + z @ L.T
    tag = f"t_{nu_true} sample n={n} d={d} (default_rng({seed}))"
    try:
        mu, S, nu = _quiet_fit(x)
    except Exception as e:  # noqa
        return f"fit_mvstud raised {type(e).__name__}: {e}"
    if not (math.isfinite(nu) and 0.75 * nu_true <= nu <= 1.4 * nu_true):
        return f"{tag}: fitted nu={nu!r}"
    Li = np.linalg.inv(L)
    m_err = float(np.max(np.abs(Li @ (np.asarray(mu) - m))))
    s_err = float(np.max(np.abs(Li @ np.atleast_2d(S) @ Li.T - np.eye(d))))
    if m_err > 0.08:
        return f"{tag}: fitted location off by {m_err:.3g} (whitened units)"
    if s_err > 0.15:
        return f"{tag}: fitted scale matrix off by {s_err:.3g} (whitened, relative)"
    return None


def _oracle_case(case):
    kind = case["kind"]
    if kind == "trainer":
        from . import c19b
        return c19b.trainer_oracle(case["trainer_case"])
    if kind == "handoff":
        from . import c19b
        return c19b.handoff_oracle(case["handoff_cfg"])
    if kind == "forms":
        from . import c19b
        return c19b.forms_oracle(case["forms_case"])
    if kind == "sequence":
        from . import c19b
        return c19b.sequence_oracle(case["sequence_cfg"], case.get("level") == "statement")
    if kind == "dof":
        return dof_oracle(hex2f(case["dof_hex"]), case["fb"], case.get("fb_spec"), case.get("wform", "array"), case.get("uform", "c64"))
    if kind == "recovery":
        return recovery(case["seed"], case["nu_true"], d=case.get("d", 2))
    n, d = case["shape"]
    data = np.array([hex2f(h) for h in case["data_hex"]], dtype=float).reshape(n, d)
    if kind == "noraise":
        kw = {}
        if "tol" in case:
            kw = {"tolerance": case["tol"], "max_iter": case["maxit"]}
        return noraise(data, **kw)
    if kind == "wellposed":
        kw = {}
        if "tol" in case:
            kw = {"tolerance": case["tol"], "max_iter": case["maxit"]}
        return wellposed(data, **kw)
    return equivariant(data, np.array(case["perm"], dtype=int), case["pw"], np.array(case["shift"], dtype=float))


def search(tier, hints):
    found = []

    def consider(case):
        try:
            msg = _oracle_case(case)
        except Exception as e:  # noqa
            msg = f"oracle raised {type(e).__name__}: {e}"
        if msg:
            head = {"what": msg}
            head.update({k: v for k, v in case.items() if k != "data_hex"})
            if "data_hex" in case:
                head["data_hex"] = case["data_hex"]
            found.append(head)
        return len(found) >= 5

    rng = common.rng_for("C19.search")

    def transforms(data):
        # scalings are powers of two (exact in floating point); the translation is a moderate multiple of the
        # coordinate's own range, so that adding it perturbs the data by at most a few ulps of the range
        # (a shift of 50 on a coordinate scaled down to a spread of 1e-6 would wipe out 8 digits of the INPUT)
        d = data.shape[1]
        perm = list(range(d))
        rng.shuffle(perm)
        pw = [rng.randint(-20, 20) for _ in range(d)]
        rg = (data.max(0) - data.min(0))[perm]
        shift = [0.0] * d if rng.random() < 0.3 else [float(math.ldexp(rng.uniform(-8, 8) * rg[a], pw[a])) for a in range(d)]
        return perm, pw, shift

    # 0. a Trainer sequence disagreed: look first for a fit that violates a clause of the statement against its own rows (bounding
    #    box, positive definiteness, nu range) -- among the hinted sequences, then among the contract-and-drift family
    seq_hints = [h["sequence_cfg"] for h in hints if "sequence_cfg" in h]
    if seq_hints or any("signature_changed" in h or "handoff_cfg" in h for h in hints):
        from . import c19b
        pool = seq_hints + [cs["sequence_cfg"] for cs in c19b.sweep_cases(tier) if cs["kind"] == "sequence"]
        for cfg in pool[:40]:
            if consider({"kind": "sequence", "sequence_cfg": cfg, "level": "statement"}):
                return found
            if found:
                break
    # 0b. a disagreement that involves the FORM of an option / array (int, numpy scalar, bool; list / int / float32 / Fortran arrays):
    #     look first for a clause of the statement violated by the real constructors with the real fit (dof not in (0, inf), dof not
    #     the fitted one) on heavy-tailed samples, the hinted cases first
    def _formy(h):
        sp = h.get("fb_spec") or (h.get("trainer_case") or {}).get("fb_spec") or (h.get("forms_case") or {}).get("fb_spec")
        return (sp is not None and sp[0] != "float") or h.get("wform", "array") != "array" or h.get("uform", "c64") != "c64"
    if any(_formy(h) for h in hints):
        from . import c19b
        pool = [h["forms_case"] for h in hints if "forms_case" in h] + \
               [cs["forms_case"] for cs in c19b.sweep_cases(tier) if cs["kind"] == "forms"]
        for fc in pool[:40]:
            if consider({"kind": "forms", "forms_case": fc}):
                return found
            if len(found) >= 2:
                break
    # 1. inputs on which the correspondence disagreed
    for h in hints:
        if "trainer_case" in h:
            if consider({"kind": "trainer", "trainer_case": h["trainer_case"]}):
                return found
            continue
        if "handoff_cfg" in h:
            if consider({"kind": "handoff", "handoff_cfg": h["handoff_cfg"]}):
                return found
            continue
        if "sequence_cfg" in h:
            if consider({"kind": "sequence", "sequence_cfg": h["sequence_cfg"]}):
                return found
            continue
        if "forms_case" in h:
            if consider({"kind": "forms", "forms_case": h["forms_case"]}):
                return found
            continue
        if h.get("kind") == "recovery":
            if consider({"kind": "recovery", "seed": h["seed"], "nu_true": h["nu_true"], "d": h.get("d", 2)}):
                return found
            continue
        if h.get("kind") == "equiv" and "perm" in h:
            if consider({k: h[k] for k in ("kind", "data_hex", "shape", "perm", "pw", "shift")}):
                return found
            continue
        if "data_hex" in h and "shape" in h:
            n, d = h["shape"]
            base = {"data_hex": h["data_hex"], "shape": [n, d]}
            if consider(dict(base, kind="noraise", tol=h.get("tol", 1e-6), maxit=h.get("maxit", 100))):
                return found
            if h.get("degenerate"):
                continue        # the remaining clauses are stated for non-degenerate data sets
            if consider(dict(base, kind="wellposed", tol=h.get("tol", 1e-6), maxit=h.get("maxit", 100))):
                return found
            perm, pw, shift = transforms(np.array([hex2f(v) for v in h["data_hex"]], dtype=float).reshape(n, d))
            if consider(dict(base, kind="equiv", perm=perm, pw=pw, shift=shift)):
                return found
        if "dofs" in h and h.get("fb") is not None and "trainer_case" not in h:
            for v in h["dofs"]:
                if consider({"kind": "dof", "dof_hex": f2hex(float(v)), "fb": h["fb"], "fb_spec": h.get("fb_spec"),
                             "wform": h.get("wform", "array"), "uform": h.get("uform", "c64")}):
                    return found
    # 2. dof fallback: the two constructors directly, every path of Trainer.run, the hand-off to the kernel in real runs
    for v in (math.inf, math.nan, 3.5, 1e6, 1e300):
        for fb in (1e6, 7.5):
            if consider({"kind": "dof", "dof_hex": f2hex(v), "fb": fb}):
                return found
    # ... with the option / the arrays given in other forms (int, numpy scalars, bool; list / int / float32 / Fortran arrays)
    for v in (0.6, 2.45, math.inf, 0.05, 171.3, math.nan):
        for spec in (["int", 1], ["int", 1000000], ["np.int64", 12], ["np.float32", 7.5], ["bool", True]):
            for wform, uform in (("array", "c64"), ("int_list", "float32"), ("list", "fortran")):
                if consider({"kind": "dof", "dof_hex": f2hex(v), "fb": float(make_fb(spec)), "fb_spec": spec, "wform": wform,
                             "uform": uform}):
                    return found
    from . import c19b
    for case in c19b.sweep_cases(tier):
        if consider(case):
            return found
    # 3. never raises on degenerate / barely determined finite data, d = 1..8, n >= 2
    for t in range(200 if tier == "quick" else 4000):
        d = 1 + t % 8
        kind = DEGEN[(t // 8) % len(DEGEN)]
        n = max(2, d + rng.randint(1, 2)) if kind == "tiny_n" else rng.randint(2, 60)
        data = gen_degenerate(rng.getrandbits(40), d, n, kind)
        case = {"data_hex": [f2hex(v) for v in data.ravel()], "shape": [n, d], "law": kind, "kind": "noraise"}
        if t % 3 == 0:
            case.update(tol=1e-9, maxit=rng.choice([1, 2, 5, 100]))
        if consider(case):
            return found
    # 4. well-posedness and equivariance on generated (non-degenerate) data, d = 1..8
    count = 150 if tier == "quick" else 3000
    for t in range(count):
        d = 1 + t % 8
        n = rng.randint(4 * d, 200)
        law = LAWS[(t // 8) % 4]
        data = gen_data(rng.getrandbits(40), d, n, law)
        base = {"data_hex": [f2hex(v) for v in data.ravel()], "shape": [n, d], "law": law}
        if consider(dict(base, kind="wellposed")):
            return found
        perm, pw, shift = transforms(data)
        if consider(dict(base, kind="equiv", perm=perm, pw=pw, shift=shift)):
            return found
    # 5. recovery of the generating parameters (loose): moderate and heavy tails, low and higher dimension
    cases = [(0, 3, 2), (1, 5, 2), (2, 1, 2), (3, 2, 5), (4, 3, 8), (5, 1.5, 6), (6, 2, 1)]
    if tier != "quick":
        cases += [(7, 8, 2), (8, 4, 3), (9, 2.5, 2), (10, 1, 8), (11, 0.7, 3), (12, 12, 4)]
    for seed, nu_true, d in cases:
        if consider({"kind": "recovery", "seed": seed, "nu_true": nu_true, "d": d}):
            return found
    return found


def replay(obj):
    f = obj.get("failing_input", obj)
    if "witness" in f.get("replay", {}):
        from . import witnesses
        return witnesses.ALL[f["replay"]["witness"]]()
    msg = _oracle_case(f)
    return {"fails": msg is not None, "detail": msg}
