"""C17, nested values (object-dtype arrays, lists): suites and oracle.  Imported by harness/c17.py.

Suite `statemanager-nested`: random op sequences with CONTAINER values (an object ndarray for `blobs`, a list for
`assignments`; elements None / scalar / plain array / an array obtained earlier) on the real StateManager and on the nested
Lean model (`Model/StateMgrN.lean`, driver command `sm2.run deep=1`).  The caller overwrites everything it obtains:
the arrays INSIDE a returned container, plain arrays, and the elements of the containers.  Digests of all observable reads
(payloads down to the elements) are compared exactly after every op.
Suite `sampler-blobs`: real Sampler runs whose likelihood returns blobs of every documented kind; every array found
anywhere inside sample() / results() / posterior(return_blobs) / to_dict() / get_history outputs is overwritten and
everything is re-read (real code only: the property's own exact oracle).
"""
import contextlib
import copy
import io
import itertools
import warnings

import numpy as np

from . import common
from .common import Corr

SENTINEL = -9
CUR_KEYS = ["u", "x", "logl", "assignments", "blobs", "acceptance", "steps", "efficiency", "ess", "beta", "logz", "calls", "iter"]
HIST_KEYS = ["u", "x", "logl", "blobs", "iter", "logz", "calls", "steps", "efficiency", "ess", "acceptance", "beta"]


def _lean_int(t):
    body = t[1:] if t[:1] == "-" else t
    return body != "" and all(ch in "0123456789" for ch in body)


def is_container(v):
    return isinstance(v, (list, tuple, dict)) or (isinstance(v, np.ndarray) and v.dtype.hasobject)


def elements(v):
    if isinstance(v, np.ndarray):
        return list(v.ravel())
    if isinstance(v, dict):
        return list(v.values())
    return list(v)


def p1(e):
    if e is None:
        return "N"
    if isinstance(e, np.ndarray) and not e.dtype.hasobject:
        return "A" + ".".join(str(int(t)) for t in e.ravel().tolist())
    if is_container(e):
        return "X"
    return "S%d" % int(e)


def pv(v):
    if v is None:
        return "N"
    if is_container(v):
        return "O" + "~".join(p1(e) for e in elements(v))
    if isinstance(v, np.ndarray):
        return "A" + ".".join(str(int(t)) for t in v.ravel().tolist())
    return "S%d" % int(v)


def show_dict(d, drop_empty=False):
    items = []
    for k in sorted(d):
        s = pv(d[k])
        if s == "N" or (drop_empty and s == "A"):
            continue
        items.append(f"{k}:{s}")
    return ",".join(items) + f";n={len(d)}"


def show_hist(h):
    return ",".join(f"{k}:{'/'.join(pv(v) for v in h[k])}" for k in sorted(h) if h[k]) + f";n={len(h)}"


def _err(e):
    return {"ValueError": "E:value", "IndexError": "E:index", "KeyError": "E:key"}.get(type(e).__name__)


def read_history(sm):
    out = {}
    for k in HIST_KEYS:
        ent = []
        i = 0
        while True:
            try:
                ent.append(sm.get_history(k, i))
            except IndexError:
                break
            i += 1
        out[k] = ent
    return out


def well_formed(hist):
    b, z, l = hist["beta"], hist["logz"], hist["logl"]
    if not b:
        return True
    sc = lambda v: v is not None and not isinstance(v, (np.ndarray, list, dict))  # noqa
    return (all(sc(v) for v in b) and all(sc(v) for v in z)
            and all(isinstance(v, np.ndarray) and not v.dtype.hasobject for v in l)
            and len(z) == len(b) and len(l) == len(b))


def show_results(res):
    items = []
    for k in sorted(res):
        v = res[k]
        if k == "logw":
            items.append(f"logw:S{int(np.asarray(v).size)}")
            continue
        s = pv(v)
        if s in ("N", "A"):
            continue
        items.append(f"{k}:{s}")
    return ",".join(items) + f";n={len(res)}"


def reads(sm):
    """all observable reads as strings: (current dict, history dict of lists, results string)"""
    with warnings.catch_warnings():
        warnings.simplefilter("ignore")
        cur = {k: pv(v) for k, v in sm.get_current().items()}
        hist_raw = read_history(sm)
        hist = {k: [pv(v) for v in l] for k, l in hist_raw.items()}
        if not well_formed(hist_raw):
            return cur, hist, "skip"
        try:
            with np.errstate(all="ignore"):
                res = show_results(sm.compute_results())
        except (ValueError, IndexError, KeyError) as e:
            res = _err(e)
        return cur, hist, res


def digest(sm, r):
    cur, hist, res = reads(sm)
    c = ",".join(f"{k}:{cur[k]}" for k in sorted(cur) if cur[k] != "N") + f";n={len(cur)}"
    h = ",".join(f"{k}:{'/'.join(hist[k])}" for k in sorted(hist) if hist[k]) + f";n={len(hist)}"
    return f"r={r}#c={c}#h={h}#R={res}"


def walk(o, plain, conts, seen=None):
    """collect the plain arrays and the containers reachable from o (containers after their contents)"""
    seen = set() if seen is None else seen
    if id(o) in seen:
        return
    seen.add(id(o))
    if is_container(o):
        for e in elements(o):
            walk(e, plain, conts, seen)
        conts.append(o)
    elif isinstance(o, np.ndarray):
        plain.append(o)


class RealN:
    """op tokens of `sm2.run` executed on the real StateManager"""

    def __init__(self):
        from tempest.state_manager import StateManager
        self.sm = StateManager(2)
        self.held = []      # per op: (plain arrays incl. those inside containers, containers)
        self.roots = []     # per op: list of top-level objects obtained (for `H<i>`)
        self.export = []    # per op: exported dictionary or None
        self.stats = {"commit": 0, "containers_out": 0, "inner_scribbled": 0, "elems_scribbled": 0, "plain_scribbled": 0}

    def _arg1(self, t):
        """-> (value, created objects) | None (malformed) | 'illegal'"""
        if t == "N":
            return (None, [])
        if t[:1] == "S":
            return (int(t[1:]), []) if _lean_int(t[1:]) else None
        if t[:1] == "A":
            body = t[1:]
            parts = [] if body == "" else body.split(".")
            if not all(_lean_int(x) for x in parts):
                return None
            a = np.array([int(x) for x in parts], dtype=float)
            return (a, [a])
        if t[:1] == "H":
            if not t[1:].isdigit():
                return None
            i = int(t[1:])
            if i >= len(self.roots) or len(self.roots[i]) != 1:
                return None
            return (self.roots[i][0], [])
        return None

    def _arg(self, t, key):
        if t[:1] in ("O", "D"):
            body = t[1:]
            parts = [] if body == "" else body.split("~")
            es = [self._arg1(x) for x in parts]
            if any(e is None for e in es):
                return None
            if any(is_container(e[0]) for e in es):
                return "illegal"       # an element must be a plain array (the model's nesting depth)
            if t[:1] == "D":
                c = {f"k{j}": e[0] for j, e in enumerate(es)}
            elif key == "assignments":
                c = [e[0] for e in es]
            else:
                c = np.empty(len(es), dtype=object)
                for j, e in enumerate(es):
                    c[j] = e[0]
            return (c, [c])
        return self._arg1(t)

    def _call(self, f, fmt):
        try:
            with warnings.catch_warnings():
                warnings.simplefilter("ignore")
                with np.errstate(all="ignore"):
                    v = f()
        except (ValueError, IndexError, KeyError) as e:
            return _err(e), [], None
        return fmt(v)

    @staticmethod
    def _bool(t):
        return {"0": False, "1": True}.get(t)

    def exec(self, tok):
        sm = self.sm
        f = tok.split(":")
        out = ("bad-op", [], None)     # (result string, roots, export)
        kind = f[0]
        if kind == "scr" and len(f) == 3:
            if f[1].isdigit() and int(f[1]) < len(self.held) and _lean_int(f[2]):
                val = int(f[2])
                plain, conts = [], []
                for r in self.roots[int(f[1])]:
                    walk(r, plain, conts)
                top = [id(r) for r in self.roots[int(f[1])]]
                for a in plain:
                    if a.size:
                        self.stats["plain_scribbled" if id(a) in top else "inner_scribbled"] += 1
                    a[...] = val
                for c in conts:
                    if isinstance(c, np.ndarray):
                        if c.size:
                            self.stats["elems_scribbled"] += 1
                        c[...] = val
                    elif isinstance(c, list):
                        if c:
                            self.stats["elems_scribbled"] += 1
                        c[:] = [val] * len(c)
                    elif isinstance(c, dict):
                        if c:
                            self.stats["elems_scribbled"] += 1
                        for kk in c:
                            c[kk] = val
                out = ("U", [], None)
        elif kind == "set" and len(f) == 4:
            a, c = self._arg(f[2], f[1]), self._bool(f[3])
            if a == "illegal" and c is not None:
                out = ("E:illegal", [], None)
            elif a is not None and c is not None:
                r = self._call(lambda: sm.set_current(f[1], a[0], copy=c), lambda v: ("U", [], None))
                out = (r[0], a[1], None)
        elif kind == "get" and len(f) == 2:
            out = self._call(lambda: sm.get_current(f[1]), lambda v: ("V:" + pv(v), [v] if isinstance(v, (np.ndarray, list, dict)) else [], None))
        elif tok == "getall":
            out = self._call(lambda: sm.get_current(),
                             lambda v: ("D:" + show_dict(v), [x for x in v.values() if isinstance(x, (np.ndarray, list, dict))], None))
        elif kind == "geth" and len(f) == 4:
            fl = self._bool(f[3])
            idx = None if f[2] == "*" else (int(f[2]) if _lean_int(f[2]) else "bad")
            if fl is not None and idx != "bad":
                out = self._call(lambda: sm.get_history(f[1], idx, fl),
                                 lambda v: ("V:" + pv(v), [v] if isinstance(v, (np.ndarray, list, dict)) else [], None))
        elif kind == "getl" and len(f) == 2:
            out = self._call(lambda: sm.get_last_history(f[1]),
                             lambda v: ("V:" + pv(v), [v] if isinstance(v, (np.ndarray, list, dict)) else [], None))
        elif kind == "commit" and len(f) == 2 and self._bool(f[1]) is not None:
            st = self._bool(f[1])
            out = self._call(lambda: sm.commit_current_to_history(strict=st), lambda v: ("U", [], None))
            if out[0] == "U":
                self.stats["commit"] += 1
        elif tok == "results":
            if not well_formed(read_history(sm)):
                out = ("skip", [], None)
            else:
                out = self._call(lambda: sm.compute_results(),
                                 lambda v: ("D:" + show_results(v), [x for x in v.values() if isinstance(x, (np.ndarray, list, dict))], None))
        elif tok == "todict":
            def fmt(v):
                roots = [x for x in v["_current"].values() if isinstance(x, (np.ndarray, list, dict))]
                for l in v["_history"].values():
                    roots += [x for x in l if isinstance(x, (np.ndarray, list, dict))]
                return ("X:" + show_dict(v["_current"]) + ";" + show_hist(v["_history"]), roots, v)
            out = self._call(lambda: sm.to_dict(), fmt)
        elif kind == "imp" and len(f) == 3 and f[1].isdigit() and all(ch in "ch" for ch in f[2]):
            i = int(f[1])
            if i < len(self.export) and self.export[i] is not None:
                ex = self.export[i]
                d = {}
                if "c" in f[2]:
                    d["_current"] = ex["_current"]
                if "h" in f[2]:
                    d["_history"] = ex["_history"]
                out = self._call(lambda: sm.update_from_dict(d), lambda v: ("U", [], None))
        plain, conts = [], []
        for r in out[1]:
            walk(r, plain, conts)
        self.held.append((plain, conts))
        self.roots.append(out[1])
        self.export.append(out[2])
        self.stats["containers_out"] += sum(1 for c in conts if len(elements(c)))
        return out[0]


def run_real(tokens):
    r = RealN()
    out = []
    for t in tokens:
        res = r.exec(t)
        out.append(digest(r.sm, res))
    return out, r


# ------------------------------------------------------------------ generator
class GenN:
    def __init__(self, rng):
        self.rng = rng
        self.tag = 0
        self.nb = rng.randint(1, 3)           # elements per blobs container
        self.na = rng.randint(1, 2)           # elements per assignments list / dict
        self.akind = rng.choice("OOD")        # list or dict for this sequence
        self.len = {"u": rng.randint(1, 3), "logl": rng.randint(1, 2), "x": rng.randint(1, 2)}
        self.toks, self.meta, self.pending = [], [], []
        self.commits = 0

    def emit(self, tok, meta):
        self.toks.append(tok)
        self.meta.append(meta)
        return len(self.toks) - 1

    def arr(self, n):
        self.tag += 1
        return "A" + ".".join(str(10 * self.tag + j) for j in range(n))

    def elem(self):
        r = self.rng.random()
        if r < 0.12:
            return "N"
        if r < 0.27:
            self.tag += 1
            return "S%d" % self.tag
        if r < 0.35:
            c = [i for i, m in enumerate(self.meta) if m[0] == "plain1"]
            if c:
                return "H%d" % self.rng.choice(c)
        return self.arr(self.rng.randint(0, 2) if self.rng.random() < 0.15 else self.rng.randint(1, 2))

    def value(self, k):
        r = self.rng.random()
        if k in ("blobs", "assignments"):
            if r < 0.08:
                return "N"
            if r < 0.2:
                c = [i for i, m in enumerate(self.meta) if m[0] == "cont1" and m[1] == k]
                if c:
                    return "H%d" % self.rng.choice(c)
            n = self.nb if k == "blobs" else self.na
            return ("O" if k == "blobs" else self.akind) + "~".join(self.elem() for _ in range(n))
        if k in self.len:
            if r < 0.08:
                return "N"
            if r < 0.16:
                c = [i for i, m in enumerate(self.meta) if m[0] == "plain1" and m[1] == k]
                if c:
                    return "H%d" % self.rng.choice(c)
            return self.arr(self.len[k])
        self.tag += 1
        return "N" if r < 0.08 else "S%d" % self.tag

    def key(self):
        r = self.rng.random()
        if r < 0.45:
            return "blobs"
        if r < 0.55:
            return "assignments"
        return self.rng.choice(["u", "logl", "beta", "logz", "x", "iter"])

    def scr_for(self, i):
        self.emit(f"scr:{i}:{self.rng.choice([SENTINEL, SENTINEL, -7, 0])}", ("scr",))

    def step(self):
        rng = self.rng
        r = rng.random()
        acc = None
        if r < 0.06:
            self.emit(rng.choice(["set:blobs:OH999:1", "set:blobs:OQ:1", "set:zz:OA1:1", "geth:blobs:7:0", "geth:blobs:-1:0", "get:zz",
                                  "geth:beta:*:1", "scr:999:-9", "imp:0:q", "set:blobs:O~:1", "commit:1",
                                  # an element reference to whatever the previous op returned (a container => illegal)
                                  "set:blobs:O" + "~".join([f"H{max(0, len(self.toks) - 1)}"] + ["N"] * (self.nb - 1)) + ":1"]),
                      ("other",))
        elif r < 0.30:
            k = self.key()
            v = self.value(k)
            kind = "cont1" if v[:1] in ("O", "D") else ("plain1" if v[:1] == "A" and k in self.len else "other")
            i = self.emit(f"set:{k}:{v}:{'0' if rng.random() < 0.12 else '1'}", (kind, k))
            if kind != "other" and rng.random() < 0.35:
                self.pending.append(i)
        elif r < 0.40:
            k = self.key()
            acc = self.emit(f"get:{k}", ("cont1" if k in ("blobs", "assignments") else "plain1", k))
        elif r < 0.46:
            acc = self.emit("getall", ("acc",))
        elif r < 0.58:
            k = rng.choice(["blobs", "blobs", "blobs", "u", "logl", "beta"])
            idx = rng.randint(0, max(0, self.commits - 1)) if rng.random() < 0.9 else self.commits
            acc = self.emit(f"geth:{k}:{idx}:{rng.choice('01')}", ("cont1" if k == "blobs" else "plain1", k))
        elif r < 0.66:
            k = rng.choice(["blobs", "blobs", "u", "logl"])
            acc = self.emit(f"geth:{k}:*:{'1' if rng.random() < 0.45 else '0'}", ("acc",))
        elif r < 0.70:
            k = rng.choice(["blobs", "blobs", "u"])
            acc = self.emit(f"getl:{k}", ("cont1" if k == "blobs" else "plain1", k))
        elif r < 0.82:
            self.emit("commit:0", ("commit",))
            self.commits += 1
        elif r < 0.86:
            acc = self.emit("results", ("acc",))
        elif r < 0.91:
            acc = self.emit("todict", ("export",))
        elif r < 0.93:
            ex = [i for i, m in enumerate(self.meta) if m[0] == "export"]
            if ex:
                i = rng.choice(ex)
                self.emit(f"imp:{i}:{rng.choice(['ch', 'ch', 'c', 'h'])}", ("imp",))
                if rng.random() < 0.7:
                    self.scr_for(i)
            else:
                acc = self.emit("todict", ("export",))
        else:
            if self.pending:
                self.scr_for(self.pending.pop(rng.randrange(len(self.pending))))
            else:
                c = [i for i, m in enumerate(self.meta) if m[0] in ("acc", "cont1", "plain1", "export")]
                if c:
                    self.scr_for(rng.choice(c))
        if acc is not None:
            if rng.random() < 0.55:
                self.scr_for(acc)
            else:
                self.pending.append(acc)


def gen_sequence(rng):
    g = GenN(rng)
    n = rng.randint(5, 45)
    if rng.random() < 0.6:
        for k in rng.sample(["beta", "logz", "logl"], 3):
            g.emit(f"set:{k}:{g.value(k) if k == 'logl' else 'S%d' % rng.randint(0, 3)}:1", ("other", k))
        g.emit(f"set:blobs:{g.value('blobs')}:1", ("cont1", "blobs"))
    while len(g.toks) < n:
        g.step()
    for i in g.pending[:6]:
        g.scr_for(i)
    g.emit("getall", ("acc",))
    return g.toks


FIXED = [
    "set:blobs:OA3.4:1;commit:0;geth:blobs:0:0;scr:2:-9;getall;geth:blobs:0:0",
    "set:blobs:OA3.4~S5~N:1;set:beta:S1:1;set:logz:S0:1;set:logl:A5.6:1;commit:0;commit:0;geth:blobs:*:0;scr:6:-9;geth:blobs:*:1;scr:8:-7;results;scr:10:-9;results;getall",
    "set:assignments:OA1.2~A3:1;get:assignments;scr:1:-9;get:assignments;scr:0:-7;get:assignments",
    "set:assignments:DA1.2~A3~S4:1;get:assignments;scr:1:-9;getall;scr:3:-7;todict;imp:5:c;scr:5:-9;get:assignments",
    "set:blobs:OA1~A2:1;set:beta:S0:1;set:logz:S0:1;set:logl:A7:1;commit:0;todict;imp:5:ch;scr:5:-9;getall;results;getl:blobs;scr:10:-9;commit:0;results",
    "set:blobs:OA1.2:0;scr:0:-9;get:blobs;commit:0;scr:0:-7;geth:blobs:0:0;get:blobs",
    "set:u:A1.2:1;get:u;set:blobs:OH1~A5:1;scr:1:-9;get:blobs;commit:0;scr:2:-7;geth:blobs:0:0",
    "set:blobs:OA1:1;get:blobs;set:blobs:OH1:1;set:blobs:H1:1;commit:0;scr:1:-9;geth:blobs:0:0",
]


def correspond_nested(tier):
    n = 700 if tier == "quick" else 9000
    rng = common.rng_for("C17.nested")
    c = Corr("statemanager-nested", "exact (nested reference model, no arithmetic)")
    seqs = [t.split(";") for t in FIXED] + [gen_sequence(rng) for _ in range(n)]
    lines = ["sm2.run deep=1 ops=" + ";".join(t) for t in seqs]
    from .c17 import model_async
    join = model_async(lines)
    # the rule before the fix, on the fixed sequences only: the suite must be able to tell the two rules apart
    old = common.Driver().batch(["sm2.run deep=0 ops=" + ";".join(t.split(";")) for t in FIXED])
    real = [run_real(toks) for toks in seqs]
    model = join()
    for j, (toks, line, ans, (impl, r)) in enumerate(zip(seqs, lines, model, real)):
        st = r.stats
        nontrivial = st["commit"] >= 1 and st["containers_out"] >= 1 and st["inner_scribbled"] >= 1
        c.case(toks, nontrivial)
        c.count("len", len(toks))
        for k in ("commit", "containers_out", "inner_scribbled", "elems_scribbled", "plain_scribbled"):
            c.count(k, st[k])
        for d in impl:
            res = d[2:d.index("#")]
            c.count("res:" + (res if res[:1] in "Ebs" or res == "U" else res[:1]))
            if ":O" in res:
                c.count("returned_container")
        m = ans.split("|")
        if m != impl:
            i = next((i for i, (a, b) in enumerate(zip(impl, m)) if a != b), min(len(impl), len(m)))
            c.disagree(input=line, nested_ops=toks, first_diff_at=i, op=toks[i] if i < len(toks) else None,
                       impl=impl[i] if i < len(impl) else None, model=m[i] if i < len(m) else None)
        if j < len(FIXED):
            if old[j].split("|") != impl:
                c.count("old_shallow_rule_distinguished")
        c.sample({"ops": ";".join(toks), "last_digest": impl[-1] if impl else None})
    if c.stats.get("old_shallow_rule_distinguished", 0) == 0:
        c.disagree(input="FIXED under deep=0", impl="the real code behaves like the shallow-copy model on every fixed sequence",
                   model="deep copies (deep=1) differ from shallow ones on these sequences")
    return c


# ------------------------------------------------------------------ property oracle (real code)
def oracle(tokens):
    """on the real StateManager: overwriting anything obtained (arrays inside returned containers, plain arrays, container
    elements) changes no read unless it was stored with copy=False (then: no history / results read); history is append-only"""
    r = RealN()
    shared = []       # objects stored with copy=False
    for j, t in enumerate(tokens):
        f = t.split(":")
        before = reads(r.sm)
        tgt = []
        if f[0] == "scr" and len(f) == 3 and f[1].isdigit() and int(f[1]) < len(r.held):
            tgt = r.held[int(f[1])][0] + r.held[int(f[1])][1]
        touches_shared = any(a is b for a in tgt for b in shared)
        res = r.exec(t)
        after = reads(r.sm)
        if f[0] == "set" and res == "U" and t.endswith(":0"):
            shared += r.held[-1][0] + r.held[-1][1]
            if len(f) == 4 and f[2][:1] == "H" and f[2][1:].isdigit() and int(f[2][1:]) < len(r.held) - 1:
                shared += r.held[int(f[2][1:])][0] + r.held[int(f[2][1:])][1]
        if f[0] == "scr":
            if touches_shared:
                if before[1] != after[1] or before[2] != after[2]:
                    return f"op {j} `{t}`: overwriting an object stored with copy=False changed committed history / results"
                continue
            if before != after:
                k = next((k for k in before[0] if before[0][k] != after[0].get(k)), None)
                hk = next((k for k in before[1] if before[1][k] != after[1].get(k)), None)
                what = f"get_current('{k}')" if k else (f"get_history('{hk}')" if hk else "compute_results()")
                return f"op {j} `{t}`: overwriting what an accessor returned (incl. arrays inside containers) changed {what}"
            continue
        if f[0] == "imp":
            continue
        for k in HIST_KEYS:
            old, new = before[1][k], after[1][k]
            if new[:len(old)] != old:
                return f"op {j} `{t}`: history['{k}'] is not an extension of what it was"
            grow = len(new) - len(old)
            if f[0] == "commit" and res == "U":
                want = 1 if before[0].get(k, "N") != "N" else 0
                if grow != want:
                    return f"op {j} `{t}`: commit appended {grow} entries to history['{k}']"
                if want and new[-1] != before[0][k]:
                    return f"op {j} `{t}`: committed batch of '{k}' differs from the current value"
            elif grow:
                return f"op {j} `{t}`: history['{k}'] grew by {grow} without a commit"
        if f[0] not in ("set", "commit") and before != after:
            return f"op {j} `{t}`: a read-only accessor changed an observable read"
    return None


def _refs(tok):
    import re
    f = tok.split(":")
    if f[0] in ("scr", "imp") and len(f) == 3 and f[1].isdigit():
        return [int(f[1])]
    if f[0] == "set" and len(f) == 4:
        return [int(m) for m in re.findall(r"H(\d+)", f[2])]
    return []


def _subst(tok, pos):
    import re
    f = tok.split(":")
    m = lambda i: pos.get(i, i)  # noqa
    if f[0] in ("scr", "imp") and len(f) == 3 and f[1].isdigit():
        f[1] = str(m(int(f[1])))
    elif f[0] == "set" and len(f) == 4:
        f[2] = re.sub(r"H(\d+)", lambda mo: "H%d" % m(int(mo.group(1))), f[2])
    return ":".join(f)


def _renumber_generic(tokens, keep):
    keep = set(keep)
    n = len(tokens)
    changed = True
    while changed:
        changed = False
        for i in sorted(keep):
            if any(r < n and r not in keep for r in _refs(tokens[i])):
                keep.discard(i)
                changed = True
    order = sorted(keep)
    pos = {old: new for new, old in enumerate(order)}
    return [_subst(tokens[i], pos) for i in order]


def shrink(tokens):
    cur = list(tokens)
    if oracle(cur) is None:
        return cur
    n = 2
    while len(cur) >= 2:
        chunk = max(1, len(cur) // n)
        reduced = False
        for start in range(0, len(cur), chunk):
            keep = [i for i in range(len(cur)) if not (start <= i < start + chunk)]
            cand = _renumber_generic(cur, keep)
            try:
                bad = cand and oracle(cand) is not None
            except Exception:  # noqa
                bad = False
            if bad:
                cur, n, reduced = cand, max(n - 1, 2), True
                break
        if not reduced:
            if chunk == 1:
                break
            n = min(n * 2, len(cur))
    return cur


def search_nested(tier, hints):
    found, seen = [], set()
    cands = [list(h["nested_ops"]) for h in hints if h.get("nested_ops")] + [t.split(";") for t in FIXED]
    rng = common.rng_for("C17.nested.search")
    cands += [gen_sequence(rng) for _ in range(600 if tier == "quick" else 8000)]
    for toks in cands:
        try:
            msg = oracle(toks)
        except Exception:  # noqa
            msg = None
        if msg:
            small = shrink(toks)
            key = ";".join(small)
            if key in seen:
                continue
            seen.add(key)
            found.append({"what": oracle(small), "nested_ops": small, "ops_line": key, "original_length": len(toks)})
            if len(found) >= 3:
                break
    return found


# ------------------------------------------------------------------ suite: real Sampler with blobs of every kind
def _tuple_like(x):
    return (-0.5 * float(np.sum(x ** 2)), np.array([x[0]]), "tag")


def _dict_like(x):
    return (-0.5 * float(np.sum(x ** 2)), {"a": np.array([x[0], x[1]]), "n": 3})


def _ragged_like(x):
    return (-0.5 * float(np.sum(x ** 2)), np.arange(1 + int(abs(x[0]) * 7) % 3, dtype=float) + x[1])


def _struct_like(x):
    return (-0.5 * float(np.sum(x ** 2)), float(x[0]), x * 2.0)


def _scalar_like(x):
    return (-0.5 * float(np.sum(x ** 2)), float(2.0 * x[0] + 1.0))


def _subarray_like(x):
    return (-0.5 * float(np.sum(x ** 2)), x ** 2)


def _record_like(x):
    return (-0.5 * float(np.sum(x ** 2)), np.array([x[0], x[1], 1.0]), float(np.sum(x)))


def _nested_record_like(x):
    return (-0.5 * float(np.sum(x ** 2)), (np.array([x[0], 1.0]), 2.0), float(np.sum(x)))


def _subarray_objects_like(x):
    return (-0.5 * float(np.sum(x ** 2)), [np.array([x[0]]), np.array([x[1], 2.0])], float(np.sum(x)))


BLOB_KINDS = {
    "none": (None, {}),
    "scalar-auto": (_scalar_like, {}),
    "subarray(float,2)": (_subarray_like, {"blobs_dtype": (float, 2)}),
    "structured+subarray": (_struct_like, {"blobs_dtype": [("a", float), ("b", float, (2,))]}),
    "tuple(array,str)-object": (_tuple_like, {}),
    "dict-object": (_dict_like, {}),
    "ragged-object": (_ragged_like, {"blobs_dtype": "object"}),
    # record dtypes that CONTAIN references (dtype.kind == 'V', dtype.hasobject): an object field, the same inside a nested
    # record, a sub-array of objects
    "record+object-field": (_record_like, {"blobs_dtype": [("vec", object), ("s", float)]}),
    "nested-record+object-field": (_nested_record_like, {"blobs_dtype": [("in", [("vec", object), ("t", float)]), ("s", float)]}),
}

# F41 (fixed): numpy's copy.deepcopy does not descend into a SUB-ARRAY of objects inside a record dtype ([("vs", object, (2,))]);
# `_deepcopy_array` walks the fields instead.  The kind is part of the every-run suites since the repair.
BLOB_KINDS["record+subarray-of-objects"] = (_subarray_objects_like, {"blobs_dtype": [("vs", object, (2,)), ("s", float)]})
OPEN_BLOB_KINDS = {}
OPEN_RECORD_DTYPES = []

RECORD_DTYPES = [[("vs", object, (2,)), ("s", float)]]

RECORD_DTYPES = [
    [("vec", object), ("s", float)],
    [("vs", object, (2,)), ("s", float)],
    [("r", [("o", object), ("t", float)], (2,)), ("s", float)],
    [("in", [("vec", object), ("t", float)]), ("s", float)],
    [("a", float), ("b", float, (2,))],
    object,
]


def _record_value(dt, n, tag):
    """an array of n entries of dtype dt whose every reference field holds a fresh float array"""
    a = np.empty(n, dtype=dt)

    def fill(view, base):
        if view.dtype.names:
            for j, name in enumerate(view.dtype.names):
                fill(view[name], base + 10 * (j + 1))
        elif view.dtype.hasobject:
            for i, idx in enumerate(np.ndindex(view.shape)):
                view[idx] = np.array([base + i, base + i + 0.5])
        else:
            view[...] = base
    fill(a, float(tag))
    return a


def record_oracle(dtypes=None):
    """StateManager-level, model-free: arrays whose dtype HOLDS references in any form (plain object, record with an object field,
    nested record, sub-array of objects) through every accessor / mutator: nothing handed out shares memory with internal state,
    and overwriting everything handed out (down to the arrays inside reference fields) changes no read.  Returns a description
    of the first violation or None."""
    from tempest.state_manager import StateManager
    for dt in (RECORD_DTYPES if dtypes is None else dtypes):
        with warnings.catch_warnings():
            warnings.simplefilter("ignore")
            sm = StateManager(2)
            for t in range(2):
                sm.set_current("blobs", _record_value(dt, 3, 100 * (t + 1)))
                sm.update_current({"u": np.full((3, 2), float(t)), "logl": np.zeros(3) - t, "beta": 0.5 * t, "logz": 0.0})
                sm.commit_current_to_history()
            other = StateManager.from_dict(sm.to_dict())
            snap = canon([sm._current, sm._history])
            snap_o = canon([other._current, other._history])
            exported = sm.to_dict()
            sm.update_from_dict(exported)
            steps = [("get_current('blobs')", lambda: sm.get_current("blobs")), ("get_current()", lambda: sm.get_current()),
                     ("get_history('blobs', 0)", lambda: sm.get_history("blobs", 0)), ("get_history('blobs')", lambda: sm.get_history("blobs")),
                     ("get_history('blobs', flat=True)", lambda: sm.get_history("blobs", flat=True)),
                     ("get_last_history('blobs')", lambda: sm.get_last_history("blobs")), ("compute_results()", lambda: sm.compute_results()),
                     ("compute_results() [cached]", lambda: sm.compute_results()), ("to_dict()", lambda: sm.to_dict()),
                     ("the dictionary passed to update_from_dict", lambda: exported)]
            for name, f in steps:
                out = f()
                sh = shared_with_internal(out, sm)
                if sh and name != "the dictionary passed to update_from_dict":
                    return (f"dtype {np.dtype(dt)}: sm.set_current('blobs', <3 records whose reference fields hold float arrays>); "
                            f"sm.update_current(u, logl, beta, logz); sm.commit_current_to_history() (twice) -> {name} shares {sh} "
                            f"array(s) with internal state (np.shares_memory)")
                scribble_deep(out)
                if canon([sm._current, sm._history]) != snap:
                    return (f"dtype {np.dtype(dt)}: overwriting every array reachable from {name} changed _current / _history "
                            f"(sm.set_current('blobs', <3 records>); commit x2; then scribble)")
                if canon([other._current, other._history]) != snap_o:
                    return f"dtype {np.dtype(dt)}: overwriting {name} of one manager changed a manager built with from_dict"
    return None


def canon(o):
    """deep, bitwise canonical form of a value (for comparisons that do not depend on object identity)"""
    if o is None:
        return ("N",)
    if isinstance(o, np.ndarray):
        if o.dtype.hasobject:
            if o.dtype.names:
                return ("R", str(o.dtype), o.shape, tuple(canon(o[n]) for n in o.dtype.names))
            return ("O", o.shape, tuple(canon(e) for e in o.ravel()))
        return ("A", o.dtype.str if not o.dtype.names else str(o.dtype), o.shape, o.tobytes())
    if isinstance(o, dict):
        return ("D", tuple((k, canon(v)) for k, v in o.items()))
    if isinstance(o, (list, tuple)):
        return ("L" if isinstance(o, list) else "T", tuple(canon(e) for e in o))
    if isinstance(o, float):
        return ("F", o.hex() if o == o else "nan")
    return ("S", type(o).__name__, repr(o))


def all_arrays(o, out=None, seen=None):
    out = [] if out is None else out
    seen = set() if seen is None else seen
    if id(o) in seen:
        return out
    seen.add(id(o))
    if isinstance(o, np.ndarray):
        if o.dtype.hasobject and o.dtype.names:
            # a record dtype with an object field (possibly nested / a sub-array of objects): field by field (views)
            for name in o.dtype.names:
                all_arrays(o[name], out, seen)
        elif o.dtype.hasobject:
            for e in o.ravel():
                all_arrays(e, out, seen)
        else:
            out.append(o)
    elif isinstance(o, np.void):
        if o.dtype.names:
            for name in o.dtype.names:
                all_arrays(o[name], out, seen)
    elif isinstance(o, dict):
        for v in o.values():
            all_arrays(v, out, seen)
    elif isinstance(o, (list, tuple)):
        for v in o:
            all_arrays(v, out, seen)
    return out


def scribble_deep(o):
    n = 0
    for a in all_arrays(o):
        if a.size and a.flags.writeable:
            if a.dtype.names:
                for name in a.dtype.names:
                    if a.dtype[name].kind in "fiu":
                        a[name][...] = SENTINEL
            elif a.dtype.kind in "fiu":
                a[...] = SENTINEL
            else:
                continue
            n += 1
    return n


def internal(sm):
    return canon({"c": dict(sorted(sm._current.items())), "h": dict(sorted(sm._history.items()))})


def shared_with_internal(ret, sm):
    a = all_arrays(ret)
    b = all_arrays([sm._current, sm._history, sm._results_dict if sm._results_dict is not None else {}])
    return sum(1 for x in a for y in b if x.size and y.size and np.shares_memory(x, y))


def public_reads(s):
    sm = s.state
    out = {"current": canon(sm.get_current()), "hist": canon({k: [sm.get_history(k, i) for i in range(len(sm._history[k]))] for k in HIST_KEYS}),
           "results": canon(s.results())}
    for k in ("u", "x", "logl", "blobs"):
        if sm._history[k]:
            out["all:" + k] = canon(sm.get_history(k))
            out["flat:" + k] = canon(sm.get_history(k, flat=True))
            out["last:" + k] = canon(sm.get_last_history(k))
    return out


def blob_run(kind, seed, n_iter, sampler_kind, c=None, resume=True, full=False):
    """one Sampler run with blobs of the given kind; returns a list of problems (strings)"""
    from .witnesses import _mk_sampler
    like, kw = {**BLOB_KINDS, **OPEN_BLOB_KINDS}[kind]
    problems = []
    with contextlib.redirect_stdout(io.StringIO()), warnings.catch_warnings():
        warnings.simplefilter("ignore")
        np.random.seed(seed)
        extra = {} if like is None else {"log_likelihood": like}
        s = _mk_sampler(clustering=False, n_particles=16, sample=sampler_kind, **extra, **kw)
        sm = s.state
        s._core._initialize_fresh()
        for it in range(n_iter):
            before_h = {k: [canon(x) for x in sm._history[k]] for k in HIST_KEYS}
            st = s.sample()
            after_h = {k: [canon(x) for x in sm._history[k]] for k in HIST_KEYS}
            for k in HIST_KEYS:
                want = 1 if sm._current.get(k) is not None else 0
                if len(after_h[k]) != len(before_h[k]) + want:
                    problems.append(f"iteration {it}: history[{k}] grew by {len(after_h[k]) - len(before_h[k])}, want {want}")
                if after_h[k][:len(before_h[k])] != before_h[k]:
                    problems.append(f"iteration {it}: an earlier batch of history[{k}] changed during sample()")
                if want and after_h[k][-1] != canon(sm._current[k]):
                    problems.append(f"iteration {it}: the committed batch of {k} is not the current value")
            snap = internal(sm)
            pub = public_reads(s)
            outs = [("sample()", st), ("results()", s.results()), ("state.to_dict()", sm.to_dict())]
            for k in ("u", "blobs"):
                if sm._history[k]:
                    outs += [(f"get_history('{k}')", sm.get_history(k)), (f"get_history('{k}', flat=True)", sm.get_history(k, flat=True)),
                             (f"get_history('{k}', 0)", sm.get_history(k, 0)), (f"get_last_history('{k}')", sm.get_last_history(k))]
            outs.append(("get_current('blobs')", sm.get_current("blobs")))
            for rb, tr, rs, rl in (itertools.product((False, True), repeat=4) if it in (0, n_iter - 1) or full else ()):
                kwp = dict(return_blobs=rb, trim_importance_weights=tr, resample=rs, return_logw=rl)
                rs_state = np.random.get_state()
                out = s.posterior(**kwp)
                want_len = 3 + (1 if rb and kind != "none" else 0) + (1 if rl else 0)
                if len(out) != want_len:
                    problems.append(f"iteration {it}: posterior({kwp}) returned {len(out)} values, want {want_len}")
                first = canon(list(out))
                sh = shared_with_internal(list(out), sm)
                if sh:
                    problems.append(f"iteration {it}: posterior({kwp}) output shares {sh} array(s) with internal state")
                n = scribble_deep(list(out))
                if c is not None:
                    c.count("scribbled:posterior", n)
                    c.count("posterior_calls")
                np.random.set_state(rs_state)
                again = canon(list(s.posterior(**kwp)))
                if again != first:
                    problems.append(f"iteration {it}: posterior({kwp}) differs after the caller overwrote the previous identical call's output")
            for name, o in outs:
                sh = shared_with_internal(o, sm)
                if sh:
                    problems.append(f"iteration {it}: {name} output shares {sh} array(s) with internal state")
                n = scribble_deep(o)
                if c is not None:
                    c.count("scribbled:" + name.split("(")[0], n)
                if internal(sm) != snap:
                    problems.append(f"iteration {it}: overwriting the arrays inside the {name} output changed internal state")
                    snap = internal(sm)
            pub2 = public_reads(s)
            for k in pub:
                if pub2.get(k) != pub[k]:
                    problems.append(f"iteration {it}: public read {k} differs after the caller overwrote everything it was given")
            if c is not None:
                c.count("iterations")
        if c is not None:
            b = sm._current.get("blobs")
            c.count("blobs:" + ("None" if b is None else f"{b.dtype.kind}{'-nested' if b.dtype.hasobject else ''}"))
        # resume: checkpoint -> a NEW sampler -> load_state; the restored history is the committed one, the two managers
        # share nothing, the caller's writes to what the old sampler handed out do not reach the new one, and further
        # iterations only append
        if resume:
            import os
            import tempfile
            d = tempfile.mkdtemp(prefix="c17_resume_")
            try:
                path = os.path.join(d, "ck.state")
                s.save_state(path)
                exported = sm.to_dict()
                s2 = _mk_sampler(clustering=False, n_particles=16, sample=sampler_kind, **extra, **kw)
                s2.load_state(path)
                sm2 = s2.state
                want = {k: [canon(x) for x in sm._history[k]] for k in HIST_KEYS}
                got = {k: [canon(x) for x in sm2._history[k]] for k in HIST_KEYS}
                if got != want:
                    problems.append("resume: the restored history differs from the committed one")
                if shared_with_internal([sm._current, sm._history], sm2):
                    problems.append("resume: the resumed manager shares arrays with the old one")
                sm2.update_from_dict(exported)
                n = scribble_deep(exported) + scribble_deep(s.results()) + scribble_deep(sm.get_current())
                if c is not None:
                    c.count("scribbled:resume", n)
                if {k: [canon(x) for x in sm2._history[k]] for k in HIST_KEYS} != want:
                    problems.append("resume: overwriting the imported dictionary / the old sampler's outputs changed the resumed history")
                for it in range(2):
                    st = s2.sample()
                    scribble_deep(st)
                    now = {k: [canon(x) for x in sm2._history[k]] for k in HIST_KEYS}
                    for k in HIST_KEYS:
                        if now[k][:len(want[k])] != want[k]:
                            problems.append(f"resume: iteration {it} of the resumed run altered restored batches of history[{k}]")
                        grow = 1 if sm2._current.get(k) is not None else 0
                        if len(now[k]) != len(want[k]) + grow:
                            problems.append(f"resume: iteration {it} of the resumed run grew history[{k}] by {len(now[k]) - len(want[k])}")
                    want = now
                if c is not None:
                    c.count("resumed_runs")
            finally:
                import shutil
                shutil.rmtree(d, ignore_errors=True)
        # get_last_history(default=...) hands the caller's own object back (and nothing internal)
        own = np.array([1.0, 2.0])
        from tempest.state_manager import StateManager
        empty = StateManager(2)
        if empty.get_last_history("u", default=own) is not own or empty.get_last_history("u") is not None:
            problems.append("get_last_history(default=) on an empty history does not return the caller's default")
    return problems


def correspond_blobs(tier):
    rng = common.rng_for("C17.blobs")
    c = Corr("sampler-blobs", "exact oracle on the real code (bitwise deep comparison; no model)")
    reps = 1 if tier == "quick" else 4
    # StateManager level: every dtype that holds references, through every accessor / mutator
    for dt in RECORD_DTYPES:
        msg = record_oracle([dt])
        c.case(("record-dtype", str(np.dtype(dt))), True)
        c.count("record_dtype:" + ("V+O" if np.dtype(dt).names and np.dtype(dt).hasobject else np.dtype(dt).kind))
        if msg:
            c.disagree(input=f"StateManager with blobs of dtype {np.dtype(dt)}", impl=msg, model="no sharing", record_dtype=str(np.dtype(dt)))
    for kind in BLOB_KINDS:
        for sk in ("tpcn", "rwm"):
            for _ in range(reps):
                seed = rng.randint(0, 2 ** 31 - 1)
                n_iter = rng.randint(3, 4)
                if tier == "quick" and sk == "rwm" and kind not in ("tuple(array,str)-object", "record+object-field", "structured+subarray"):
                    continue
                try:
                    problems = blob_run(kind, seed, n_iter, sk, c, full=(tier != "quick"))
                except Exception as e:  # noqa
                    try:
                        plain = _plain_run(kind, seed, n_iter, sk)
                    except Exception as e2:  # noqa
                        c.count(f"run_raised_without_scribbling:{kind}:{type(e2).__name__}")
                        continue
                    problems = [f"the run raised {type(e).__name__}: {e} only when the caller overwrites returned arrays"] if plain else []
                c.case((kind, sk, seed, n_iter), n_iter >= 2)
                c.count("kind:" + kind)
                for p in problems[:3]:
                    c.disagree(input=f"blob kind={kind} sampler={sk} seed={seed} n_iter={n_iter}", impl=p,
                               model="no sharing, one batch per iteration", blob_case=[kind, sk, seed, n_iter])
                c.sample({"kind": kind, "sampler": sk, "seed": seed, "n_iter": n_iter})
    return c


def _plain_run(kind, seed, n_iter, sk):
    from .witnesses import _mk_sampler
    like, kw = BLOB_KINDS[kind]
    with contextlib.redirect_stdout(io.StringIO()), warnings.catch_warnings():
        warnings.simplefilter("ignore")
        np.random.seed(seed)
        extra = {} if like is None else {"log_likelihood": like}
        s = _mk_sampler(clustering=False, n_particles=16, sample=sk, **extra, **kw)
        s._core._initialize_fresh()
        for _ in range(n_iter):
            s.sample()
    return True


def search_blobs(hints):
    msg = record_oracle()
    if msg:
        return [{"what": msg, "record_oracle": True}]
    for h in hints:
        if h.get("blob_case"):
            kind, sk, seed, n_iter = h["blob_case"]
            problems = blob_run(kind, seed, n_iter, sk)
            if problems:
                return [{"what": problems[0], "blob_case": [kind, sk, seed, n_iter]}]
    # otherwise one run per kind
    out = []
    for kind in BLOB_KINDS:
        try:
            problems = blob_run(kind, 12345, 3, "tpcn")
        except Exception:  # noqa
            continue
        if problems:
            out.append({"what": problems[0], "blob_case": [kind, "tpcn", 12345, 3]})
            break
    return out
