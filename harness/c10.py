"""C10 — rescaling the likelihood shifts log-evidence only."""
import contextlib
import io
import time
import warnings

import numpy as np

from . import common, pipeline, c10cl
from .common import Corr, hex2f
from .c01 import make_target

ID = "C10"
LEAN_MODULES = ["TempestVerif.Props.C10", "TempestVerif.Props.C10Closed", "TempestVerif.Props.C10Round", "TempestVerif.Props.C10Source"]
RULE = ("(a) paired-shift-runs = THE PROPERTY ORACLE on paired real runs under one seed with logL and logL + c (c in {+-1, +-37.5, +-1000}) over "
        "kernel x resampler x clustering x metric mode (+ blobs, a zero-likelihood half-plane, a 2.25 % support, a two-mode target): only the "
        "statement's observables, read through the public API — completion, number of iterations, beta_t, committed particles (u, blobs), the "
        "ESS sequence, the normalised weights (per iteration and posterior() at beta = 1, linear and log), stored l + c, logz_t + beta_t c, final "
        "+ c — within 1e-8 relative; a difference is a failing input only if it has no rounding excuse in the internal record (near-tie of a "
        "decision, volume metric on an ill-conditioned cloud) AND persists at c/2 or 2c. search / replay use this oracle only. "
        "(a') paired-shift-internals (correspondence only): what the closed-loop theorems predict call by call — random stream consumption, trial "
        "temperatures and ESS, arguments of volume_variation / trim_weights / Trainer.run / Resampler.run, trainer output, proposals, Hastings "
        "factors, alphas, masks, counters, guard values, 16 posterior() combinations — rounding-aware (ill-conditioned clouds and exact ties "
        "are counted as near-ties), persistent at c/2 or 2c. (b) closed-loop-replay: every recorded run (shifted and unshifted) is replayed by "
        "the closed-loop Lean model at Float, which must reproduce the whole run from the recorded answers of the random / opaque calls: "
        "schedule (both metric modes), trimming, indices, masks, NUMBER of accept/reject steps, acceptance, efficiency, calls, batches, NUMBER "
        "of iterations, final evidence. (c) shifted-trace-replay: the tape-driven pipeline model replays runs with a shifted likelihood. "
        "(d) checkpoint-shift: paired runs with save_every (observable keys = property, other keys = correspondence). (e) rounding-bounds: the "
        "bound of C10_round_exponent on the doubles of every recorded accept/reject step. An instrumentation failure aborts the suites that need "
        "the internal record (a', b, e) and nothing else. Non-trivial = every pair (c != 0) / every replayed run with an annealing iteration.")
MODELLED = ["rounding-induced branch flips are allowed by the statement ('up to floating-point rounding'); a flip is recognised by re-running with c/2 and 2c; "
            "Props/C10Round.lean bounds how far rounding can move an acceptance exponent and an ESS (standard model of binary64, assumption H_round)",
            "closed-loop model: the trainer (clustering / Student-t fit), the proposal generator, volume_variation, the prior draw and the random "
            "stream are arbitrary functions of what the Python passes to them (World); that the real functions read nothing else (in particular "
            "no log-likelihood) is checked by the paired runs (identical outputs) and, for the trainer, by G5 (trainerReads = beta, iter, u)",
            "Metropolis uniforms are non-negative (np.random.rand), so a proposal with alpha = 0 is never accepted",
            "+inf / NaN log-likelihoods are outside the statement (never generated); -inf is `none` in the model"]
ASSUMPTIONS = ["user likelihood and prior transform are pure",
               "H_round (only the C10_round_* theorems): binary64 +,-,* and exp are the exact operation followed by a rounding with relative error <= u "
               "(+ eta absolute) below the overflow threshold"]


def translators():
    from translate import g4_kernel, g5_tables, g9_shift
    return [g4_kernel.generate(), g5_tables.generate(), g9_shift.generate()]


def _quiet():
    return contextlib.redirect_stdout(io.StringIO())


# --------------------------------------------------------------------------------------------------------------- configurations

def _mk(kernel, resample, clustering, vv, **kw):
    d = dict(kernel=kernel, resample=resample, clustering=clustering, vv=vv)
    d.update(kw)
    return d


CONFIGS = [_mk(k, r, cl, vv) for k in ("tpcn", "rwm") for r in ("mult", "syst") for cl in (False, True) for vv in (None, 0.5)]
# tight volume-variation targets exercise the 'target too ambitious: stay' and the bisection branches of the reweighter
TIGHT = [_mk("tpcn", "mult", False, 0.05), _mk("rwm", "syst", False, 0.06), _mk("tpcn", "syst", True, 0.1),
         _mk("rwm", "syst", False, 0.03, max_iter=160)]      # the last one needs ~100 iterations: thorough tier only
# configurations outside the tape-driven pipeline model: blobs, a zero-likelihood region (warm-up replacement, -inf proposals),
# a two-mode target with clustering on (several modes: per-mode sigmas, mode_index), all in both metric modes
EXTRA = [_mk("tpcn", "syst", False, None, hole=True), _mk("rwm", "mult", True, None, hole=True, blobs=True),
         _mk("tpcn", "mult", True, None, bimodal=True, n=32, n_total=96), _mk("rwm", "syst", True, 0.5, bimodal=True, n=32, n_total=96),
         _mk("tpcn", "syst", False, 0.2, blobs=True, hole=True), _mk("rwm", "mult", False, 0.1, hole=True),
         # support fraction 2.25 %: whole warm-up batches without a finite draw (the redraw loop of Mutator.run, n_drawn > n)
         _mk("tpcn", "syst", False, None, tiny=True), _mk("rwm", "mult", True, 0.5, tiny=True, blobs=True)]
SHIFTS = [1.0, -1.0, 37.5, -37.5, 1000.0, -1000.0]

_TRACES = {}


def _trace(cfg, c, seed, posterior=True):
    key = (common.digest(cfg), float(c), int(seed), bool(posterior))
    if key not in _TRACES:
        if len(_TRACES) > 400:
            _TRACES.clear()
        # half of the configurations ask for more effective samples than the pool holds when beta reaches 1, so that the
        # `ess < n_total` clause of _not_termination decides how many further iterations are run
        _TRACES[key] = c10cl.record_run(cfg, c, seed, n=cfg.get("n", 16),
                                        n_total=cfg.get("n_total", 96 if cfg["resample"] == "syst" else 48), posterior=posterior,
                                        max_iter=cfg.get("max_iter", 60))
    return _TRACES[key]


EXCUSED = []      # (config, c, seed, what, excuse): property-oracle differences attributed to rounding (reported as near-ties)


def shift_problem(cfg, c, seed):
    """the PROPERTY oracle on one pair: (message, iteration) or None; a difference with a rounding excuse in the internal record
    (near-tie of a decision, volume metric on an ill-conditioned cloud) is not a problem — 'up to floating-point rounding'"""
    a, b = _trace(cfg, 0.0, seed), _trace(cfg, c, seed)
    p = c10cl.property_problem(a, b, c)
    if p is None:
        return None
    ex = c10cl.rounding_excuse(a, b, p[1], p[2])
    if ex is not None:
        EXCUSED.append({"config": cfg, "c": c, "seed": seed, "what": p[0], "excuse": ex})
        return None
    return p


def shift_violation(cfg, c, seed):
    """a concrete failing input of the property: the observable difference persists at c/2 or 2c (a rounding-induced decision flip
    does not: it depends on the last bits of c, not on c)"""
    p = shift_problem(cfg, c, seed)
    if p is None:
        return None
    others = [shift_problem(cfg, c / 2, seed), shift_problem(cfg, 2 * c, seed)]
    if sum(o is not None for o in others) >= 1:
        return {"what": p[0], "config": cfg, "c": c, "seed": seed}
    return None


def internal_disagreements(cfg, c, seed):
    """correspondence only: hard internal differences of the pair that persist (same kind) at c/2 or 2c; soft ones are returned
    separately (counted as near-ties)"""
    a = _trace(cfg, 0.0, seed)
    b = _trace(cfg, c, seed)
    probs = c10cl.internal_problems(a, b, c)
    pp = c10cl.property_problem(a, b, c)
    if pp is not None and c10cl.rounding_excuse(a, b, pp[1], pp[2]) is not None:
        # the two runs parted at a rounding-decided point: everything downstream differs as a consequence
        return [], [(k, m) for k, m, _ in probs]
    hard = [(k, m) for k, m, soft in probs if not soft]
    soft = [(k, m) for k, m, soft in probs if soft]
    if not hard:
        return [], soft
    if hard[0][0] == "instrumentation":
        return hard[:1], soft
    kinds = set()
    for cc in (c / 2, 2 * c):
        kinds |= {k for k, _, sf in c10cl.internal_problems(a, _trace(cfg, cc, seed), cc) if not sf}
    keep = [(k, m) for k, m in hard if k in kinds]
    return keep, soft + [(k, m) for k, m in hard if k not in kinds]


def _tags(c, cfg, t):
    c.count(f"{cfg['kernel']}/{cfg['resample']}/cl={int(cfg['clustering'])}/vv={cfg['vv']}")
    for k in ("hole", "blobs", "bimodal", "tiny"):
        if cfg.get(k):
            c.count(k)
    if t.error:
        c.count("run aborted (both runs of the pair the same way)")
        return
    c.count("iterations", len(t.iters))
    c.count("annealing iterations", len(t.trim))
    c.count("warm-up draws replaced (-inf)", sum(len(x) for x in t.choices))
    c.count("warm-up batches discarded (no finite draw: redraw loop)", len(t.draws) - sum(1 for i in t.iters if i["beta"] == 0.0))
    c.count("accept/reject steps", len(t.props))
    c.count("proposals with zero likelihood", sum(1 for st_ in t.props for (k, _, b) in st_ if b and t.like[k] == -np.inf))
    c.count("proposals outside the cube", sum(1 for st_ in t.props for (_, _, b) in st_ if not b))
    c.count("iterations with more steps than the minimum", sum(1 for i in t.iters if i["beta"] != 0.0 and i["steps"] > 2))
    c.count("annealing iterations with several modes", sum(1 for r in t.trains if r["K"] > 1))
    c.count("trimming dropped records", sum(1 for (w, i, _) in t.trim if len(i) < len(w)))
    c.count("volume_variation calls", len(t.vvtab))
    c.count("trial temperatures evaluated", sum(len(m) for m in t.metric_calls))
    if t.iters and abs(t.iters[-1]["beta"] - 1.0) < 1e-4:
        c.count("runs ending at beta = 1")
    c.count("iterations run at beta = 1 only because ESS < n_total", max(0, sum(1 for i in t.iters if 1.0 - i["beta"] < 1e-4) - 1))


def correspond(tier):
    rng = common.rng_for("C10")
    drv = common.Driver()
    c = Corr("paired-shift-runs", "toleranced (1e-8 relative; decision flips re-tested at c/2 and 2c); every internal call compared")
    cl = Corr("closed-loop-replay", "toleranced Float (decisions exact, near-ties counted)")
    if tier == "thorough":
        cfgs = CONFIGS + TIGHT + EXTRA
    else:
        cfgs = [CONFIGS[i] for i in (0, 3, 6, 9, 12)] + TIGHT[:2] + EXTRA
    ci = Corr("paired-shift-internals", "toleranced, rounding-aware (correspondence only: never a failing input by itself)")
    replay = []
    n_exc = len(EXCUSED)
    for i, cfg in enumerate(cfgs):
        seed = rng.randrange(2 ** 31)      # one unshifted run per configuration, shared by its shifts
        for cc in (SHIFTS if tier == "thorough" else [SHIFTS[i % 6], SHIFTS[(i + 3) % 6]][: (2 if i % 3 == 0 else 1)]):
            c.case((cfg, cc, seed), True)
            ci.case((cfg, cc, seed), True)
            a, b = _trace(cfg, 0.0, seed), _trace(cfg, cc, seed)
            _tags(c, cfg, b)
            c.count(f"c={cc}")
            v = shift_violation(cfg, cc, seed)
            if v:
                c.disagree(kind="property", input={"config": cfg, "c": cc, "seed": seed}, impl=v["what"],
                           model="C10_cl_run: the run on l + c is the shift of the run on l")
            elif c10cl.property_problem(a, b, cc) is not None:
                c.near_ties += 1
            hard, soft = internal_disagreements(cfg, cc, seed)
            for kind, msg in hard[:1]:
                ci.disagree(kind="instrumentation" if kind == "instrumentation" else "internal:" + kind,
                            input={"config": cfg, "c": cc, "seed": seed}, impl=msg,
                            model="C10_cl_iterate: every internal call of the shifted run receives what it received in the unshifted run")
            for kind, _ in soft:
                ci.near_ties += 1
                ci.count("rounding-dominated difference: " + kind)
            for t, sh in ((a, 0.0), (b, cc)):
                if t.error is None:
                    replay.append((t, {"config": cfg, "c": sh, "seed": seed}))
    for e in EXCUSED[n_exc:]:
        c.count("observable difference with a rounding excuse")
        c.sample(e)
    ci.sample({"kinds": "guard, stream, trial-temperatures, trial-ess, vv-calls, vv-arguments, vv-value, hand-off, trim, trainer-output, "
                        "indices, steps, proposals, alphas, masks, likelihood, counters, assignments, logz-rw, posterior"})
    c.sample({"config": cfgs[0], "shifts": SHIFTS})
    # (b) closed-loop model replay of every recorded run
    seen = set()
    lines, items = [], []
    for t, info in replay:
        if id(t) in seen:
            continue
        seen.add(id(t))
        lines.append(c10cl.model_line(t))
        items.append((t, info))
    bad_instr = [t for t, _ in items if t.instr_error]
    if bad_instr:
        cl.disagree(kind="instrumentation", input="closed-loop-replay", impl=bad_instr[0].instr_error,
                    model="the run is observable at the modelled points")
        items, lines = [], []
    for (t, info), ans in zip(items, drv.batch(lines) if lines else []):
        cl.case((info["config"], info["c"], info["seed"]), len(t.trim) > 0)
        cl.count(f"cl={int(info['config']['clustering'])}/vv={'on' if info['config']['vv'] is not None else 'off'}")
        cl.count("shifted run" if info["c"] != 0.0 else "unshifted run")
        try:
            prob, tie = c10cl.compare_model(t, ans)
        except Exception as e:  # noqa — an incomplete record: this suite's problem only
            prob, tie = f"the recorded run could not be compared with the model ({type(e).__name__}: {e})", False
        for br in c10cl.model_branches(ans):
            cl.count("branch:" + br)
        if tie:
            cl.near_ties += 1
        elif prob:
            cl.disagree(kind="model-vs-code", input=info, impl=prob, model=ans[:200])
        cl.sample({"config": info, "beta": [round(i["beta"], 5) for i in t.iters], "steps": [i["steps"] for i in t.iters]})
    # (c) trace replay of shifted runs through the tape-driven pipeline model
    c2 = Corr("shifted-trace-replay", "toleranced Float")
    recs, lines = [], []
    for i in range(4 if tier == "quick" else 40):
        kernel, resample = [("tpcn", "mult"), ("rwm", "syst"), ("tpcn", "syst"), ("rwm", "mult")][i % 4]
        cc = [37.5, -1000.0, 1000.0, -1.0][i % 4]
        prior, like0 = make_target(rng, 2, False)
        like = (lambda f, k: (lambda x: f(x) + k))(like0, cc)
        seed = rng.randrange(2 ** 31)
        np.random.seed(seed)
        rec = pipeline.Recorder(kernel, resample, 16, 2, like, prior)
        rec.s._core._initialize_fresh()
        rec.s._core.n_total = 32
        k = 0
        while rec.s._core._not_termination() and k < 14:
            rec.iteration()
            k += 1
        recs.append((rec, {"kernel": kernel, "resample": resample, "c": cc, "seed": seed}))
        lines.append(rec.model_line())
        c2.case((kernel, resample, cc, seed), True)
    for (rec, cfg), ans in zip(recs, drv.batch(lines)):
        prob, tie = pipeline.compare(rec, ans)
        if tie:
            c2.near_ties += 1
        elif prob:
            c2.disagree(input=cfg, impl=prob, model=ans[:200])
        c2.sample({"config": cfg, "logz": [round(it["logz"], 4) for it in rec.impl]})
    # (d) checkpoints
    c3 = Corr("checkpoint-shift", "toleranced (1e-8 relative)")
    ck = [(_mk("tpcn", "syst", False, None), 37.5), (_mk("rwm", "mult", True, 0.5, blobs=True), -1000.0)]
    if tier == "thorough":
        ck += [(cfg, SHIFTS[i % 6]) for i, cfg in enumerate(CONFIGS)]
    for cfg, cc in ck:
        seed = rng.randrange(2 ** 31)
        c3.case((cfg, cc, seed), True)
        prob, nfiles, is_prop = c10cl.checkpoint_problem(cfg, cc, seed)
        c3.count("checkpoint files compared", nfiles)
        if prob and (c10cl.checkpoint_problem(cfg, cc / 2, seed)[0] or c10cl.checkpoint_problem(cfg, 2 * cc, seed)[0]):
            c3.disagree(kind="property" if is_prop else "internal:checkpoint-key",
                        input={"config": cfg, "c": cc, "seed": seed, "checkpoint": True} if is_prop else {"config": cfg, "seed": seed},
                        impl=prob, model="C10_cl_checkpoint: the checkpoint of the shifted run is the shifted checkpoint")
    c3.sample({"configs": [x[0] for x in ck[:2]]})
    # (e) the rounded-arithmetic bound of Props/C10Round.lean on the recorded acceptance exponents
    try:
        c4 = round_suite(tier, [t for t, _ in items])
    except Exception as e:  # noqa — needs the internal record
        c4 = Corr("rounding-bounds", "exact inequality on doubles")
        c4.disagree(kind="instrumentation", input="rounding-bounds", impl=f"{type(e).__name__}: {e}", model="recorded steps")
    return [c, ci, cl, c2, c3, c4]


# --------------------------------------------------------------------------------------------------------------- rounding

U = 2.0 ** -52


def exponent_bound(beta, l, lp, f, c):
    """C10_round_exponent: |E' - E| <= u (beta (8|lp - l| + 2(|l| + |lp|) + 4|c|) + 8|f|) + 11 eta for the exponents
    rnd(rnd(beta * rnd(lp - l)) + f) computed from (l, lp) and from (rnd(l + c), rnd(lp + c)); u = 2^-52, eta = 2^-1074"""
    return U * (beta * (8.0 * abs(lp - l) + 2.0 * (abs(l) + abs(lp)) + 4.0 * abs(c)) + 8.0 * abs(f)) * (1 + 2 ** -40) + 11 * 2.0 ** -1074


def round_suite(tier, traces):
    """every accept/reject step of every recorded pair: the float exponent of the shifted run stays within the proved bound of the
    float exponent of the unshifted run (both recomputed here with the same IEEE operations as mcmc.py:175)"""
    c4 = Corr("rounding-bounds", "exact inequality on doubles (the bound is evaluated in extended precision)")
    from fractions import Fraction as Fr
    by_seed = {}
    for t in traces:
        by_seed.setdefault((common.digest(t.cfg), t.seed), []).append(t)
    worst = drift = 0.0
    for group in by_seed.values():
        base = [t for t in group if t.c == 0.0]
        for b in group:
            if b.c == 0.0 or not base:
                continue
            a = base[0]
            if len(a.props) != len(b.props) or len(a.iters) != len(b.iters):
                continue
            # current log-likelihoods at each step are not recorded separately: recompute the chain from the committed batches
            for (pa, pb, ia) in _step_pairs(a, b):
                beta, l, lp, f, l2, lp2 = ia
                e1 = np.float64(beta) * (np.float64(lp) - np.float64(l)) + np.float64(f)
                # the theorem's premise: the shifted run stores fl(l + c), fl(lp + c) for the SAME points (in the real pair the
                # points themselves drift by rounding after the first step — that drift is reported below, not bounded)
                e2 = np.float64(beta) * ((np.float64(lp) + np.float64(b.c)) - (np.float64(l) + np.float64(b.c))) + np.float64(f)
                e3 = np.float64(beta) * (np.float64(lp2) - np.float64(l2)) + np.float64(f)
                bound = exponent_bound(beta, l, lp, f, b.c)
                c4.case((beta, l, lp, f, b.c), True)
                worst = max(worst, abs(float(e2) - float(e1)) / bound if bound > 0 else 0.0)
                drift = max(drift, abs(float(e3) - float(e1)))
                if abs(Fr(float(e2)) - Fr(float(e1))) > Fr(bound):
                    c4.disagree(input={"beta": beta, "l": l, "lp": lp, "factor": f, "c": b.c}, impl=f"exponents {float(e1)!r} / {float(e2)!r}",
                                model=f"C10_round_exponent bound {bound!r}")
    c4.count("worst |dE| / bound (x1e6)", int(worst * 1e6))
    c4.count("largest drift of an exponent between the two REAL runs (x1e15)", int(drift * 1e15))
    c4.sample({"worst_ratio": worst, "largest_real_drift": drift})
    return c4


def _step_pairs(a, b):
    """(…, (beta, l, lp, factor, l shifted, lp shifted)) for every walker of every accept/reject step of the pair, with finite lp"""
    out = []
    sa = sb = 0
    for k, ia in enumerate(a.iters):
        if ia["beta"] == 0.0:
            continue
        # walkers' current logl before the first step of this iteration = resampled pool values
        ann = sum(1 for j in a.iters[:k] if j["beta"] != 0.0)
        idx = a.idx[ann]
        pool_a = np.concatenate([j["logl"] for j in a.iters[:k]])
        pool_b = np.concatenate([j["logl"] for j in b.iters[:k]])
        la, lb = pool_a[idx].copy(), pool_b[idx].copy()
        for s_ in range(ia["steps"]):
            pa, pb = a.props[sa], b.props[sb]
            mask = a.masks[k][s_]
            for w, ((ta, fa, ina), (tb, fb, inb)) in enumerate(zip(pa, pb)):
                lpa, lpb = a.like[ta], b.like[tb]
                if ina and np.isfinite(lpa) and np.isfinite(lpb):
                    out.append((pa, pb, (ia["beta"], float(la[w]), float(lpa), float(fa), float(lb[w]), float(lpb))))
                if mask[w]:
                    la[w], lb[w] = lpa, lpb
            sa += 1
            sb += 1
    return out


# --------------------------------------------------------------------------------------------------------------- search / replay

def search(tier, hints):
    """concrete failing inputs of the PROPERTY on the real code: only the statement's observables of a pair are compared
    (`shift_violation`); internal differences are never failing inputs"""
    rng = common.rng_for("C10.search")
    found = []
    t0 = time.time()
    todo = []
    for h in hints:
        i = h.get("input") if isinstance(h.get("input"), dict) else None
        if i and "config" in i and "seed" in i and i.get("c"):
            todo.append((i["config"], i["c"], i["seed"], bool(i.get("checkpoint"))))
        elif i and "config" in i and "seed" in i:
            todo += [(i["config"], cc, i["seed"], False) for cc in (37.5, -1000.0)]
    for cfg in TIGHT[:3] + EXTRA + CONFIGS[:: (2 if tier == "quick" else 1)]:
        for cc in (37.5, -1000.0):
            todo.append((cfg, cc, rng.randrange(2 ** 31), False))
    for cfg, cc, seed, ck in todo:
        if ck:
            p, _, is_prop = c10cl.checkpoint_problem(cfg, cc, seed)
            v = {"what": p, "config": cfg, "c": cc, "seed": seed, "checkpoint": True} if p and is_prop and (
                any(x[0] and x[2] for x in (c10cl.checkpoint_problem(cfg, cc / 2, seed), c10cl.checkpoint_problem(cfg, 2 * cc, seed)))) else None
        else:
            v = shift_violation(cfg, cc, seed)
        if v:
            found.append(v)
            if len(found) >= 3:
                return found
        if time.time() - t0 > (240 if tier == "quick" else 900):
            break
    return found


def replay(obj):
    f = obj.get("failing_input", obj)
    if "witness" in f.get("replay", {}):
        from . import witnesses
        return witnesses.ALL[f["replay"]["witness"]]()
    if f.get("checkpoint"):
        p, _, is_prop = c10cl.checkpoint_problem(f["config"], f["c"], f["seed"])
        return {"fails": p is not None and is_prop, "detail": p}
    v = shift_violation(f["config"], f["c"], f["seed"])
    return {"fails": v is not None, "detail": v}
