"""C10 — rescaling the likelihood shifts log-evidence only."""
import contextlib
import io
import warnings

import numpy as np

from . import common, pipeline
from .common import Corr, hex2f
from .c01 import make_target

ID = "C10"
LEAN_MODULES = ["TempestVerif.Props.C10"]
RULE = ("(a) paired real runs under one seed with logL and logL + c (c in {+-1, +-37.5, +-1000}, dyadic) over kernel x resampler x "
        "clustering x metric mode: the model's theorem C10_run predicts identical beta / ESS sequences, identical particles and "
        "normalised weights, and logz_t' = logz_t + beta_t c; compared within 1e-8 relative (a mismatch is re-tested with c/2 and 2c "
        "to rule out a rounding-induced decision flip). (b) the pipeline model replays the tape of a run with a shifted likelihood "
        "(|c| up to 1000) and must reproduce it. Non-trivial = every pair (c != 0).")
MODELLED = ["rounding-induced branch flips are allowed by the statement ('up to floating-point rounding'); a flip is recognised by re-running with c/2 and 2c",
            "the trainer never reads logL (G5: trainerReads = beta, iter, u), so clustering / Student-t fits see identical inputs"]
ASSUMPTIONS = ["user likelihood and prior transform are pure"]


def translators():
    from translate import g4_kernel, g5_tables
    return [g4_kernel.generate(), g5_tables.generate()]


def _quiet():
    return contextlib.redirect_stdout(io.StringIO())


def _run(cfg, c, seed, n_total=64):
    from tempest import Sampler
    mu = np.array([0.4, -0.7])

    def like(x):
        return -0.5 * float(np.sum((x - mu) ** 2)) / 0.5 + c
    np.random.seed(seed)
    with _quiet(), warnings.catch_warnings():
        warnings.simplefilter("ignore")
        s = Sampler(lambda u: 8.0 * u - 4.0, like, 2, n_particles=24, clustering=cfg["clustering"], sample=cfg["kernel"],
                    resample=cfg["resample"], volume_variation=cfg["vv"], n_steps=1, n_max_steps=2)
        s.run(n_total=n_total, progress=False)
    st = s.state
    x, w, l = s.posterior(trim_importance_weights=False)
    return {"beta": np.asarray(st.get_history("beta"), dtype=float), "ess": np.asarray(st.get_history("ess"), dtype=float),
            "logz": np.asarray(st.get_history("logz"), dtype=float), "u": st.get_history("u", flat=True), "w": w, "logl": l,
            "final": float(s.evidence()[0])}


def _run_or_error(cfg, c, seed):
    try:
        return _run(cfg, c, seed), None
    except Exception as e:  # noqa
        import traceback
        files = [f.filename.split("/")[-1] for f in traceback.extract_tb(e.__traceback__)]
        return None, (type(e).__name__, "modes.py" in files or "student.py" in files)


def shift_problem(cfg, c, seed):
    (a, ea), (b, eb) = _run_or_error(cfg, 0.0, seed), _run_or_error(cfg, c, seed)
    if ea or eb:
        # a run that aborts on a degenerate cluster is the recorded finding F24 (C18); for THIS property it only matters that the
        # shifted run behaves the same way
        if ea and eb and ea == eb:
            return None
        return f"one run of the pair aborted and the other did not: unshifted {ea or 'completed'}, shifted {eb or 'completed'}"
    if len(a["beta"]) != len(b["beta"]):
        return f"different number of iterations ({len(a['beta'])} vs {len(b['beta'])})"
    tol = 1e-8
    if not np.allclose(a["beta"], b["beta"], rtol=tol, atol=tol):
        return f"temperature schedules differ: {a['beta'].tolist()} vs {b['beta'].tolist()}"
    if not np.allclose(a["ess"], b["ess"], rtol=1e-6, atol=1e-6):
        return "ESS sequences differ"
    if a["u"].shape != b["u"].shape or not np.allclose(a["u"], b["u"], rtol=tol, atol=tol):
        return "particles differ"
    if not np.allclose(a["w"], b["w"], rtol=1e-6, atol=1e-12):
        return "normalised weights differ"
    if not np.allclose(b["logl"] - c, a["logl"], rtol=tol, atol=tol * (1 + abs(c))):
        return "stored log-likelihoods are not shifted by c"
    want = a["logz"] + a["beta"] * c
    if not np.allclose(b["logz"], want, rtol=tol, atol=tol * (1 + abs(c))):
        k = int(np.argmax(np.abs(b["logz"] - want)))
        return f"recorded logz at iteration {k + 1} (beta={a['beta'][k]:.4f}): {b['logz'][k]!r}, expected logz + beta*c = {want[k]!r}"
    if abs(b["final"] - (a["final"] + c)) > tol * (1 + abs(c)):
        return f"final evidence {b['final']!r}, expected {a['final'] + c!r}"
    return None


def shift_violation(cfg, c, seed):
    p = shift_problem(cfg, c, seed)
    if p is None:
        return None
    # rule out a rounding-induced decision flip: a genuine dependence on c persists at c/2 and 2c
    others = [shift_problem(cfg, c / 2, seed), shift_problem(cfg, 2 * c, seed)]
    if sum(o is not None for o in others) >= 1:
        return {"what": p, "config": cfg, "c": c, "seed": seed}
    return None


CONFIGS = [dict(kernel=k, resample=r, clustering=cl, vv=vv) for k in ("tpcn", "rwm") for r in ("mult", "syst")
           for cl in (False, True) for vv in (None, 0.5)]
# tight volume-variation targets exercise the 'target too ambitious: stay' and the bisection branches of the reweighter
TIGHT = [dict(kernel="tpcn", resample="mult", clustering=False, vv=0.05), dict(kernel="rwm", resample="syst", clustering=False, vv=0.03),
         dict(kernel="tpcn", resample="syst", clustering=True, vv=0.1)]


def correspond(tier):
    rng = common.rng_for("C10")
    c = Corr("paired-shift-runs", "toleranced (1e-8 relative; decision flips re-tested at c/2 and 2c)")
    cfgs = (CONFIGS + TIGHT) if tier == "thorough" else [CONFIGS[i] for i in (0, 3, 5, 6, 9, 12, 14)] + TIGHT[:2]
    shifts = [1.0, -1.0, 37.5, -37.5, 1000.0, -1000.0]
    for i, cfg in enumerate(cfgs):
        for cc in (shifts if tier == "thorough" else [shifts[i % 6], shifts[(i + 3) % 6]]):
            seed = rng.randrange(2 ** 31)
            c.case((cfg, cc, seed), True)
            c.count(f"{cfg['kernel']}/{cfg['resample']}/cl={int(cfg['clustering'])}/vv={cfg['vv']}")
            v = shift_violation(cfg, cc, seed)
            if v:
                c.disagree(input={"config": cfg, "c": cc, "seed": seed}, impl=v["what"], model="C10_run: Shift c is preserved by every iteration")
    c.sample({"config": cfgs[0], "shifts": shifts})
    # (b) trace replay of shifted runs through the pipeline model
    drv = common.Driver()
    c2 = Corr("shifted-trace-replay", "toleranced Float")
    recs, lines = [], []
    for i in range(8 if tier == "quick" else 40):
        kernel, resample = [("tpcn", "mult"), ("rwm", "syst"), ("tpcn", "syst"), ("rwm", "mult")][i % 4]
        cc = [37.5, -1000.0, 1000.0, -1.0][i % 4]
        prior, like0 = make_target(rng, 2, False)
        like = (lambda f, k: (lambda x: f(x) + k))(like0, cc)
        seed = rng.randrange(2 ** 31)
        np.random.seed(seed)
        rec = pipeline.Recorder(kernel, resample, 16, 2, like, prior)
        rec.s._core._initialize_fresh()
        rec.s._core.n_total = 32
        k = 0
        while rec.s._core._not_termination() and k < 14:
            rec.iteration()
            k += 1
        recs.append((rec, {"kernel": kernel, "resample": resample, "c": cc, "seed": seed}))
        lines.append(rec.model_line())
        c2.case((kernel, resample, cc, seed), True)
    for (rec, cfg), ans in zip(recs, drv.batch(lines)):
        prob, tie = pipeline.compare(rec, ans)
        if tie:
            c2.near_ties += 1
        elif prob:
            c2.disagree(input=cfg, impl=prob, model=ans[:200])
        c2.sample({"config": cfg, "logz": [round(it["logz"], 4) for it in rec.impl]})
    return [c, c2]


def search(tier, hints):
    rng = common.rng_for("C10.search")
    found = []
    for cfg in TIGHT + CONFIGS[:: (2 if tier == "quick" else 1)]:
        for cc in (37.5, -1000.0):
            v = shift_violation(cfg, cc, rng.randrange(2 ** 31))
            if v:
                found.append(v)
                if len(found) >= 3:
                    return found
    return found


def replay(obj):
    f = obj.get("failing_input", obj)
    if "witness" in f.get("replay", {}):
        from . import witnesses
        return witnesses.ALL[f["replay"]["witness"]]()
    v = shift_violation(f["config"], f["c"], f["seed"])
    return {"fails": v is not None, "detail": v}
