"""C07 — every stored or returned particle is a coherent (u, x, logL, blob) record."""
import contextlib
import io
import math
import warnings

import numpy as np

from . import common
from . import c07_sm
from .common import Corr

ID = "C07"
LEAN_MODULES = ["TempestVerif.Props.C07", "TempestVerif.Props.C07SM", "TempestVerif.Props.C07Cube",
                "TempestVerif.Props.C07LogLike", "TempestVerif.Props.C07Sites"]
RULE = ("FOUR suites. (1) tagged-pipeline-ops: random op sequences (prior draw with -inf subset and replacement, commit, resample "
        "{mult,syst}, 1..k accept/reject steps, commit) on the REAL Mutator/Resampler/StateManager/_log_like with TAGGED particles "
        "and injected randomness vs Model.Records over the G5 field tables; decoded tag arrays of every field must be identical. "
        "(2) sm-tagged-iterations: the REAL Sampler.sample() (= execute_iteration: real resampler, mutator incl. parallel_mcmc -> "
        "runner -> check_bounds / apply_boundary_conditions / out-of-cube substitution, _log_like serial/pool/vectorised, real "
        "commit and return value; reweighter/trainer scripted) on exact dyadic coordinates over the lattice dimension x n x "
        "{no blobs, declared, UNDECLARED blobs} x kernel x resampler x periodic/reflective/hard coordinates x clustered labels x "
        "checkpoint-resume; raw proposals are in-cube, wrapped by integers (folded back exactly), outside the cube (rejected), or "
        "on the cube's faces; the Rat model Model.RecSM (+ Model.Boundary) replays the same tape; every coordinate of the current set "
        "after resampler.run / mutator.run / commit, of every committed batch under every key, of each dictionary sample() returned, "
        "of results() and of all 8 posterior() option combinations (index vectors of the real trim_weights / systematic_resample) "
        "must be identical. (3) loglike-packing: real _log_like on scripted per-point results (numbers, tuples, lists, 1-tuples, "
        "mixed and ragged batches; scalar/several/array/structured blobs) vs Model.LogLike: raises-or-not, logl, blobs-or-None, "
        "every row; plus row-of-batch == row-alone on the real code. (4) real-run-coherence: whole real runs (both kernels, "
        "clustering, volume-variation, every documented blob form declared and undeclared, pool object, checkpoint-resume): after "
        "every step, in sample()'s dictionary, in results() and in posterior() each row satisfies x = T(u), logl = L(x), "
        "blob = B(x), u in [0,1]^d exactly. Non-trivial = a resample plus a mixed accept mask or a -inf replacement (1), every "
        "case of (2), every non-scalar case of (3), every run of (4).")
MODELLED = ["user functions prior_transform / log_likelihood are pure and deterministic (uninterpreted T, Lk in the theorems)",
            "numpy array construction inside _log_like (np.array(blob, dtype), the sub-array row fill, squeeze) is the parameter `pack` of "
            "Model.LogLike with the hypothesis RowWise (row i depends on result i only); checked on the real code every run by "
            "loglike-packing (row of the batch == row evaluated alone, all blob forms)",
            "np.random.rand returns numbers in [0,1) (hypothesis TapeOk of the run theorems; the real-run suite checks u in the cube after "
            "every warm-up)",
            "pool.map returns results in input order; a vectorised likelihood's rows are the user's business",
            "the model has ONE predicate `isInf` for np.isinf in the warm-up and for 'alpha = 0' in the MCMC pass, i.e. the likelihood "
            "returns finite numbers or -inf, never +inf or NaN (a +inf proposal WOULD be accepted by the real code)",
            "fancy indexing / boolean-mask assignment / np.concatenate = gather? / maskSet / scatterFrom / flatten (IndexError etc. = none)",
            "dill round trip of a checkpoint = identity on values (byte level: C08_restore_exact, C08_state_manager_restore); "
            "copies handed out by the StateManager never alias the stored arrays (C17)",
            "IEEE rounding inside apply_boundary_conditions: C07_fold_check_in_cube_round under C16's H_round; the suites use exact dyadics",
            "the reweighting and training steps do not write record keys: static obligation C07_sites_recordWriters (they are scripted "
            "stubs in sm-tagged-iterations and the real ones in real-run-coherence)"]
ASSUMPTIONS = ["the closed-world tables of translate/g5_sites.py see every write of a record key that goes through "
               "set_current/update_current or the private dictionaries by name; writes through setattr/exec/aliases of the "
               "dictionaries would escape it (the dynamic suites would still see their effect)"]

M = 1 << 20   # tag range; u(t) = (t + 0.5)/M in every coordinate


def translators():
    from translate import g5_tables, g5_sites
    return [g5_tables.generate(), g5_sites.generate()]


# ---- tagged user functions --------------------------------------------------------------------
def u_of(t, d):
    return np.full(d, (t + 0.5) / M)


def prior(u):
    return 10.0 * u - 5.0


def tag_of_u(u0):
    return int(round(float(u0) * M - 0.5))


def tag_of_x(x0):
    return tag_of_u((float(x0) + 5.0) / 10.0)


def logl_of_x(x):
    return -(float(x[0]) + 5.0) * 3.0 - 1.0


def tag_of_l(l):
    if not math.isfinite(l):
        return -1
    return tag_of_x(-(float(l) + 1.0) / 3.0 - 5.0)


def blob_of_x(x):
    return float(x[0]) * 2.0 + 7.0


def tag_of_b(b):
    return tag_of_x((float(b) - 7.0) / 2.0)


class Env:
    """A real Sampler whose particles carry tags; `infset` = tags on which the likelihood is -inf."""

    def __init__(self, d, n, blobs, resample, vectorize=False, clustered=False):
        from tempest import Sampler
        self.d, self.n, self.blobs = d, n, blobs
        self.infset = set()

        def like(x):
            t = tag_of_x(x[0])
            l = -np.inf if t in self.infset else logl_of_x(x)
            return (l, blob_of_x(x)) if blobs else l

        def like_vec(X):
            return np.array([(-np.inf if tag_of_x(r[0]) in self.infset else logl_of_x(r)) for r in X])

        self.s = Sampler(prior, like_vec if vectorize else like, d, n_particles=n, clustering=False,
                         sample="rwm", resample=resample, n_steps=1, n_max_steps=1,
                         vectorize=vectorize, blobs_dtype=("f8" if blobs else None))
        self.core = self.s._core
        self.state = self.s.state
        self.core._initialize_fresh()
        if clustered:
            # the resampler asks the (shared) clusterer for labels of the resampled particles: a scripted double that labels a
            # particle by the parity of its tag, so that an active set spans two clusters
            class _Clusterer:
                def predict(self_, u):
                    return np.array([tag_of_u(r[0]) % 2 for r in np.atleast_2d(u)], dtype=int)
            self.core.resampler.clustering = True
            self.core.resampler.clusterer = _Clusterer()

    def decode(self, cur):
        u = [tag_of_u(r[0]) for r in cur["u"]]
        x = [tag_of_x(r[0]) for r in cur["x"]]
        l = [tag_of_l(v) for v in cur["logl"]]
        b = [tag_of_b(v) for v in np.asarray(cur["blobs"]).reshape(len(u), -1)[:, 0]] if self.blobs else None
        return u, x, l, b


def _dummy_modes(d, K=2):
    from tempest.modes import ModeStatistics
    return ModeStatistics(np.zeros((K, d)), np.array([np.eye(d)] * K), np.full(K, 1e6))


def run_sequence(rng, d, n, blobs, resample, vectorize, n_iter, clustered=False):
    """drive the real components; returns (ops for the model, impl_final, impl_hist, flags)"""
    import tempest.mcmc as mcmc
    import tempest.steps.resample as rsm
    env = Env(d, n, blobs, resample, vectorize, clustered)
    st = env.state
    ops = []
    flags = set()
    next_tag = [1]

    def fresh(k):
        t = list(range(next_tag[0], next_tag[0] + k))
        next_tag[0] += k
        return t

    pool_size = 0
    with warnings.catch_warnings(), contextlib.redirect_stdout(io.StringIO()):
        warnings.simplefilter("ignore")
        for it in range(n_iter):
            warm = it == 0 or (it == 1 and rng.random() < 0.5)
            st.set_current("iter", it + 1)
            if warm:
                st.set_current("beta", 0.0)
                tags = fresh(n)
                frac = rng.choice([0.0, 0.0, 0.3, 0.6, 0.9])
                inf_local = [k for k in range(n) if rng.random() < frac]
                if len(inf_local) == n:
                    inf_local.pop()     # a batch with no finite draw is C11's subject (known finding F8), not movement
                env.infset = {tags[k] for k in inf_local}
                choice_log = []

                def fake_choice(a, size=None, replace=True, p=None):
                    a = np.asarray(a)
                    pick = [int(a[rng.randrange(len(a))]) for _ in range(size)]
                    choice_log.append(pick)
                    return np.array(pick, dtype=int)
                U = np.array([u_of(t, d) for t in tags])
                with common.patched(np.random, "rand", lambda *shape: U.copy()), \
                        common.patched(np.random, "choice", fake_choice):
                    env.core.mutator.run(_dummy_modes(d))
                ops.append("draw:" + ",".join(map(str, tags)))
                if inf_local and len(inf_local) < n:
                    ops.append("rep:" + ",".join(map(str, inf_local)) + ":" + ",".join(map(str, choice_log[0])))
                    flags.add("replace")
                elif inf_local:
                    flags.add("all_inf")   # stored as is (known finding F8); model: no replacement either
                env.infset = set()
            else:
                st.set_current("beta", 0.5)
                w = np.ones(pool_size) / pool_size
                if resample == "mult":
                    idx = [rng.randrange(pool_size) for _ in range(n)]
                    with common.patched(np.random, "choice", lambda a, size=None, replace=True, p=None: np.array(idx, dtype=int)):
                        env.core.resampler.run(w)
                else:
                    got = {}
                    real_sr = rsm.systematic_resample

                    def spy(size, weights=None, random_state=None):
                        r = real_sr(size, weights=weights)
                        got["idx"] = [int(i) for i in r]
                        return r
                    u0 = rng.random()
                    with common.patched(np.random, "random", lambda *a: u0), common.patched(rsm, "systematic_resample", spy):
                        env.core.resampler.run(w)
                    idx = got["idx"]
                ops.append("res:" + ",".join(map(str, idx)))
                flags.add("resample")
                # mutation: tagged proposals, scripted accept bits
                steps = []
                cur = {"tags": None}

                def fake_propose(self, k):
                    if k == 0:
                        cur["tags"] = fresh(n)
                        cur["inf"] = {t for t in cur["tags"] if rng.random() < 0.15}
                        env.infset |= cur["inf"]
                    return u_of(cur["tags"][k], d)

                def fake_rand(*shape):
                    bits = [rng.random() < 0.5 for _ in range(n)]
                    steps.append((list(cur["tags"]), [b and (t not in cur["inf"]) for b, t in zip(bits, cur["tags"])]))
                    return np.array([0.0 if b else 1.0 for b in bits])
                with common.patched(mcmc.RWMRunner, "_propose", fake_propose), common.patched(np.random, "rand", fake_rand):
                    env.core.mutator.run(_dummy_modes(d))
                env.infset = set()
                for tags, mask in steps:
                    ops.append("mut:" + ",".join(map(str, tags)) + ":" + "".join("1" if m else "0" for m in mask))
                    if any(mask) and not all(mask):
                        flags.add("mixed_mask")
            st.commit_current_to_history()
            ops.append("commit")
            pool_size += n
    cur = st.get_current()
    fin = env.decode(cur)
    hist = []
    for k in range(st.get_history_length()):
        b = {key: st.get_history(key, k) for key in ("u", "x", "logl")}
        b["blobs"] = st.get_history("blobs", k) if blobs else None
        hist.append(env.decode(b))
    return ops, fin, hist, flags


def _fmt(pop, blobs):
    u, x, l, b = pop
    s = lambda v: ",".join(map(str, v)) if v else "-"
    return (s(u), s(x), s(l), s(b) if blobs else None)


def correspond(tier):
    n_seq = 220 if tier == "quick" else 4000
    rng = common.rng_for("C07.seq")
    drv = common.Driver()
    c = Corr("tagged-pipeline-ops", "exact (no arithmetic: particle movement on tags)")
    lines, recs = [], []
    for _ in range(n_seq):
        d = rng.randint(1, 3)
        n = rng.randint(2, 7)
        blobs = rng.random() < 0.5
        vec = (not blobs) and rng.random() < 0.3
        resample = rng.choice(["mult", "syst"])
        n_iter = rng.randint(2, 5)
        clustered = rng.random() < 0.4
        try:
            ops, fin, hist, flags = run_sequence(rng, d, n, blobs, resample, vec, n_iter, clustered)
            if clustered:
                flags.add("clustered_resampling")
        except Exception as e:  # the real code raising on a legal sequence is itself a disagreement
            c.disagree(input={"d": d, "n": n, "blobs": blobs, "resample": resample}, impl=f"raised {type(e).__name__}: {e}", model="runs")
            continue
        lines.append("rec.run ops=" + ";".join(ops))
        recs.append((ops, fin, hist, flags, blobs))
        c.case(ops, ("resample" in flags and "mixed_mask" in flags) or "replace" in flags)
        for f in flags:
            c.count(f)
        c.count("blobs" if blobs else "no_blobs")
        c.count(resample)
        c.count("vectorized" if vec else "scalar")
    res = drv.batch(lines)
    for (ops, fin, hist, flags, blobs), line, ans in zip(recs, lines, res):
        if not ans.startswith("cur="):
            c.disagree(input=line, impl="ran", model=ans)
            continue
        cur_s, hist_s = ans.split(" ")
        mcur = cur_s[4:].split("/")
        mhist = [b.split("/") for b in hist_s[5:].split("|")] if hist_s[5:] != "-" else []
        ok = True
        icur = _fmt(fin, blobs)
        ihist = [_fmt(h, blobs) for h in hist]
        def same(m, i):
            return m[0] == i[0] and m[1] == i[1] and m[2] == i[2] and (i[3] is None or m[3] == i[3])
        ok = same(mcur, icur) and len(mhist) == len(ihist) and all(same(m, i) for m, i in zip(mhist, ihist))
        if not ok:
            c.disagree(input=line, impl={"cur": icur, "hist": ihist}, model=ans)
        c.sample({"ops": line, "model": ans[:200]})
    return [c, c07_sm.suite_sm(tier), c07_sm.suite_loglike(tier), _suite_real_runs(tier)]


def _suite_real_runs(tier):
    """whole real runs over the option lattice (kernels, resamplers, clustering, boundaries, volume-variation, every
    documented blob form): after every pipeline step and in everything posterior() returns, each row must satisfy
    x = T(u), logl = L(x), blob = B(x) exactly — what the record model's theorems state for every op sequence"""
    c = Corr("real-run-coherence", "exact (recomputed T(u), L(x), B(x) per row)")
    rng = common.rng_for("C07.realruns")
    n_runs = 36 if tier == "quick" else 300
    log = []
    found = _oracle_real_runs(rng, n_runs, log=log, stop_after=3)
    for cfg in log:
        c.case(repr(sorted(cfg.items(), key=str)), True)
        c.count(cfg["mode"])
        c.count("clustering" if cfg["clustering"] else "no_clustering")
        c.count("pool_object" if cfg.get("pool") else "no_pool")
        c.count("resumed_from_checkpoint" if cfg.get("resume_at") is not None else "not_resumed")
        c.count("kernel:" + cfg["kernel"])
        c.count("boundaries:" + ((("periodic" if cfg["periodic"] else "") + ("+reflective" if cfg["reflective"] else "")) or "hard"))
        c.count("metric:" + ("volume_variation" if cfg["volume_variation"] else "ess"))
        c.count("support:" + (cfg.get("hole") or "full"))
        c.count("sequence:" + (cfg.get("sequence") or "single_run"))
        if cfg.get("raised"):
            c.count("run_raised(" + cfg["mode"] + ")")
    for f in found:
        c.disagree(input=f["config"], impl=f["what"], model="every row is one coherent record (C07 theorems)", seed=f["seed"])
    if log:
        c.sample({"config": log[0]})
    return c


# ------------------------------------------------------------------ property oracle on the real code
def _oracle_sequences(rng, n_seq):
    """coherence of tags on the real components: all fields of every row decode to ONE tag"""
    found = []
    for _ in range(n_seq):
        d = rng.randint(1, 3)
        n = rng.randint(2, 7)
        blobs = rng.random() < 0.5
        resample = rng.choice(["mult", "syst"])
        try:
            ops, fin, hist, flags = run_sequence(rng, d, n, blobs, resample, False, rng.randint(2, 5), rng.random() < 0.5)
        except Exception as e:  # noqa
            found.append({"what": f"pipeline raised {type(e).__name__}: {e}", "config": {"d": d, "n": n, "blobs": blobs, "resample": resample}})
            continue
        for where, pop in [("current", fin)] + [(f"history[{k}]", h) for k, h in enumerate(hist)]:
            u, x, l, b = pop
            for i in range(len(u)):
                row = (u[i], x[i], l[i]) + ((b[i],) if b is not None else ())
                if len(set(row)) != 1 and not ("all_inf" in flags and l[i] == -1):
                    found.append({"what": f"{where} row {i}: fields belong to different particles (tags u,x,logl,blob = {row})",
                                  "ops": ";".join(ops), "config": {"d": d, "n": n, "blobs": blobs, "resample": resample}})
                    break
            if found:
                break
        if len(found) >= 3:
            break
    return found


def _oracle_real_runs(rng, n_runs, log=None, stop_after=3):
    """real Sampler over the option lattice; after every pipeline step recompute T(u), Lk(x) for every particle"""
    from tempest import Sampler
    found = []
    for _ in range(n_runs):
        d = rng.randint(1, 3)
        kernel = rng.choice(["tpcn", "rwm"])
        resample = rng.choice(["mult", "syst"])
        clustering = rng.random() < 0.4
        mode = rng.choice(["scalar", "vector", "blobs", "blobs-vec3", "blobs-struct", "blobs-mat",
                           "blobs-undeclared", "blobs-undeclared-vec3", "blobs-undeclared-two"])
        use_pool = mode != "vector" and rng.random() < 0.25
        n_max_steps = rng.choice([2, 2, 4])
        resume_at = rng.choice([None, None, 2, 4])
        # part of the prior has zero likelihood: "half" (x0 > 0.3), "tiny" (only u0 < 0.06 is supported: with 16 particles
        # about one warm-up batch in three has NO finite draw, which drives the redraw loop of /repo 959029e)
        hole = rng.choice([None, None, "half", "tiny"])
        sequence = rng.choice([None, None, None, "load_into_used", "load_into_used", "reload_earlier", "run_resume_used"])
        per = [0] if (d >= 2 and rng.random() < 0.3) else None
        refl = [d - 1] if (d >= 2 and rng.random() < 0.3 and (per is None or d - 1 not in per)) else None
        vv = rng.choice([None, None, 0.5])
        cfg = dict(d=d, kernel=kernel, resample=resample, clustering=clustering, mode=mode, periodic=per, reflective=refl, volume_variation=vv,
                   pool=use_pool, n_max_steps=n_max_steps, resume_at=resume_at, hole=hole, sequence=sequence)
        if log is not None:
            log.append(cfg)

        def T(u):
            # one point at a time, written coordinate by coordinate with a DIFFERENT marginal transform per coordinate (the
            # style of the package's quickstart): handing it a whole batch, or mixing rows with columns, changes the result
            x = np.zeros_like(u)
            for j in range(d):
                x[j] = (4.0 + j) * u[j] - 2.0 - 0.5 * j
            return x

        def L1(x):
            if hole == "half" and float(x[0]) > 0.3:
                return -np.inf
            if hole == "tiny" and float(x[0]) > 4.0 * 0.06 - 2.0:
                return -np.inf
            return -0.5 * float(np.sum((x - 0.3) ** 2)) * 4.0
        if mode == "vector":
            like = lambda X: np.array([L1(r) for r in X])
        elif mode in ("blobs", "blobs-undeclared"):   # undeclared = the user guide's own example: a tuple, no blobs_dtype
            like = lambda x: (L1(x), float(x[0]) * 2.0 + 1.0)
        elif mode == "blobs-undeclared-two":
            like = lambda x: (L1(x), float(x[0]) * 2.0 + 1.0, float(x[-1]) - 3.0)
        elif mode in ("blobs-vec3", "blobs-undeclared-vec3"):      # the documented `blobs_dtype=(float, 3)` form
            like = lambda x: (L1(x), np.array([float(x[0]) * 2.0 + 1.0, float(x[-1]), float(np.sum(x))]))
        elif mode == "blobs-struct":    # the documented structured form: several named blobs
            like = lambda x: (L1(x), float(x[0]) * 2.0 + 1.0, int(x[-1] > 0))
        elif mode == "blobs-mat":
            like = lambda x: (L1(x), np.outer([1.0, float(x[0])], [float(x[-1]), 2.0]))
        else:
            like = L1
        bdt = {"blobs": "f8", "blobs-vec3": (float, 3), "blobs-struct": [("a", float), ("b", int)], "blobs-mat": (float, (2, 2))}.get(mode)

        has_blobs = mode.startswith("blobs")

        def blob_ok(b, x):
            if mode in ("blobs", "blobs-undeclared"):
                return float(np.ravel(b)[0]) == float(x[0]) * 2.0 + 1.0
            if mode == "blobs-undeclared-two":
                return np.array_equal(np.asarray(b, dtype=float).ravel(), [float(x[0]) * 2.0 + 1.0, float(x[-1]) - 3.0])
            if mode in ("blobs-vec3", "blobs-undeclared-vec3"):
                return np.array_equal(np.asarray(b, dtype=float).ravel(), [float(x[0]) * 2.0 + 1.0, float(x[-1]), float(np.sum(x))])
            if mode == "blobs-struct":
                b = np.asarray(b).reshape(-1)[0]
                return float(b["a"]) == float(x[0]) * 2.0 + 1.0 and int(b["b"]) == int(x[-1] > 0)
            if mode == "blobs-mat":
                return np.array_equal(np.asarray(b, dtype=float).reshape(2, 2), np.outer([1.0, float(x[0])], [float(x[-1]), 2.0]))
            return True
        seed = rng.randrange(2 ** 31)
        np.random.seed(seed)
        def make():
            return Sampler(T, like, d, n_particles=16, clustering=clustering, sample=kernel, resample=resample,
                           vectorize=(mode == "vector"), blobs_dtype=bdt, pool=(c07_sm.FakePool() if use_pool else None),
                           periodic=per, reflective=refl, volume_variation=vv, n_steps=1, n_max_steps=n_max_steps)
        s = make()
        core = s._core
        bad = []

        def verify(where, cur=None):
            cur = s.state.get_current() if cur is None else cur
            if cur["u"] is None or cur["x"] is None:
                return
            u, x, l = cur["u"], cur["x"], cur["logl"]
            if not (len(u) == len(x) == len(l)) or (has_blobs and (cur["blobs"] is None or len(cur["blobs"]) != len(u))):
                bad.append(f"{where}: arrays of different lengths (or blobs missing)")
                return
            if not (np.all(u >= 0) and np.all(u <= 1)):
                bad.append(f"{where}: u outside the unit cube")
            for i in range(len(u)):
                if not np.array_equal(T(u[i]), x[i]):
                    bad.append(f"{where}: particle {i} x != T(u)")
                    break
                if not np.isfinite(l[i]):
                    bad.append(f"{where}: particle {i} is stored with logl = {l[i]!r}")
                    break
                if L1(x[i]) != l[i]:
                    bad.append(f"{where}: particle {i} logl != L(x) ({l[i]!r} vs {L1(x[i])!r})")
                    break
                if has_blobs and not blob_ok(cur["blobs"][i], x[i]):
                    bad.append(f"{where}: particle {i} blob != blob(x)")
                    break

        def instrument(core):
            for name in ("resampler", "mutator"):
                obj = getattr(core, name)
                orig = obj.run

                def wrapped(*a, _orig=orig, _name=name, **k):
                    r = _orig(*a, **k)
                    verify("after " + _name + ".run")
                    return r
                obj.run = wrapped
        instrument(core)
        try:
            with warnings.catch_warnings(), contextlib.redirect_stdout(io.StringIO()):
                warnings.simplefilter("ignore")
                core._initialize_fresh()
                for it in range(6):
                    if resume_at is not None and it == resume_at:
                        # checkpoint, FRESH sampler, load, continue with the loaded one: records must still be coherent
                        import os
                        import tempfile
                        fd, path = tempfile.mkstemp(suffix=".state")
                        os.close(fd)
                        try:
                            s.save_state(path)
                            s = make()
                            s.load_state(path)
                        finally:
                            for q in (path, path + ".temp"):
                                if os.path.exists(q):
                                    os.remove(q)
                        core = s._core
                        instrument(core)
                        verify("after load_state")
                    ret = s.sample()
                    verify("after commit")
                    verify("dictionary returned by sample()", ret)
                def readback(tag=""):
                    # everything committed, as results() / get_history hand it out: one coherent batch per iteration under every key
                    res = s.results()
                    nb = len(res["u"])
                    if not (len(res["x"]) == len(res["logl"]) == nb) or (has_blobs and len(res["blobs"]) != nb):
                        bad.append(tag + "results(): the record keys hold different numbers of batches")
                    else:
                        for k in range(nb):
                            verify(f"{tag}results() batch {k}", {"u": res["u"][k], "x": res["x"][k], "logl": res["logl"][k],
                                                            "blobs": res["blobs"][k] if has_blobs else None})
                            if not np.array_equal(res["u"][k], s.state.get_history("u", k)):
                                bad.append(f"{tag}results() batch {k} differs from get_history('u', {k})")
                    # returned to the user
                    for res_, trim_ in ((False, True), (True, True), (True, False), (False, False)):
                        out = s.posterior(return_blobs=has_blobs, return_logw=True, resample=res_, trim_importance_weights=trim_)
                        xs, ws, ls = out[0], out[1], out[2]
                        where = f"{tag}posterior(resample={res_}, trim_importance_weights={trim_})"
                        if has_blobs and len(out) != 5:
                            bad.append(f"{where}: return_blobs=True returned no blobs although the likelihood has blobs")
                            break
                        for i in range(len(xs)):
                            if L1(xs[i]) != ls[i] or not np.isfinite(ls[i]):
                                bad.append(f"{where}: row {i} logl != L(x) (or infinite)")
                                break
                            if has_blobs and (len(out[3]) != len(xs) or not blob_ok(out[3][i], xs[i])):
                                bad.append(f"{where}: row {i} blob != blob(x)")
                                break
                        if bad:
                            break
                readback()
                # ---- operation sequences on ONE sampler object that has already been used (a finished / queried sampler keeps
                # whatever it caches about its own history): a foreign or an earlier state is loaded INTO it, then everything is
                # read back and the run goes on.  Lengths are chosen so that nothing can fail on a shape.
                if sequence is not None and not bad:
                    import os
                    import tempfile
                    fd, path = tempfile.mkstemp(suffix=".state")
                    os.close(fd)
                    try:
                        s.save_state(path)
                        if sequence == "reload_earlier":
                            # go on for two iterations, query, then load the earlier checkpoint back into the same object
                            s.sample()
                            s.sample()
                            s.posterior(return_blobs=has_blobs)
                            s.load_state(path)
                        else:
                            s1 = s
                            s = make()
                            core = s._core
                            instrument(core)
                            np.random.seed(seed + 1)
                            core._initialize_fresh()
                            for _ in range(6):
                                s.sample()                      # its own, different, history of the same length
                            if rng.random() < 0.7:
                                s.state.compute_logw_and_logz(1.0)       # what run()'s epilogue leaves behind
                            else:
                                s.posterior(return_blobs=has_blobs)
                            if sequence == "load_into_used":
                                s.load_state(path)
                            else:                               # run(resume_state_path=…) on the used object
                                s.run(n_total=8, progress=False, resume_state_path=path)
                    finally:
                        for q in (path, path + ".temp"):
                            if os.path.exists(q):
                                os.remove(q)
                    core = s._core
                    verify(f"[{sequence}] current set after the load")
                    readback(f"[{sequence}] ")
                    if not bad:
                        for _ in range(2):
                            ret = s.sample()
                            verify(f"[{sequence}] after commit")
                            verify(f"[{sequence}] dictionary returned by sample()", ret)
                        readback(f"[{sequence}, two iterations later] ")
        except Exception as e:  # noqa
            # crashes are other properties' business (C18); not a coherence violation — but a run that raised checked
            # nothing after that point, so it is made visible in the evidence histogram
            cfg["raised"] = f"{type(e).__name__}: {str(e)[:80]}"
        if bad:
            found.append({"what": bad[0], "config": cfg, "seed": seed})
            if len(found) >= stop_after:
                break
    return found


def search(tier, hints):
    rng = common.rng_for("C07.search")
    found = _oracle_sequences(rng, 150 if tier == "quick" else 1500)
    if len(found) < 3:
        found += c07_sm.oracle_sm(rng, 120 if tier == "quick" else 1200)
    if len(found) < 3 or all(str(f.get("what", "")).startswith("scripted run raised") for f in found):
        found += _oracle_real_runs(rng, 40 if tier == "quick" else 400)
    # a concrete incoherent record is a better failing input than "the real code raised under the scripted randomness"
    found.sort(key=lambda f: str(f.get("what", "")).startswith("scripted run raised"))
    return found


def replay(obj):
    f = obj.get("failing_input", obj)
    if "witness" in f.get("replay", {}):
        from . import witnesses
        return witnesses.ALL[f["replay"]["witness"]]()
    rng = common.rng_for("C07.search")
    found = search("quick", [])
    return {"fails": bool(found), "detail": found[:1]}
