"""C20 clause audit (wave 2): suites added to harness/c20.py.

  ess-property-F     the property's own oracle on the REAL effective_sample_size / compute_ess for every generated vector
                     (bounds with a summation-error allowance, exact value 1 for one particle, binary scaling bit-identical,
                     uniform, zero weights, permutation, logs incl. -inf) -- no model involved
  cess-neginf-T      Model.TrimSites.computeEssE (log-weights with -inf as `none`) at Float vs the real compute_ess
  trim-property      the trimming contract checked on the REAL trim_weights for every generated case (length up to 1e4,
                     dynamic range 1e300, ess > 1, bins = 1, nested results for growing ess)
  volvar-exec-Q      Model.VolVar (the executable Lean model, Rat) vs the real volume_variation on dyadic clouds, all four
                     branches; H_inv of Props.C20.C20_volvar_exec_eq_matrix checked exactly on every case
  volvar-exec-F      the same definition at Float vs the real function on generic clouds
  callsite-train     Trainer.run on a live sampler state: arguments of trim_weights, rows/weights handed to the fitting
                     routines, in-place normalisation seen by the Resampler, vs Model.TrimSites.trainerRun
  callsite-metric    Reweighter._compute_metric_and_weights on live sampler states vs Model.TrimSites.metricAndWeights
"""
import math
import warnings
from fractions import Fraction

import numpy as np

from . import common
from .common import Corr, f2hex, hex2f, frac2s, flist, parse_list

EPS = 2.0 ** -52


def _c20():
    from . import c20
    return c20


def _tools():
    import tempest.tools as t
    return t


class _Quiet:
    def __enter__(self):
        self.cm = warnings.catch_warnings()
        self.cm.__enter__()
        warnings.simplefilter("ignore")
        self.err = np.seterr(all="ignore")
        return self

    def __exit__(self, *a):
        np.seterr(**self.err)
        self.cm.__exit__(None, None, None)


def _tol(n):
    """relative allowance for the float evaluation of 1/sum((w/sum w)^2): every sum of n non-negative terms is within n*eps of
    the exact sum whatever the order of summation; squares, quotients and the reciprocal add a handful of eps"""
    return (4.0 * n + 16.0) * EPS


# =============================================================================== ESS: property oracle on the real code
def ess_property(w):
    """None, or what is wrong with effective_sample_size / compute_ess on the non-negative vector w (positive sum).
       Also returns the tags that describe the case (for the histogram)."""
    t = _tools()
    tags = []
    a = np.array(w, dtype=float)
    n = len(w)
    tol = _tol(n)
    with _Quiet():
        v = float(t.effective_sample_size(a.copy()))
        if not math.isfinite(v):
            return f"effective_sample_size = {v!r} (not finite)", tags
        if not (1.0 - tol <= v <= n * (1.0 + tol)):
            return f"effective_sample_size = {v!r} outside [1, N={n}] (allowance {tol:.3g})", tags
        if v > n:
            tags.append("float:ess>N(by ulps)")
        if v < 1.0:
            tags.append("float:ess<1(by ulps)")
        if n == 1:
            tags.append("single")
            if v != 1.0:
                return f"single particle: effective_sample_size = {v!r}, not exactly 1", tags
        pos = a[a > 0]
        if pos.size == 1:
            tags.append("one-nonzero")
            if abs(v - 1.0) > tol:
                return f"one non-zero weight: effective_sample_size = {v!r}", tags
        if np.all(a == a[0]):
            tags.append("uniform")
            if abs(v - n) > tol * n:
                return f"uniform weights: effective_sample_size = {v!r}, N = {n}", tags
        # zero-weight samples do not count (C20_ess_zeros); order does not matter (C20_ess_perm)
        if pos.size < n:
            tags.append("has-zeros")
            v0 = float(t.effective_sample_size(pos.copy()))
            if abs(v - v0) > 2 * tol * max(v, v0):
                return f"zero weights change the ESS: {v!r} with, {v0!r} without", tags
            if v > pos.size * (1.0 + tol):
                return f"effective_sample_size = {v!r} exceeds the number of non-zero weights {pos.size}", tags
        vr = float(t.effective_sample_size(a[::-1].copy()))
        if abs(v - vr) > 2 * tol * max(v, vr):
            return f"order dependent: {v!r} vs reversed {vr!r}", tags
        # binary scaling: bit-identical while nothing overflows or becomes subnormal (C20_round_ess_scale)
        amax, amin = float(a.max()), float(pos.min())
        for k in (1, -1, 10, -37, 200, -200):
            c = 2.0 ** k
            if amax * c * n < 2.0 ** 1020 and amin * c > 2.0 ** -1000 and amin > 2.0 ** -1000 and amax * n < 2.0 ** 1020:
                v2 = float(t.effective_sample_size(a * c))
                if f2hex(v2) != f2hex(v):
                    return f"binary scaling 2^{k} changed the computed ESS: {v!r} -> {v2!r}", tags
                tags.append("pow2-scale-exact")
        for c in (3.7, 1e-5, 1e40, 0.3):
            if amax * c * n < 1e300 and amin * c > 1e-290:
                v2 = float(t.effective_sample_size(a * c))
                if abs(v - v2) > 3 * tol * max(v, v2):
                    return f"not scale invariant: ess(w) = {v!r}, ess({c} w) = {v2!r}", tags
        # the same weights given as logs (zeros as -inf)
        lw = np.array([math.log(x) if x > 0 else -math.inf for x in w])
        ce = float(t.compute_ess(lw.copy()))
        if not (abs(ce * n - v) <= 1e-9 * v):
            return f"compute_ess(log w) * N = {ce * n!r} but effective_sample_size(w) = {v!r}", tags
        if not ((1.0 / n) * (1 - 1e-9) <= ce <= 1 + 1e-9):
            return f"compute_ess = {ce!r} outside [1/N, 1]", tags
        if n == 1 and ce != 1.0:
            return f"single particle: compute_ess = {ce!r}, not exactly 1", tags
        if np.isneginf(lw).any():
            tags.append("logw-has-neginf")
        for sh in (5.0, -300.0, 1e4):
            ce2 = float(t.compute_ess(lw + sh))
            if not (abs(ce - ce2) <= 1e-8 * ce):
                return f"compute_ess not shift invariant: {ce!r} vs {ce2!r} (shift {sh})", tags
    return None, tags


def _ess_cases(tier, rng):
    c20 = _c20()
    fixed = [[1.0], [5e-324], [1e300], [1e-300], [1.0, 1.0], [0.25] * 7, [1.0, 0.0, 0.0], [0.0, 0.0, 3.5],
             [1e300, 1e300, 1.0], [1e-300, 1e-300], [3.0, 1.0, 2.0, 0.0], [1e300, 1e-300], [1e150, 1e-150, 1.0],
             [0.1] * 3, [0.1] * 10, [1.0 / 3] * 3, [7.0] * 1000]
    n_rand = 500 if tier == "quick" else 6000
    out = [("fixed", w) for w in fixed]
    for _ in range(n_rand):
        n = c20._len(rng)
        out.append(c20._weights(rng, n))
    # full-length vectors of the quantifier (1e4) in every family
    for fam in (["loguni", "zeros", "dominant", "uniform", "temper"] if tier == "quick" else
                ["loguni", "zeros", "dominant", "uniform", "ties", "temper", "lognormal"] * 3):
        for _ in range(50):
            f, w = c20._weights(rng, 10000)
            if f == fam:
                out.append((f, w))
                break
    return out


def suite_ess_property(tier):
    rng = common.rng_for("C20.essP")
    c = Corr("ess-property-F", "exact oracle on the real code (no model): bounds with a (4N+16)eps allowance, exact 1 for one "
             "particle, bit-identical under binary scaling, zeros / order / logs")
    for fam, w in _ess_cases(tier, rng):
        n = len(w)
        c.case([f2hex(x) for x in w[:64]] + [n], n >= 2 and not all(x == w[0] for x in w))
        c.count("fam:" + fam)
        c.count("n=1" if n == 1 else ("n>=10000" if n >= 10000 else ("n>1000" if n > 1000 else "n<=1000")))
        try:
            msg, tags = ess_property(w)
        except Exception as ex:  # noqa
            msg, tags = f"raised {type(ex).__name__}: {ex}", []
        for tg in tags:
            c.count(tg)
        if msg:
            c.disagree(kind="ess", w_hex=[f2hex(x) for x in w], impl=msg, model="the property")
        c.sample({"n": n, "fam": fam, "tags": tags})
    return c


def suite_cess_neginf(tier, drv):
    """computeEssE (Option-valued log-weights) at Float vs the real compute_ess"""
    t = _tools()
    c20 = _c20()
    rng = common.rng_for("C20.cessE")
    c = Corr("cess-neginf-T", "toleranced (Float model with -inf as `none` vs numpy)")
    n_cases = 150 if tier == "quick" else 2000
    lines, meta = [], []
    with _Quiet():
        for i in range(n_cases):
            n = rng.randint(1, 60)
            lw = [(-math.inf if rng.random() < 0.4 else rng.gauss(0, 10.0 ** rng.uniform(-1, 2.5)) + rng.choice([0.0, 700.0, -745.0, 1e4]))
                  for _ in range(n)]
            if i % 10 == 0:
                lw = [-math.inf] * n          # all -inf: nan in the code, `none` in the model
            v = c20._call(t.compute_ess, np.array(lw, dtype=float))
            lines.append(f"cess.E logw={flist(lw, f2hex)}")
            meta.append((lw, v))
            c.case([f2hex(x) for x in lw], n >= 2)
            c.count("all-neginf" if all(x == -math.inf for x in lw) else ("some-neginf" if any(x == -math.inf for x in lw) else "finite"))
    for (lw, v), line, ans in zip(meta, lines, drv.batch(lines)):
        if ans == "none":
            ok = math.isnan(v)
        else:
            try:
                ok = c20._close(hex2f(ans), v)
            except ValueError:
                ok = False
        if not ok:
            c.disagree(kind="cess", logw_hex=[f2hex(x) for x in lw], impl=v, model=ans)
        c.sample({"op": line[:160], "impl": v, "model": ans})
    return c


# =============================================================================== trimming: property oracle on the real code
def trim_property(w, ess, bins):
    """None or what is wrong with the REAL trim_weights(samples, w, ess, bins); tags for the histogram"""
    c20 = _c20()
    t = _tools()
    tags = []
    msg = c20.oracle_trim(w, ess, bins)
    if msg:
        return msg, tags
    n = len(w)
    s, wt, wc = c20._run_trim(w, ess, bins)
    kept = [int(i) for i in s.tolist()]
    with _Quiet():
        e1 = float(t.effective_sample_size(wt.copy()))
        e0 = float(t.effective_sample_size(np.array(w, dtype=float)))
    tol = _tol(n)
    if e1 > e0 * (1 + 4 * tol):
        return f"trimming raised the ESS: ESS(trimmed) = {e1!r} > ESS(all) = {e0!r}", tags
    if len(kept) < n:
        tags.append("trimmed")
    if ess > 1.0 or bins == 1:
        tags.append("ess>1" if ess > 1.0 else "bins=1")
        if kept != list(range(n)):
            return f"ess={ess}, bins={bins}: {n - len(kept)} samples were trimmed although nothing may be", tags
    # one-dimensional / integer samples and 2-D samples give the same selection
    s2, wt2, _ = c20._run_trim(w, ess, bins, two_d=True)
    if s2[:, 0].astype(int).tolist() != kept or not np.array_equal(wt2, wt):
        return "2-D samples are selected differently from 1-D samples", tags
    # binary scaling: same selection, bit-identical weights (C20_trim_scale_invariant + C20_round_ess_scale's argument)
    a = np.array(w, dtype=float)
    pos = a[a > 0]
    if float(a.max()) * n < 2.0 ** 900 and float(pos.min()) > 2.0 ** -900:
        for k in (20, -20):
            s4, wt4, _ = c20._run_trim((a * 2.0 ** k).tolist(), ess, bins)
            if s4.tolist() != s.tolist() or not np.array_equal(wt4, wt):
                return f"scaling the weights by 2^{k} changed the result of trim_weights", tags
        tags.append("pow2-scale-exact")
    # nested results: asking for a larger fraction never drops a sample that a smaller fraction kept ... the other way round
    if ess < 0.98:
        hi = min(0.999, ess + 0.3 * (1 - ess) + 0.01)
        s3, _, _ = c20._run_trim(w, hi, bins)
        if not set(kept) <= set(int(i) for i in s3.tolist()):
            return f"kept(ess={ess}) is not a subset of kept(ess={hi})", tags
        tags.append("nested-checked")
    return None, tags


def unnormalised_trim_cases(rng, k):
    """weights whose sum is far from one: raw importance ratios exp(logw) (tiny or huge total mass), plain rand(n),
    weights relative to the largest / smallest one, overall scales 1e-40 .. 1e40 -- trim_weights normalises its input itself,
    so the whole contract (in particular ESS(trimmed) >= ess * ESS(all)) must hold for them"""
    out = []
    for i in range(k):
        n = rng.randint(2, 40) if i % 4 == 0 else rng.randint(41, 700)
        fam = rng.choice(["exp-logw", "exp-logw", "rand", "rel-max", "rel-min", "temper", "lognormal"])
        if fam == "exp-logw":
            sd = 10.0 ** rng.uniform(-0.5, 1.0)
            sh = rng.choice([0.0, -50.0, -300.0, 40.0, 300.0])
            w = [math.exp(max(-700.0, min(700.0, sd * rng.gauss(0, 1) + sh))) for _ in range(n)]
        elif fam == "rand":
            w = [rng.random() for _ in range(n)]
        elif fam in ("rel-max", "rel-min"):
            base = [math.exp(rng.gauss(0, 2.0)) for _ in range(n)]
            ref = max(base) if fam == "rel-max" else min(base)
            w = [x / ref for x in base]
        elif fam == "temper":
            kk = 10.0 ** rng.uniform(-3, 0)
            w = [math.exp(-kk * r) for r in range(n)]
            rng.shuffle(w)
        else:
            sg = rng.uniform(0.3, 3)
            w = [math.exp(sg * rng.gauss(0, 1)) for _ in range(n)]
        sc = 10.0 ** rng.choice([0, 0, -40, 40, -12, 7, -3, 2])
        w = [min(x * sc, 1e300) for x in w]
        if not any(x > 0 for x in w):
            w[0] = 1.0
        if rng.random() < 0.6:
            out.append((w, rng.choice([0.99, 0.99, 0.999, 0.9]), 1000))
        else:
            out.append((w, rng.choice([0.3, 0.5, 0.9, 0.99, 0.999]), rng.choice([2, 3, 10, 100, 1000])))
    return out


_GRID_BINS = [128, 250, 256, 512, 1024, 150, 130, 41, 47, 63, 97, 333, 777, 1001]


def grid_trim_cases(rng, k):
    """many grid sizes (not only 1000 and the small ones) x ess in {0.9, 0.99, 0.999, 1.0} x weight vectors that need (almost)
    every sample to keep the requested ESS fraction: nearly flat, mildly dispersed, very short"""
    out = []
    for i in range(k):
        bins = _GRID_BINS[i % len(_GRID_BINS)] if i % 3 else rng.randint(21, 1100)
        ess = [0.9, 0.99, 0.999, 1.0][(i // 2) % 4]
        fam = ["flat", "mild", "short", "flat"][i % 4]
        if fam == "flat":
            n = rng.randint(50, 500)
            a = 10.0 ** rng.uniform(-4, -0.7)
            w = [1.0 + a * rng.random() for _ in range(n)]
        elif fam == "mild":
            n = rng.randint(50, 500)
            sg = rng.uniform(0.02, 0.3)
            w = [math.exp(sg * rng.gauss(0, 1)) for _ in range(n)]
        else:
            n = rng.randint(1, 12)
            w = [rng.choice([1.0, 1.0, 1.0 + rng.random()]) for _ in range(n)]
        sc = rng.choice([1.0, 1.0, 1e-20, 1e20])
        out.append(([x * sc for x in w], ess, bins))
    return out


def _trim_cases(tier, rng):
    c20 = _c20()
    cases = [([1.0, 1.0, 1.0, 1.0], 0.99, 1000), ([0.5, 0.5], 0.5, 1), ([1.0], 0.99, 1000), ([1.0, 2.0, 3.0, 4.0], 0.9, 5),
             ([0.75, 0.4375, 0.1875], 1.0, 1000), ([1.0, 2.0, 3.0], 512.0, 10),
             ([math.exp(-0.5 * r) for r in range(50)], 0.99, 1000), ([2.0 ** (-r) for r in range(20)] + [0.0] * 5, 0.9, 100),
             ([1e300, 1.0, 1e-300, 1e300], 0.9, 10), ([1e-300, 2e-300, 0.0], 0.5, 3)]
    n_rand = 220 if tier == "quick" else 3000
    for _ in range(n_rand):
        k = rng.random()
        n = rng.randint(1, 40) if k < 0.3 else (rng.randint(41, 600) if k < 0.9 else rng.randint(601, 2500))
        _, w = c20._trim_weights_T(rng, n)
        if rng.random() < 0.15:
            # dynamic range of the quantifier inside ONE vector
            w = [x * 10.0 ** rng.uniform(-280, 280) if rng.random() < 0.3 else x for x in w]
            w = [min(x, 1e300) for x in w]
            if not any(x > 0 for x in w):
                w[0] = 1.0
        r = rng.random()
        if r < 0.45:
            cases.append((w, 0.99, 1000))
        elif r < 0.55:
            cases.append((w, rng.choice([1.0, 1.5, 512.0]), rng.choice([2, 10, 100, 1000])))
        elif r < 0.62:
            cases.append((w, rng.choice([0.5, 0.9, 0.99]), 1))
        else:
            cases.append((w, rng.choice([0.05, 0.3, 0.5, 0.9, 0.99, 0.999]), rng.choice([2, 3, 10, 100, 1000])))
    cases += unnormalised_trim_cases(rng, 36 if tier == "quick" else 600)
    cases += grid_trim_cases(rng, 42 if tier == "quick" else 600)
    # the full length of the quantifier with the sampler's constants
    for _ in range(2 if tier == "quick" else 12):
        _, w = c20._trim_weights_T(rng, 10000)
        cases.append((w, 0.99, 1000))
    return cases


def suite_trim_property(tier):
    rng = common.rng_for("C20.trimP")
    c = Corr("trim-property", "exact oracle on the real code (no model): upper set, alignment, normalisation, "
             "ESS(trimmed) in [ess*ESS(all)(1-1e-12), ESS(all)], ess>1 / bins=1 keep everything, nested in ess")
    for w, ess, bins in _trim_cases(tier, rng):
        n = len(w)
        c.case(([f2hex(x) for x in w[:64]], n, ess, bins), n >= 2)
        c.count("n>=10000" if n >= 10000 else ("n>600" if n > 600 else "n<=600"))
        c.count("sampler-constants" if (ess, bins) == (0.99, 1000) else "other-constants")
        c.count("bins:" + ("1" if bins == 1 else "2-20" if bins <= 20 else "21-200" if bins <= 200 else "1000" if bins == 1000 else "201-1100"))
        sw = float(np.sum(np.array(w, dtype=float)))
        c.count("sum(w)~1" if abs(sw - 1.0) < 1e-6 else ("sum(w)<1e-6" if sw < 1e-6 else ("sum(w)>1e6" if sw > 1e6 else "sum(w)!=1")))
        try:
            msg, tags = trim_property(w, ess, bins)
        except Exception as ex:  # noqa
            msg, tags = f"raised {type(ex).__name__}: {ex}", []
        for tg in tags:
            c.count(tg)
        if msg:
            c.disagree(kind="trim", w_hex=[f2hex(x) for x in w], ess=ess, bins=bins, impl=msg, model="the property")
        c.sample({"n": n, "ess": ess, "bins": bins, "tags": tags})
    return c


# =============================================================================== volume metric: executable Lean model
def _exact_cov(x, w):
    """weighted mean-centred data and covariance in exact rational arithmetic"""
    n, d = len(x), len(x[0])
    sw = sum(w)
    wn = [t / sw for t in w]
    mean = [sum(wn[i] * x[i][k] for i in range(n)) for k in range(d)]
    xc = [[x[i][k] - mean[k] for k in range(d)] for i in range(n)]
    S = [[sum(wn[i] * xc[i][a] * xc[i][b] for i in range(n)) for b in range(d)] for a in range(d)]
    return wn, xc, S


def _observed_branch(x, w):
    """(value, branch) of the real volume_variation, the branch read off numpy's answers inside the call"""
    t = _tools()
    seen = {}
    real_rank, real_inv = np.linalg.matrix_rank, np.linalg.inv

    def rank_spy(a, *k, **kw):
        r = real_rank(a, *k, **kw)
        seen["rank"] = int(r)
        seen["d"] = a.shape[0]
        return r

    def inv_spy(a, *k, **kw):
        try:
            r = real_inv(a, *k, **kw)
        except np.linalg.LinAlgError:
            seen["inv"] = "raised"
            raise
        seen["inv"] = "ok"
        return r
    with _Quiet(), common.patched(np.linalg, "matrix_rank", rank_spy), common.patched(np.linalg, "inv", inv_spy):
        try:
            v = float(t.volume_variation(np.array(x, dtype=float), None if w is None else np.array(w, dtype=float)))
        except Exception as ex:  # noqa
            return math.nan, f"raised {type(ex).__name__}"
    if "rank" not in seen:
        br = "tooFew"
    elif seen.get("inv") == "raised":
        br = "singular"
    elif seen["rank"] < seen["d"]:
        br = "ridge"
    else:
        br = "main"
    return v, br


def _cloud(rng, tier):
    c20 = _c20()
    d = rng.randint(1, 4)
    k = rng.random()
    if k < 0.55:
        kind, n = "full", rng.randint(d + 1, 5 * d + 20)
    elif k < 0.67:
        kind, n = "const-col", rng.randint(d + 1, 20)
    elif k < 0.79:
        kind, n = "hyperplane", rng.randint(d + 1, 20)
    elif k < 0.87:
        kind, n = "identical", rng.randint(d + 1, 8)
    elif k < 0.93:
        kind, n = "zero-weight-off-plane", rng.randint(d + 2, 12)
    else:
        kind, n = "too-few", rng.randint(1, d)
    x, ks = c20._dyadic_cloud(rng, n, d, "const-col" if kind == "const-col" else ("identical" if kind == "identical" else "full"))
    if kind == "hyperplane" and d >= 2:
        cs = [rng.choice([-2, -1, 1, 2, Fraction(1, 2)]) for _ in range(d - 1)]
        for row in x:
            row[d - 1] = sum(cc * v for cc, v in zip(cs, row[:d - 1])) + 3
    if kind in ("const-col", "hyperplane") and d == 1:
        kind = "identical"
        x = [list(x[0]) for _ in range(n)]
    if kind not in ("full", "too-few", "zero-weight-off-plane") and ks is None:
        # degenerate clouds are compared only where the float computation of mean and covariance is EXACT (dyadic weights with a
        # power-of-two sum): with e.g. 11 identical points and uniform weights 1/11 the rounded mean is off by an ulp, the
        # covariance comes out as 8e-31 instead of 0 and numpy's rank test calls it regular (the code then returns ~3e-17
        # instead of 1e10) -- rounding noise, outside the statement
        m = 3
        while 2 ** m < n:
            m += 1
        ks = [1] * n
        for _ in range(2 ** m - n):
            ks[rng.randrange(n)] += 1
    if kind == "zero-weight-off-plane":
        # all points but one on a coordinate hyperplane; the odd one carries weight ZERO: the covariance is singular although
        # the cloud is not (C20_volvar_ridge_iff speaks about the positively weighted points only)
        j = rng.randrange(d)
        for row in x[1:]:
            row[j] = Fraction(1)
        x[0][j] = Fraction(5)
        m = 4
        while 2 ** m < n:
            m += 1
        ks = [0] + [1] * (n - 1)
        for _ in range(2 ** m - (n - 1)):
            ks[rng.randrange(1, n)] += 1
        if d == 1:
            kind = "identical-by-weight"
    return kind, n, d, x, ks


def suite_volvar_exec(tier, drv):
    c20 = _c20()
    rng = common.rng_for("C20.volvarX")
    cq = Corr("volvar-exec-Q", "exact-dyadic input (Rat model `Model.VolVar.out`: branch exact, value 1e-9 on every "
              "branch); H_inv (model inverse = exact inverse, `none` iff exactly singular) checked in rational arithmetic")
    n_q = 160 if tier == "quick" else 1500
    lines, meta = [], []
    F = Fraction
    witness = [("ridge-witness", 4, 3, [[F(1), F(0), F(0)], [F(-1), F(0), F(0)], [F(0), F(1), F(0)], [F(0), F(-1), F(0)]], [1, 1, 1, 1]),
               ("ridge-witness", 4, 3, [[F(2), F(0), F(0)], [F(-2), F(0), F(0)], [F(0), F(1), F(0)], [F(0), F(-1), F(0)]], [1, 1, 1, 1])]
    for k in range(n_q):
        kind, n, d, x, ks = witness[k] if k < len(witness) else _cloud(rng, tier)
        wq = [Fraction(1)] * n if ks is None else [Fraction(k) for k in ks]
        wtxt = "none" if ks is None else flist(wq, frac2s)
        lines.append(f"volvar.Q n={n} d={d} x={flist([v for r in x for v in r], frac2s)} w={wtxt}")
        meta.append((kind, n, d, x, ks, wq))
    witness_vals = []
    for (kind, n, d, x, ks, wq), line, ans in zip(meta, lines, drv.batch(lines)):
        cq.case(line, kind != "too-few")
        cq.count("kind:" + kind)
        toks = ans.split(" ")
        xf = [[float(t) for t in r] for r in x]
        wf = None if ks is None else [float(k) for k in ks]
        real, rbranch = _observed_branch(xf, wf)
        if len(toks) != 3:
            cq.disagree(kind="volvar-ref", x=xf, w=wf, impl=real, model=ans[:200], branch=kind)
            continue
        mbranch, rad = toks[0], Fraction(toks[1])
        cq.count("branch:" + mbranch)
        # --- H_inv, exactly
        if n >= d + 1:
            wn, xc, S = _exact_cov(x, wq)
            tr = sum(S[k][k] for k in range(d))
            e = [[Fraction(int(i == j)) for j in range(d)] for i in range(d)]
            sing = any(c20._solve(S, e[k]) is None for k in range(d)) if d else False
            want = "main" if not sing else ("ridge" if tr != 0 else "singular")
            hinv = None
            if mbranch != want:
                hinv = f"model branch {mbranch}, exact arithmetic says {want}"
            elif mbranch in ("main", "ridge"):
                used = S if mbranch == "main" else [[S[a][b] + (Fraction(1, 10 ** 6) * tr if a == b else 0) for b in range(d)] for a in range(d)]
                B = parse_list(toks[2], Fraction)
                B = [B[i * d:(i + 1) * d] for i in range(d)]
                prod = [[sum(used[a][k] * B[k][b] for k in range(d)) for b in range(d)] for a in range(d)]
                if prod != e:
                    hinv = "the model's Gauss-Jordan answer is not the inverse of the matrix it was given"
            if hinv:
                cq.disagree(kind="volvar-ref", x=xf, w=wf, impl="H_inv", model=hinv, branch=kind)
                continue
            cq.count("H_inv-checked")
        mval = 1e10 if mbranch in ("tooFew", "singular") else 0.5 * math.sqrt(rad)
        if rbranch != mbranch:
            if kind in ("hyperplane",):
                cq.near_ties += 1       # numpy's rank test has a tolerance; exactly singular but not axis-aligned
                continue
            cq.disagree(kind="volvar-ref", x=xf, w=wf, impl=[real, rbranch], model=[mval, mbranch], branch=kind)
            continue
        if not c20._close(real, mval, 1e-9):
            cq.disagree(kind="volvar-ref", x=xf, w=wf, impl=[real, rbranch], model=[mval, mbranch], branch=kind)
        cq.sample({"n": n, "d": d, "kind": kind, "branch": mbranch, "impl": real, "model": mval})
        if kind == "ridge-witness":
            # Props.C20.C20_volvar_ridge_not_affine_invariant: the two clouds differ by the map diag(2,1,1) and their values differ
            witness_vals.append(real)
            if len(witness_vals) == 2:
                cq.count("ridge-branch-not-affine-invariant(observed on the real code)" if witness_vals[0] != witness_vals[1]
                         else "ridge-witness-values-equal")

    cf = Corr("volvar-exec-F", "toleranced (the same Lean definition at Float vs numpy/LAPACK; 1e-9*(1+cond) relative)")
    npr = np.random.RandomState(rng.getrandbits(31))
    n_f = 120 if tier == "quick" else 1200
    lines, meta = [], []
    for _ in range(n_f):
        d = rng.randint(1, 6)
        n = rng.randint(d + 1, 8 * d + 40) if rng.random() < 0.9 else rng.randint(1, d)
        x = npr.standard_normal((n, d)) @ c20._cond_matrix(npr, d, 10.0 ** rng.uniform(0, 3)).T + npr.uniform(-5, 5, d)
        r = rng.random()
        if r < 0.2:
            w = None
        elif r < 0.6:
            w = np.exp(npr.uniform(0, math.log(10.0 ** rng.uniform(0, 6)) + 1e-12, n)) * 10.0 ** rng.uniform(-100, 100)
        else:
            w = np.exp(-10.0 ** rng.uniform(-2, 0.3) * np.arange(n))     # tempering-like
            if rng.random() < 0.3:
                w[npr.rand(n) < 0.3] = 0.0
                if not np.any(w > 0):
                    w[0] = 1.0
        lines.append(f"volvar.F n={n} d={d} x={flist(x.ravel().tolist(), f2hex)} w={'none' if w is None else flist(w.tolist(), f2hex)}")
        meta.append((n, d, x, w))
    for (n, d, x, w), line, ans in zip(meta, lines, drv.batch(lines)):
        cf.case(line[:400], n >= d + 1)
        cf.count(f"d={d}")
        cf.count("w=None" if w is None else "weighted")
        toks = ans.split(" ")
        real, rbranch = _observed_branch(x.tolist(), None if w is None else w.tolist())
        if len(toks) != 2:
            cf.disagree(kind="volvar-ref", x=x.tolist(), w=None if w is None else w.tolist(), impl=real, model=ans[:200])
            continue
        cf.count("branch:" + toks[0])
        mval = hex2f(toks[1])
        if n >= d + 1:
            wv = np.ones(n) if w is None else w
            wn = wv / wv.sum()
            xc = x - (x * wn[:, None]).sum(0)
            kS = float(np.linalg.cond(xc.T @ (xc * wn[:, None])))
        else:
            kS = 1.0
        if rbranch != toks[0] or not math.isfinite(kS) or kS > 1e7:
            cf.near_ties += 1           # rank decisions on numerically near-singular covariances are not compared
            continue
        if not c20._close(real, mval, 1e-9 * (1 + kS)):
            cf.disagree(kind="volvar-ref", x=x.tolist(), w=None if w is None else w.tolist(), impl=[real, rbranch], model=[mval, toks[0]])
        cf.sample({"n": n, "d": d, "branch": toks[0], "impl": real, "model": mval})
    return [cq, cf]


# =============================================================================== call sites
class _StubStats:
    """stands in for tempest.steps.train.ModeStatistics while Trainer.run is driven: records what it is handed"""
    calls = []
    K = 1

    def __init__(self, *a, **k):
        pass

    @classmethod
    def from_global(cls, u, weights, **kw):
        cls.calls.append(("from_global", np.array(u, copy=True), np.array(weights, copy=True)))
        return cls()

    @classmethod
    def from_particles(cls, u, weights, labels, **kw):
        cls.calls.append(("from_particles", np.array(u, copy=True), np.array(weights, copy=True)))
        return cls()


class _StubClusterer:
    def __init__(self):
        self.calls = []

    def fit(self, u, w):
        self.calls.append(("fit", np.array(u, copy=True), np.array(w, copy=True)))

    def predict(self, u):
        self.calls.append(("predict", np.array(u, copy=True), None))
        return np.zeros(len(u), dtype=int)


def _live_sampler(seed, clustering, n_particles=24, n_dim=2, vv=None, n_total=48):
    from . import witnesses
    with _Quiet():
        s = witnesses._mk_sampler(clustering=clustering, n_particles=n_particles, random_state=seed, n_dim=n_dim,
                                  volume_variation=vv)
        s.run(n_total=n_total, progress=False)
    return s


class HarnessAbort(Exception):
    """the observation machinery itself failed (not the code under test): a correspondence abort, never a failing input"""


def _raised_in_repo(ex):
    """was the exception raised by a frame of the code under test (and not by one of our spies / stubs)?"""
    import os
    import traceback
    tb = traceback.extract_tb(ex.__traceback__)
    if not tb:
        return False
    root = os.path.realpath(common.REPO) + os.sep
    return os.path.realpath(tb[-1].filename).startswith(root)


def _bind_trim_call(real_trim, a, kw):
    """(samples, weights, ess, bins, extra) of a call of trim_weights, whatever its current signature is; `extra` = every
    further argument of the present source with the value it had in this call"""
    import inspect
    try:
        ba = inspect.signature(real_trim).bind(*a, **kw)
        ba.apply_defaults()
    except TypeError:
        return None      # the call does not fit the function's own signature: the real call below raises the real error
    d = dict(ba.arguments)
    if not {"samples", "weights"} <= set(d):
        raise HarnessAbort(f"trim_weights has no samples/weights parameters any more: {list(d)}")
    extra = {k: v for k, v in d.items() if k not in ("samples", "weights", "ess", "bins")}
    return d["samples"], d["weights"], d.get("ess"), d.get("bins"), extra


def drive_trainer(core, w, beta, clustering, iter_val=0, fitted=False, trainer=None):
    """one real Trainer.run(w) on the populated state of `core`, with the fitting routines stubbed out; `trainer`: the Trainer
       object to use (default the sampler's own) -- consecutive calls on ONE object see whatever it carries between iterations.
       The spy on trim_weights passes every positional and keyword argument through untouched.
       Returns dict(trim_calls, handed, after, early, u_hist)."""
    import tempest.steps.train as train_mod
    tr = trainer if trainer is not None else core.trainer
    sm = core.state
    rec = {"trim_calls": [], "handed": [], "early": False}
    real_trim = train_mod.trim_weights

    def trim_spy(*a, **kw):
        bound = _bind_trim_call(real_trim, a, kw)
        before = None if bound is None else np.array(bound[1], copy=True)
        r = real_trim(*a, **kw)
        if bound is not None:
            samples, weights, ess, bins, extra = bound
            rec["trim_calls"].append(dict(samples=np.array(samples, copy=True), before=before, same_object=weights is w_arr,
                                          ess=ess, bins=bins, extra=extra, idx=np.array(r[0], copy=True), wt=np.array(r[1], copy=True)))
        return r
    w_arr = np.array(w, dtype=float)
    _StubStats.calls = []
    stub_cl = _StubClusterer()
    old = dict(beta=sm.get_current("beta"), it=sm.get_current("iter"), cl=tr.clusterer, clustering=tr.clustering,
               fitted=tr._clusterer_fitted, pbar=tr.pbar)
    try:
        sm.set_current("beta", beta)
        sm.set_current("iter", iter_val)
        tr.clusterer, tr.clustering, tr._clusterer_fitted, tr.pbar = stub_cl, clustering, fitted, None
        with _Quiet(), common.patched(train_mod, "trim_weights", trim_spy), common.patched(train_mod, "ModeStatistics", _StubStats):
            try:
                tr.run(w_arr)
            except HarnessAbort:
                raise
            except Exception as ex:  # noqa
                if not _raised_in_repo(ex):
                    raise HarnessAbort(f"{type(ex).__name__}: {ex}") from ex
                raise
    finally:
        sm.set_current("beta", old["beta"])
        sm.set_current("iter", old["it"])
        tr.clusterer, tr.clustering, tr._clusterer_fitted, tr.pbar = old["cl"], old["clustering"], old["fitted"], old["pbar"]
    rec["early"] = not rec["trim_calls"]
    rec["handed"] = [(k, u, ww) for k, u, ww in list(_StubStats.calls) + stub_cl.calls if ww is not None]
    rec["predict"] = [u for k, u, ww in stub_cl.calls if k == "predict"]
    rec["after"] = w_arr
    rec["u_hist"] = np.array(sm.get_history("u", flat=True), copy=True)
    rec["TRIM"] = (tr.TRIM_ESS, tr.TRIM_BINS)
    return rec


def _show_extra(extra):
    return ", ".join(f"{k}={v!r}" for k, v in sorted(extra.items())) if extra else ""


def judge_trim_result(w_before, ess, idx, wt, extra=None):
    """the trimming contract for ONE observed call trim_weights(arange(n), w_before, ess, ...) -> (idx, wt), whatever further
    arguments the call carried: non-empty increasing index list, weights normalised and aligned with w_before[idx], exactly an
    upper set, ESS(wt) >= min(ess, 1) * ESS(w_before) (Kish, computed here)"""
    w0 = np.array(w_before, dtype=float)
    n = len(w0)
    idx = np.asarray(idx).astype(int)
    wt = np.asarray(wt, dtype=float)
    how = f" [call: ess={ess!r}{', ' + _show_extra(extra) if extra else ''}]"
    if idx.size == 0 or idx.size != wt.size:
        return f"{idx.size} indices, {wt.size} weights returned" + how
    if np.any(np.diff(idx) <= 0) or idx.min() < 0 or idx.max() >= n:
        return "kept indices are not an increasing sublist of range(n)" + how
    if abs(float(np.sum(wt)) - 1.0) > 1e-9 or np.any(wt < 0):
        return f"returned weights not normalised: sum = {float(np.sum(wt))!r}" + how
    with _Quiet():
        wn = w0 / np.sum(w0)
    kept = np.zeros(n, dtype=bool)
    kept[idx] = True
    if np.any(~kept & (w0 >= w0[kept].min()) & (wn >= wn[kept].min())):
        return "kept set is not an upper set of the weights" + how
    if not np.allclose(wt * float(np.sum(wn[kept])), wn[kept], rtol=1e-11, atol=0.0):
        return "returned weights are not the kept weights renormalised (misaligned)" + how
    k0 = 1.0 / float(np.sum(wn ** 2.0))
    k1 = 1.0 / float(np.sum((wt / np.sum(wt)) ** 2.0))
    f = min(float(ess), 1.0)
    if not (k1 >= f * k0 * (1 - 1e-9)):
        return (f"ESS guarantee broken: ESS(trimmed) = {k1!r} < {f} * ESS(all) = {f * k0!r} (ratio {k1 / k0:.6f}, "
                f"{idx.size} of {n} kept)" + how)
    return None


def trainer_site_property(rec, w):
    """the call-site property on the REAL code alone (no model): what was handed to the fitting routines is the upper set of
    (history row, weight) pairs under one threshold, aligned, normalised; the caller's array was normalised in place"""
    import tempest.config as cfg
    w0 = np.array(w, dtype=float)
    if rec["early"]:
        if not np.array_equal(rec["after"], w0):
            return "beta == 0: the caller's weights were modified"
        if rec["handed"]:
            return "beta == 0: a fitting routine was called"
        return None
    if len(rec["trim_calls"]) != 1:
        return f"trim_weights called {len(rec['trim_calls'])} times"
    tc = rec["trim_calls"][0]
    n = len(w0)
    if not (tc["samples"].shape == (n,) and np.array_equal(tc["samples"], np.arange(n))):
        return "trim_weights was not given np.arange(len(weights)) as samples"
    if not np.array_equal(tc["before"], w0):
        return "trim_weights was not given the caller's weights"
    if tc["ess"] != rec["TRIM"][0] or rec["TRIM"] != (cfg.TRIM_ESS, cfg.TRIM_BINS):
        return f"trim_weights called with ess={tc['ess']!r}, bins={tc['bins']!r}; config has {cfg.TRIM_ESS!r}, {cfg.TRIM_BINS!r}"
    if not tc.get("extra") and tc["bins"] != rec["TRIM"][1]:
        return f"trim_weights called with bins={tc['bins']!r}; config has {cfg.TRIM_BINS!r}"
    if not (0 < cfg.TRIM_ESS <= 1 and cfg.TRIM_BINS >= 1):
        return f"config constants outside the contract: TRIM_ESS={cfg.TRIM_ESS!r}, TRIM_BINS={cfg.TRIM_BINS!r}"
    # the contract of THIS call, with every argument it carried (also arguments the model does not know)
    msg = judge_trim_result(tc["before"], tc["ess"], tc["idx"], tc["wt"], tc.get("extra"))
    if msg:
        return "Trainer.run -> trim_weights: " + msg
    wn = w0 / np.sum(w0)
    if not (np.allclose(rec["after"], wn, rtol=1e-12, atol=1e-300) or np.array_equal(rec["after"], w0)):
        return "after the call the caller's weights are neither untouched nor w/sum(w)"
    if not rec["handed"]:
        return "no fitting routine was handed any data"
    idx = tc["idx"].astype(int)
    kept = np.zeros(n, dtype=bool)
    kept[idx] = True
    if idx.size == 0 or np.any(np.diff(idx) <= 0):
        return "kept indices are not an increasing non-empty list"
    if np.any(wn[~kept] >= wn[kept].min() * (1 + 1e-12)):
        return "kept set is not an upper set of the weights"
    uh = rec["u_hist"]
    if len(uh) != n:
        return f"history has {len(uh)} rows but {n} weights were passed"
    for kind, u, ww in rec["handed"]:
        if u.shape != uh[idx].shape or not np.array_equal(u, uh[idx]):
            return f"{kind}: rows handed over are not the history rows at the kept indices (misaligned)"
        if ww.shape != (idx.size,) or not np.allclose(ww * np.sum(wn[idx]), wn[idx], rtol=1e-12, atol=0.0):
            return f"{kind}: weights handed over are not the kept weights renormalised, row by row"
        if abs(float(np.sum(ww)) - 1.0) > 1e-9:
            return f"{kind}: weights handed over sum to {float(np.sum(ww))!r}"
    for u in rec["predict"]:
        if not np.array_equal(u, uh[idx]):
            return "predict: rows are not the history rows at the kept indices"
    return None


def _site_weights(rng, n):
    c20 = _c20()
    fam, w = c20._trim_weights_T(rng, n)
    return fam, w


def _profile(rng, n, kind):
    """one weight vector over the n history rows with a given degree of concentration"""
    if kind == "concentrated":
        k = 10.0 ** rng.uniform(-1.6, -0.3)
        w = [math.exp(-k * r) for r in range(n)]
        rng.shuffle(w)
    elif kind == "even":
        sg = rng.uniform(0.02, 0.3)
        w = [math.exp(sg * rng.gauss(0, 1)) for _ in range(n)]
    elif kind == "uniform":
        w = [1.0] * n
    elif kind == "spike":
        w = [1e-6 * rng.random() for _ in range(n)]
        for _ in range(rng.randint(1, 4)):
            w[rng.randrange(n)] = 1.0 + rng.random()
    else:
        w = _site_weights(rng, n)[1]
    sc = rng.choice([1.0, 1.0, 1e-30, 1e30])
    return [x * sc for x in w]


_SEQS = [("concentrated", "even"), ("concentrated", "even", "concentrated", "uniform"), ("spike", "even", "mixed"),
         ("even", "concentrated", "even"), ("mixed", "mixed", "mixed"), ("concentrated", "uniform", "spike")]


def profile_sequence(rng, n, k=None):
    kinds = _SEQS[k % len(_SEQS)] if k is not None else rng.choice(_SEQS)
    return kinds, [_profile(rng, n, kd) for kd in kinds]


def _fresh_trainer(core):
    """a copy of the sampler's Trainer in the state the live run left it in: what one call does to the object is not carried into
    the next single-call case (carried state is the business of the sequences, which are replayable as a whole)"""
    import copy
    return copy.copy(core.trainer)


def run_trainer_sequence(core, ws, clustering):
    """2-4 consecutive Trainer.run calls (beta != 0) on ONE fresh copy of the sampler's Trainer object, each judged by the call-site
    property.  Returns (index of the failing call | None, message, records)."""
    tr = _fresh_trainer(core)
    recs = []
    for k, w in enumerate(ws):
        try:
            rec = drive_trainer(core, w, 0.5, clustering, iter_val=k, fitted=k > 0, trainer=tr)
        except HarnessAbort:
            raise
        except Exception as ex:  # noqa
            return k, f"call {k + 1} of {len(ws)} on one Trainer: Trainer.run raised {type(ex).__name__}: {ex}", recs
        recs.append(rec)
        msg = trainer_site_property(rec, w)
        if msg:
            return k, f"call {k + 1} of {len(ws)} on one Trainer: {msg}", recs
    return None, None, recs


def observed_trim_kwargs(recs):
    """the distinct argument sets (ess, bins, further arguments) the Trainer really passed to trim_weights"""
    out = []
    for rec in recs:
        for tc in rec["trim_calls"]:
            key = (tc["ess"], tc["bins"], tuple(sorted((k, repr(v)) for k, v in tc["extra"].items())))
            if key not in [o[0] for o in out]:
                out.append((key, dict(ess=tc["ess"], bins=tc["bins"], extra=dict(tc["extra"]))))
    return [o[1] for o in out]


def direct_trim_with(w, ess, bins, extra):
    """the contract of a DIRECT call trim_weights(arange(n), w, ess=, bins=, **extra) with arguments of the present source"""
    t = _tools()
    wc = np.array(w, dtype=float)
    with _Quiet():
        try:
            idx, wt = t.trim_weights(np.arange(len(w)), wc, ess=ess, bins=bins, **extra)
        except Exception as ex:  # noqa
            if not _raised_in_repo(ex):
                raise HarnessAbort(f"{type(ex).__name__}: {ex}") from ex
            return f"trim_weights raised {type(ex).__name__}: {ex} [call: ess={ess!r}, bins={bins!r}, {_show_extra(extra)}]"
    return judge_trim_result(w, ess, idx, wt, dict(extra, bins=bins))


_SIGNATURES = {"effective_sample_size": "(weights)", "compute_ess": "(logw)",
               "trim_weights": "(samples, weights, ess=0.99, bins=1000)", "volume_variation": "(x, w=None)"}


def _sig_text(fn):
    import inspect
    ps = []
    for name, prm in inspect.signature(fn).parameters.items():
        ps.append(name if prm.default is inspect.Parameter.empty else f"{name}={prm.default!r}")
    return "(" + ", ".join(ps) + ")"


def suite_signatures():
    """the keyword API of the four utilities, as the models (and Props.C20Source.expected_signatures) assume it"""
    t = _tools()
    c = Corr("signatures", "exact (inspect.signature of the real functions vs the modelled parameter lists)")
    for name, want in _SIGNATURES.items():
        got = _sig_text(getattr(t, name))
        c.case((name, got), True)
        c.count(name)
        if got != want:
            c.disagree(kind="signature", function=name, impl=got, model=want)
        c.sample({"function": name, "signature": got})
    return c


def suite_callsite_train(tier, drv):
    import tempest.config as cfg
    c20 = _c20()
    rng = common.rng_for("C20.siteTrain")
    c = Corr("callsite-train", "Trainer.run on live sampler states: trim_weights arguments exact, kept rows exact (index set up "
             "to near ties), handed weights 1e-9, in-place normalisation, vs Model.TrimSites.trainerRun (Float)")
    samplers = [(_live_sampler(11, False), False, 11), (_live_sampler(12, True, n_dim=2), True, 12)]
    if tier != "quick":
        samplers += [(_live_sampler(11, False, n_particles=40, n_dim=3, n_total=120), False, 11)]
    n_cases = 40 if tier == "quick" else 300
    jobs = []
    for s, clustering, sd in samplers:
        core = s._core
        n = len(core.state.get_history("u", flat=True))
        for k in range(n_cases // len(samplers)):
            fam, w = _site_weights(rng, n)
            beta = 0.0 if k % 9 == 0 else rng.choice([0.01, 0.5, 1.0])
            iter_val, fitted = rng.choice([(0, False), (3, True), (3, False), (4, True)])
            try:
                rec = drive_trainer(core, w, beta, clustering, iter_val=iter_val, fitted=fitted, trainer=_fresh_trainer(core))
            except HarnessAbort as ex:
                c.case((fam, k), True)
                c.disagree(kind="harness-abort", impl=f"the instrumented Trainer.run could not be observed: {ex}", model="observable")
                return c
            except Exception as ex:  # noqa
                c.case((fam, k), True)
                c.disagree(kind="site-train", w_hex=[f2hex(x) for x in w], beta=beta, clustering=clustering, seed=sd,
                           impl=f"Trainer.run raised {type(ex).__name__}: {ex}", model="runs")
                continue
            jobs.append((rec, w, beta, clustering, fam, sd))
    lines = [f"site.train.F betazero={int(beta == 0.0)} w={flist(w, f2hex)} ess={f2hex(cfg.TRIM_ESS)} bins={int(cfg.TRIM_BINS)}"
             for rec, w, beta, clustering, fam, sd in jobs]
    for (rec, w, beta, clustering, fam, sd), line, ans in zip(jobs, lines, drv.batch(lines)):
        c.case(line[:600], beta != 0.0)
        c.count("fam:" + fam)
        c.count("beta==0" if beta == 0.0 else "beta!=0")
        c.count("clustering" if clustering else "no-clustering")
        for kind, _, _ in rec["handed"]:
            c.count("handed:" + kind)
        hint = dict(kind="site-train", w_hex=[f2hex(x) for x in w], beta=beta, clustering=clustering, seed=sd)
        msg = trainer_site_property(rec, w)
        if msg:
            c.disagree(impl=msg, model="the call-site property", **hint)
            continue
        toks = ans.split(" ")
        if beta == 0.0:
            if toks[0] != "early" or parse_list(toks[1], hex2f) != [float(x) for x in w]:
                c.disagree(impl="early return, weights untouched", model=ans[:200], **hint)
            continue
        if toks[0] != "fit":
            c.disagree(impl="fit", model=ans[:200], **hint)
            continue
        tags = [int(t) - 1000 for t in parse_list(toks[1], str)]
        mw, after = parse_list(toks[2], hex2f), parse_list(toks[3], hex2f)
        idx = rec["trim_calls"][0]["idx"].astype(int).tolist()
        if tags != idx:
            m_thr, m_ratio = c20._margins(w, cfg.TRIM_ESS, cfg.TRIM_BINS, 0)
            if m_thr < 1e-9 or m_ratio < 1e-9:
                c.near_ties += 1
            else:
                c.disagree(impl=[len(idx), idx[:30]], model=[len(tags), tags[:30]], **hint)
            continue
        kind, u, ww = rec["handed"][0]
        untouched = np.array_equal(rec["after"], np.array(w, dtype=float))
        c.count("caller-array:untouched" if untouched else "caller-array:normalised-in-place")
        if not (len(mw) == len(ww) and all(c20._relclose(a, b) for a, b in zip(ww.tolist(), mw))
                and (untouched or all(c20._relclose(a, b, 1e-12) for a, b in zip(rec["after"].tolist(), after)))):
            c.disagree(impl=[f2hex(x) for x in ww.tolist()[:10]], model=[f2hex(x) for x in mw[:10]], **hint)
        c.sample({"n": len(w), "kept": len(idx), "routine": kind, "beta": beta})
    # sequences of calls on ONE Trainer object (whatever it carries from one iteration to the next is exercised): concentrated
    # weights followed by even ones and the other way round, uniform, spikes; every trim_weights result judged by the contract
    n_seq = 6 if tier == "quick" else 40
    for s, clustering, sd in samplers[:2]:
        core = s._core
        n = len(core.state.get_history("u", flat=True))
        for k in range(n_seq):
            kinds, ws = profile_sequence(rng, n, k)
            c.case(("seq", sd, k, [f2hex(x) for x in ws[0][:8]]), True)
            c.count("sequence:" + ">".join(kinds))
            try:
                bad, msg, recs = run_trainer_sequence(core, ws, clustering)
            except HarnessAbort as ex:
                c.disagree(kind="harness-abort", impl=f"the instrumented Trainer.run could not be observed: {ex}", model="observable")
                return c
            for rec in recs:
                for tc in rec["trim_calls"]:
                    if tc["extra"]:
                        c.count("trim_weights-called-with-further-arguments")
            if msg:
                c.disagree(kind="site-train-seq", seed=sd, clustering=clustering, ws_hex=[[f2hex(x) for x in w] for w in ws[:bad + 1]],
                           impl=msg, model="the call-site property, call after call")
    # the same array object reaches the Resampler (execute_iteration), normalised in place
    for s, clustering, sd in samplers[:2]:
        msg = iteration_object_flow(s, rng)
        c.case(("flow", clustering), True)
        c.count("execute_iteration-object-flow")
        if msg:
            c.disagree(kind="site-flow", clustering=clustering, seed=sd, impl=msg, model="trainer.run and resampler.run receive the array "
                       "reweighter.run returned; at beta != 0 the resampler sees it divided by its sum")
    return c


def iteration_object_flow(s, rng):
    """one real execute_iteration with spies on the three steps (mutation stubbed out)"""
    core = s._core
    seen = {}
    o_rw, o_tr, o_rs, o_mu = core.reweighter.run, core.trainer.run, core.resampler.run, core.mutator.run
    w_fixed = np.array(_site_weights(rng, len(core.state.get_history("u", flat=True)))[1], dtype=float)
    w_fixed = w_fixed / np.sum(w_fixed)          # Reweighter.run returns normalised weights

    def rw_spy():
        seen["w"] = w_fixed
        seen["w_before"] = w_fixed.copy()
        return w_fixed

    def tr_spy(weights):
        seen["train_same"] = weights is seen["w"]
        return o_tr(weights)

    def rs_spy(weights):
        seen["res_same"] = weights is seen["w"]
        seen["res_content"] = np.array(weights, copy=True)
        raise _Stop()

    class _Stop(Exception):
        pass
    import tempest.steps.train as train_mod
    old_beta = core.state.get_current("beta")
    old_cl, old_pbar = core.trainer.clusterer, core.trainer.pbar
    core.reweighter.run, core.trainer.run, core.resampler.run = rw_spy, tr_spy, rs_spy
    try:
        core.state.set_current("beta", 0.5)
        core.trainer.clusterer, core.trainer.pbar = _StubClusterer(), None
        with _Quiet(), common.patched(train_mod, "ModeStatistics", _StubStats):
            try:
                core.execute_iteration(None, 0)
            except _Stop:
                pass
    except Exception as ex:  # noqa
        return f"execute_iteration raised {type(ex).__name__}: {ex}"
    finally:
        core.reweighter.run, core.trainer.run, core.resampler.run, core.mutator.run = o_rw, o_tr, o_rs, o_mu
        core.trainer.clusterer, core.trainer.pbar = old_cl, old_pbar
        core.state.set_current("beta", old_beta)
    if "res_content" not in seen:
        return "the resampler was not reached"
    wn = seen["w_before"] / np.sum(seen["w_before"])
    if seen["res_content"].shape != wn.shape or not np.allclose(seen["res_content"], wn, rtol=1e-12, atol=1e-300):
        return "the resampler did not see the (normalised) weights the reweighter returned"
    return None


def metric_capture(core, beta):
    """one real _compute_metric_and_weights(beta) with the utilities it calls observed"""
    import tempest.steps.reweight as rw_mod
    rw, sm = core.reweighter, core.state
    cap = {}
    o_z, o_e, o_v = sm.compute_logw_and_logz, rw_mod.effective_sample_size, rw_mod.volume_variation

    def z_spy(*a, **k):
        r = o_z(*a, **k)
        cap["logw"] = np.array(r[0], copy=True)
        return r

    def e_spy(wts):
        cap["ess_arg"] = np.array(wts, copy=True)
        return o_e(wts)

    def v_spy(x, w=None):
        cap["vv_args"] = (np.array(x, copy=True), None if w is None else np.array(w, copy=True))
        return o_v(x, w)
    sm.compute_logw_and_logz = z_spy
    try:
        with _Quiet(), common.patched(rw_mod, "effective_sample_size", e_spy), common.patched(rw_mod, "volume_variation", v_spy):
            wts, ess_est, metric = rw._compute_metric_and_weights(beta)
    finally:
        sm.compute_logw_and_logz = o_z
    cap.update(weights=np.array(wts, copy=True), ess=float(ess_est), metric=float(metric),
               u=np.array(sm.get_history("u", flat=True), dtype=float))
    return cap


def metric_site_property(cap, vv):
    """the call-site property on the REAL code alone: the utilities get the weights exp(logw - max) of the whole history and the
    matching rows; the ESS is in [1, N]; the metric is the ESS (ESS mode) or a non-negative volume metric"""
    t = _tools()
    wts, u, lw = cap["weights"], cap["u"], cap["logw"]
    n = len(lw)
    if not np.array_equal(cap.get("ess_arg"), wts):
        return "effective_sample_size was not given the returned weights"
    if not (len(wts) == len(u) == n and np.all(wts >= 0) and float(np.max(wts)) == 1.0):
        return "weights are not exp(logw - max logw) over the whole history (max entry 1, one per history row)"
    with _Quiet():
        ref = np.exp(lw - np.max(lw))
    if not np.allclose(wts, ref, rtol=1e-12, atol=1e-300):
        return "weights are not exp(logw - max logw)"
    if not (1 - _tol(n) <= cap["ess"] <= n * (1 + _tol(n))):
        return f"ess_est = {cap['ess']!r} outside [1, {n}]"
    with _Quiet():
        e_ref = float(t.effective_sample_size(wts.copy()))
    if f2hex(e_ref) != f2hex(cap["ess"]):
        return f"ess_est = {cap['ess']!r} is not effective_sample_size(weights) = {e_ref!r}"
    if vv is None:
        if "vv_args" in cap or f2hex(cap["metric"]) != f2hex(cap["ess"]):
            return "ESS mode: the metric is not the ESS"
    else:
        xa, wa = cap.get("vv_args", (None, None))
        if xa is None or not np.array_equal(xa, u):
            return "volume_variation was not called with the history rows"
        if wa is None or wa.shape != wts.shape or not np.allclose(wa / np.sum(wa), wts / np.sum(wts), rtol=1e-12, atol=1e-300):
            return "volume_variation was not called with weights proportional to exp(logw - max logw), one per history row"
        if not (cap["metric"] >= 0):
            return f"volume metric {cap['metric']!r} negative / nan"
        with _Quiet():
            m_ref = float(t.volume_variation(u, wts.copy()))        # raw weights: same value (weight-scale invariance)
        if not (abs(m_ref - cap["metric"]) <= 1e-9 * (1 + abs(m_ref))):
            return f"metric {cap['metric']!r} differs from volume_variation(u, raw weights) = {m_ref!r}"
    return None


_METRIC_CFGS = [(21, None, 2), (22, 0.3, 2), (23, 0.3, 3), (24, 0.1, 1), (25, None, 3), (26, 0.5, 4)]


def suite_callsite_metric(tier, drv):
    """_compute_metric_and_weights on live states, both modes, vs Model.TrimSites.metricAndWeights (+ Model.VolVar)"""
    c20 = _c20()
    rng = common.rng_for("C20.siteMetric")
    c = Corr("callsite-metric", "toleranced (Float model; weights and ESS 1e-9, volume metric 1e-9*(1+cond)); call arguments exact")
    cfgs = _METRIC_CFGS[:3] if tier == "quick" else _METRIC_CFGS
    lines, meta = [], []
    for seed, vv, d in cfgs:
        s = _live_sampler(seed, False, n_particles=24, n_dim=d, vv=vv, n_total=48)
        for beta in [0.0, 1e-3, 0.05, 0.3, 1.0] + [rng.random() for _ in range(3 if tier == "quick" else 10)]:
            cap = metric_capture(s._core, beta)
            u, lw = cap["u"], cap["logw"]
            lines.append(f"site.metric.F vv={int(vv is not None)} n={len(u)} d={d} x={flist(u.ravel().tolist(), f2hex)} logw={flist(lw.tolist(), f2hex)}")
            meta.append((seed, vv, d, beta, cap))
    for (seed, vv, d, beta, cap), line, ans in zip(meta, lines, drv.batch(lines)):
        c.case((seed, beta), True)
        c.count("mode:" + ("ess" if vv is None else "volume-variation"))
        hint = dict(kind="site-metric", seed=seed, vv=vv, d=d, beta=beta)
        msg = metric_site_property(cap, vv)
        if msg:
            c.disagree(impl=msg, model="the call-site property", **hint)
            continue
        wts, u, ess_est, metric = cap["weights"], cap["u"], cap["ess"], cap["metric"]
        problems = []
        toks = ans.split(" ")
        if len(toks) != 3:
            problems.append(f"model answered {ans[:100]}")
        else:
            mw, me, mm = parse_list(toks[0], hex2f), hex2f(toks[1]), hex2f(toks[2])
            if not (len(mw) == len(wts) and all(c20._close(a, b) for a, b in zip(wts.tolist(), mw))):
                problems.append("weights differ from the model's exp(logw - max)")
            if not c20._close(me, ess_est):
                problems.append(f"ess: impl {ess_est!r} model {me!r}")
            if vv is not None:
                wn = wts / wts.sum()
                xc = u - (u * wn[:, None]).sum(0)
                kS = float(np.linalg.cond(xc.T @ (xc * wn[:, None])))
                if math.isfinite(kS) and kS < 1e7:
                    if not c20._close(mm, metric, 1e-9 * (1 + kS)):
                        problems.append(f"metric: impl {metric!r} model {mm!r}")
                else:
                    c.near_ties += 1
            elif not c20._close(mm, metric):
                problems.append(f"metric: impl {metric!r} model {mm!r}")
        if problems:
            c.disagree(impl="; ".join(problems), model=ans[:120], **hint)
        c.sample({"seed": seed, "vv": vv, "beta": beta, "ess": ess_est, "metric": metric})
    return c


def suites(tier, drv):
    out = [suite_signatures(), suite_ess_property(tier), suite_cess_neginf(tier, drv), suite_trim_property(tier)]
    out += suite_volvar_exec(tier, drv)
    out += [suite_callsite_train(tier, drv), suite_callsite_metric(tier, drv)]
    return out


# =============================================================================== failing-input search (real code only)
def search_sites(tier, add):
    """call-site oracles on the real code; `add(kind, msg, **replay)` returns True when enough was found"""
    rng = common.rng_for("C20.searchSites")
    for seed, clustering in ((11, False), (12, True)):
        try:
            s = _live_sampler(seed, clustering)
        except Exception as ex:  # noqa
            if add("site-train", f"sampler run raised {type(ex).__name__}: {ex}", seed=seed, clustering=clustering, w_hex=[], beta=0.5):
                return True
            continue
        core = s._core
        n = len(core.state.get_history("u", flat=True))
        seen_kwargs = []
        for k in range(12 if tier == "quick" else 60):
            kinds, ws = profile_sequence(rng, n, k)
            try:
                bad, msg, recs = run_trainer_sequence(core, ws, clustering)
            except HarnessAbort:
                break           # our own instrumentation does not fit: nothing can be concluded from it
            for kw in observed_trim_kwargs(recs):
                if kw not in seen_kwargs:
                    seen_kwargs.append(kw)
            if msg and add("site-train-seq", msg, seed=seed, clustering=clustering,
                           ws_hex=[[f2hex(x) for x in w] for w in ws[:bad + 1]]):
                return True
        # every argument set the Trainer was seen to use, applied DIRECTLY to weight vectors of all profiles
        for kw in seen_kwargs:
            if not kw["extra"]:
                continue
            for k in range(40 if tier == "quick" else 200):
                w = _profile(rng, rng.randint(20, 300), rng.choice(["even", "even", "uniform", "concentrated", "mixed"]))
                try:
                    msg = direct_trim_with(w, kw["ess"], kw["bins"], kw["extra"])
                except HarnessAbort:
                    break
                if msg and add("trim-kw", msg, w_hex=[f2hex(x) for x in w], ess=kw["ess"], bins=kw["bins"],
                               extra={kk: (list(v) if isinstance(v, tuple) else v) for kk, v in kw["extra"].items()}):
                    return True
        for k in range(12 if tier == "quick" else 80):
            _, w = _site_weights(rng, n)
            beta = 0.0 if k % 6 == 0 else 0.5
            try:
                msg = trainer_site_property(drive_trainer(core, w, beta, clustering, trainer=_fresh_trainer(core)), w)
            except HarnessAbort:
                break
            except Exception as ex:  # noqa
                msg = f"Trainer.run raised {type(ex).__name__}: {ex}"
            if msg and add("site-train", msg, seed=seed, clustering=clustering, w_hex=[f2hex(x) for x in w], beta=beta):
                return True
        msg = iteration_object_flow(s, rng)
        if msg and add("site-flow", msg, seed=seed, clustering=clustering):
            return True
    for seed, vv, d in _METRIC_CFGS[:3]:
        try:
            s = _live_sampler(seed, False, n_particles=24, n_dim=d, vv=vv, n_total=48)
        except Exception as ex:  # noqa
            if add("site-metric", f"sampler run raised {type(ex).__name__}: {ex}", seed=seed, vv=vv, d=d, beta=0.5):
                return True
            continue
        for beta in (0.0, 0.01, 0.2, 1.0):
            try:
                msg = metric_site_property(metric_capture(s._core, beta), vv)
            except Exception as ex:  # noqa
                msg = f"_compute_metric_and_weights raised {type(ex).__name__}: {ex}"
            if msg and add("site-metric", msg, seed=seed, vv=vv, d=d, beta=beta):
                return True
    return False


def replay_site(f):
    kind = f.get("kind")
    if kind == "site-metric":
        s = _live_sampler(f["seed"], False, n_particles=24, n_dim=f["d"], vv=f["vv"], n_total=48)
        try:
            msg = metric_site_property(metric_capture(s._core, f["beta"]), f["vv"])
        except Exception as ex:  # noqa
            msg = f"_compute_metric_and_weights raised {type(ex).__name__}: {ex}"
        return {"fails": msg is not None, "detail": msg}
    if kind == "trim-kw":
        extra = {k: (tuple(v) if isinstance(v, list) else v) for k, v in f.get("extra", {}).items()}
        try:
            msg = direct_trim_with([hex2f(t) for t in f["w_hex"]], f["ess"], f["bins"], extra)
        except HarnessAbort as ex:
            return {"fails": False, "detail": f"not replayable: {ex}"}
        return {"fails": msg is not None, "detail": msg}
    s = _live_sampler(f.get("seed", 11), bool(f.get("clustering")))
    if kind == "site-train-seq":
        ws = [[hex2f(t) for t in w] for w in f["ws_hex"]]
        if any(len(w) != len(s._core.state.get_history("u", flat=True)) for w in ws):
            return {"fails": False, "detail": "recorded weights do not fit the history of the replayed run"}
        try:
            _, msg, _ = run_trainer_sequence(s._core, ws, bool(f.get("clustering")))
        except HarnessAbort as ex:
            return {"fails": False, "detail": f"not replayable: {ex}"}
        return {"fails": msg is not None, "detail": msg}
    if kind == "site-flow":
        msg = iteration_object_flow(s, common.rng_for("C20.searchSites"))
    else:
        w = [hex2f(t) for t in f["w_hex"]]
        if len(w) != len(s._core.state.get_history("u", flat=True)):
            return {"fails": False, "detail": "recorded weights do not fit the history of the replayed run"}
        try:
            msg = trainer_site_property(drive_trainer(s._core, w, f.get("beta", 0.5), bool(f.get("clustering")), trainer=_fresh_trainer(s._core)), w)
        except HarnessAbort as ex:
            return {"fails": False, "detail": f"not replayable: {ex}"}
        except Exception as ex:  # noqa
            msg = f"Trainer.run raised {type(ex).__name__}: {ex}"
    return {"fails": msg is not None, "detail": msg}
