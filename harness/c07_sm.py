"""C07, clause-audit suites at the level of the StateManager model (Model.RecSM) and of `_log_like` (Model.LogLike).

sm-tagged-iterations  (regime Q, exact dyadic rationals)
    A REAL `Sampler` is driven through `Sampler.sample()` (= `execute_iteration`: the real composition, the real commit,
    the real return value) with the reweighting and training steps replaced by scripted stubs (they do not touch records:
    obligation `C07_sites_recordWriters`).  Everything that handles records is the real code: `Resampler.run`,
    `Mutator.run` (both branches), `parallel_mcmc` → runner → `BaseMCMCRunner.run`, `check_bounds`,
    `apply_boundary_conditions`, `_log_like` (serial / pool / vectorised), `StateManager`, `compute_posterior`, `results()`,
    `save_state` / `load_state`.  Randomness is injected (`np.random.rand`, `np.random.choice`, `np.random.random`) and
    `_propose` is replaced by "scripted raw proposal, then the runner's own `apply_boundary_conditions(raw, self.periodic,
    self.reflective)`" (the last line of both real `_propose`: obligation `C07_sites_proposeReturns`).
    The same tape is executed by the Lean model at `Rat` (with `Model.Boundary`); every coordinate of every array of the
    current set after each step boundary, of every committed batch under every key, of every dictionary `sample()`
    returned, of `results()` and of every `posterior(...)` tuple must be IDENTICAL (floats are exact dyadics).

loglike-packing  (exact)
    the real `SamplerCore._log_like` on scripted per-point results (bare numbers, tuples, lists, 1-tuples, mixed batches,
    ragged batches; scalar / several / array / structured blobs; serial, pool object, vectorised) against `Model.LogLike`:
    raises-or-not, logl, blobs-or-None, every blob row; plus the row-wise oracle on the real code alone:
    `_log_like(X)[i] == _log_like(X[i:i+1])[0]`.
"""
import contextlib
import io
import math
import os
import tempfile
import warnings
from fractions import Fraction

import numpy as np

from . import common
from .common import Corr, frac2s

M = 1 << 20


def u_of(t, d):
    return np.full(d, (t + 0.5) / M)


def prior(u):
    return 10.0 * u - 5.0


def tag_of_x0(x0):
    return int(round(((float(x0) + 5.0) / 10.0) * M - 0.5))


def logl_of_x(x):
    return -(float(x[0]) + 5.0) * 3.0 - 1.0


def blob_of_x(x):
    return float(x[0]) * 2.0 + 7.0


# ------------------------------------------------------------------ formatting (must equal Drv/C07.lean's)
def fq(v):
    v = float(v)
    if v == -math.inf:
        return "ninf"
    return frac2s(Fraction(v))


def fvec(r):
    return "_".join(fq(c) for c in np.atleast_1d(r))


def frows(a, f):
    if a is None:
        return "N"
    a = list(a)
    return ",".join(f(r) for r in a) if a else "-"


def fcur(cur, have_b=True):
    b = cur.get("blobs")
    return "|".join([frows(cur["u"], fvec), frows(cur["x"], fvec), frows(cur["logl"], fq),
                     frows(None if b is None else np.asarray(b).reshape(len(b), -1)[:, 0], fq)])


def fbatches(h, f):
    return ";".join(frows(b, f) for b in h) if h else "-"


class FakePool:
    """a pool object: anything with an order-preserving `map`"""

    def __init__(self):
        self.calls = 0

    def map(self, f, xs):
        self.calls += 1
        return [f(x) for x in xs]


class Env:
    def __init__(self, d, n, blobmode, resample, kernel, evalmode, per, refl, clustered, n_max_steps):
        from tempest import Sampler
        self.d, self.n, self.blobmode = d, n, blobmode
        self.infset = set()
        self.kw = dict(d=d, n=n, blobmode=blobmode, resample=resample, kernel=kernel, evalmode=evalmode, per=per, refl=refl,
                       clustered=clustered, n_max_steps=n_max_steps)
        lk_blobs = blobmode in ("declared", "undeclared")

        def like(x):
            l = -np.inf if tag_of_x0(x[0]) in self.infset else logl_of_x(x)
            return (l, blob_of_x(x)) if lk_blobs else l

        def like_vec(X):
            return np.array([(-np.inf if tag_of_x0(r[0]) in self.infset else logl_of_x(r)) for r in X])

        self.pool = FakePool() if evalmode == "pool" else None
        self.s = Sampler(prior, like_vec if evalmode == "vector" else like, d, n_particles=n, clustering=False,
                         sample=kernel, resample=resample, n_steps=1, n_max_steps=n_max_steps,
                         vectorize=(evalmode == "vector"), pool=self.pool,
                         blobs_dtype=("f8" if blobmode == "declared" else None), periodic=per, reflective=refl)
        self.core = self.s._core
        self.state = self.s.state
        self.core._initialize_fresh()
        self.script = {}
        core = self.core

        def rw_run():
            sc = self.script
            self.state.update_current({"beta": sc["beta"], "logz": 0.0, "ess": float(self.n)})
            return sc["weights"]
        core.reweighter.run = rw_run
        core.trainer.run = lambda weights: _dummy_modes(d)
        if clustered:
            class _Clusterer:
                def predict(self_, u):
                    return np.array([tag_of_x0(prior(r)[0]) % 2 for r in np.atleast_2d(u)], dtype=int)
            core.resampler.clustering = True
            core.resampler.clusterer = _Clusterer()
        # snapshots of the current record set after resampler.run and after mutator.run
        self.mids = []
        for name in ("resampler", "mutator"):
            obj = getattr(core, name)
            orig = obj.run

            def wrapped(*a, _orig=orig, **k):
                r = _orig(*a, **k)
                self.mids.append(self.state.get_current())
                return r
            obj.run = wrapped


def _dummy_modes(d, K=2):
    from tempest.modes import ModeStatistics
    return ModeStatistics(np.zeros((K, d)), np.array([np.eye(d)] * K), np.full(K, 1e6))


def _raw_proposal(rng, t, d, per, refl, cnt):
    """a raw (pre-fold) proposal whose folded image is u(t) — or a point outside the cube"""
    u = u_of(t, d).copy()
    hard = [j for j in range(d) if j not in (per or []) and j not in (refl or [])]
    kind = rng.choice(["ok", "ok", "wrap", "wrap", "oob", "edge"])
    if kind == "wrap":
        hit = False
        for j in (per or []):
            u[j] = u[j] + rng.choice([-2, -1, 1, 2, 3])
            hit = True
        for j in (refl or []):
            k = rng.choice([-1, 0, 1, 2])
            u[j] = 2 * k + u[j] if rng.random() < 0.5 else 2 * k - u[j]
            hit = True
        kind = "wrap" if hit else "ok"
    elif kind == "oob":
        if hard:
            j = rng.choice(hard)
            u[j] = rng.choice([1.25, -0.25, 1.0 + 2.0 ** -20, -2.0 ** -30, 7.5])
        else:
            kind = "ok"
    elif kind == "edge":
        js = [j for j in hard if j >= 1]
        if js:
            u[rng.choice(js)] = rng.choice([0.0, 1.0])
        else:
            kind = "ok"
    cnt(kind)
    return u


def run_case(rng, cnt, cfg=None):
    """one real run under a scripted tape; returns (driver line, impl strings, posts info)"""
    import tempest.mcmc as mcmc
    import tempest.steps.resample as rsm
    import tempest.tools as tools
    if cfg is None:
        d = rng.randint(1, 3)
        coords = list(range(d))
        rng.shuffle(coords)
        per = sorted(coords[:rng.randint(0, min(1, d))]) if rng.random() < 0.5 else []
        rest = [c for c in coords if c not in per]
        refl = sorted(rest[:1]) if (rest and rng.random() < 0.4) else []
        blobmode = rng.choice(["none", "declared", "undeclared", "undeclared"])
        evalmode = rng.choice(["serial", "serial", "pool"]) if blobmode != "none" else rng.choice(["serial", "pool", "vector"])
        cfg = dict(d=d, n=rng.randint(2, 7), blobmode=blobmode, resample=rng.choice(["mult", "syst"]),
                   kernel=rng.choice(["rwm", "tpcn"]), evalmode=evalmode, per=per or None, refl=refl or None,
                   clustered=rng.random() < 0.3, n_max_steps=rng.randint(1, 3))
    env = Env(**cfg)
    d, n = cfg["d"], cfg["n"]
    per, refl = cfg["per"], cfg["refl"]
    n_iter = rng.randint(2, 5)
    n_warm = rng.randint(1, 2)
    resume_at = rng.randint(1, n_iter) if rng.random() < 0.45 else None
    next_tag = [1]
    allinf = set()
    tapes, rets = [], []
    events = []

    def fresh(k):
        t = list(range(next_tag[0], next_tag[0] + k))
        next_tag[0] += k
        return t

    runner_cls = mcmc.RWMRunner if cfg["kernel"] == "rwm" else mcmc.TPCNRunner
    with warnings.catch_warnings(), contextlib.redirect_stdout(io.StringIO()):
        warnings.simplefilter("ignore")
        def one_iter(env, it, pool_size, tapes, rets, cnt):
            """one `Sampler.sample()` of `env` under scripted randomness; appends its tape and the returned blobs column"""
            warm = it < n_warm
            if warm:
                # the redraw loop of /repo 959029e: 0..2 batches WITHOUT a finite draw come first and are discarded
                n_dead = rng.choice([0, 0, 0, 1, 1, 2])
                dead = [fresh(n) for _ in range(n_dead)]
                for b_ in dead:
                    env.infset |= set(b_)
                    allinf.update(b_)
                tags = fresh(n)
                frac = rng.choice([0.0, 0.0, 0.3, 0.6, 0.9])
                inf_local = [k for k in range(n) if rng.random() < frac]
                if len(inf_local) == n:
                    inf_local.pop()          # the batch that ends the loop has a finite draw
                env.infset |= {tags[k] for k in inf_local}
                allinf.update(tags[k] for k in inf_local)
                picks = []

                def fake_choice(a, size=None, replace=True, p=None):
                    a = np.asarray(a)
                    pk = [int(a[rng.randrange(len(a))]) for _ in range(size)]
                    picks.extend(pk)
                    return np.array(pk, dtype=int)
                batches = [np.array([u_of(t, d) for t in b_]) for b_ in dead + [tags]]
                handed = []

                def fake_rand(*shape):
                    handed.append(1)
                    return batches[len(handed) - 1].copy()
                calls0 = env.state.get_current("calls")
                env.script = {"beta": 0.0, "weights": np.ones(max(pool_size, 1)) / max(pool_size, 1)}
                with common.patched(np.random, "rand", fake_rand), \
                        common.patched(np.random, "choice", fake_choice):
                    ret = env.s.sample()
                if len(handed) != len(batches):
                    raise AssertionError(f"warm-up drew {len(handed)} batches, the script has {len(batches)}")
                if env.state.get_current("calls") - calls0 != n * len(batches):
                    raise AssertionError("warm-up: calls did not grow by n_particles per drawn batch")
                tapes.append("W:" + "/".join(",".join(map(str, b_)) for b_ in dead + [tags]) + ":" +
                             (",".join(map(str, picks)) if picks else "-"))
                cnt(f"warmup_redraws={n_dead}")
                if inf_local:
                    cnt("warmup_with_replacement")
            else:
                w = np.array([rng.random() + 0.05 for _ in range(pool_size)])
                w = w / w.sum()
                env.script = {"beta": min(1.0, 0.25 * (it - n_warm + 1)), "weights": w}
                got = {}
                steps = []
                cur = {}

                def fake_propose(self, k):
                    if k == 0:
                        cur["tags"] = fresh(n)
                        cur["inf"] = {t for t in cur["tags"] if rng.random() < 0.15}
                        env.infset |= cur["inf"]
                        allinf.update(cur["inf"])
                        cur["raw"] = [_raw_proposal(rng, t, d, per, refl, cnt) for t in cur["tags"]]
                    return mcmc.apply_boundary_conditions(cur["raw"][k], self.periodic, self.reflective)

                def fake_rand(*shape):
                    bits = [rng.random() < 0.55 for _ in range(n)]
                    steps.append(([r.copy() for r in cur["raw"]], list(bits)))     # raw bits: the model rejects -inf proposals itself
                    return np.array([0.0 if b else 1.0 for b in bits])

                ctx = [common.patched(runner_cls, "_propose", fake_propose), common.patched(np.random, "rand", fake_rand)]
                if cfg["resample"] == "mult":
                    idx = [rng.randrange(pool_size) for _ in range(n)]
                    got["idx"] = idx
                    ctx.append(common.patched(np.random, "choice",
                                              lambda a, size=None, replace=True, p=None: np.array(idx, dtype=int)))
                else:
                    real_sr = rsm.systematic_resample

                    def spy(size, weights=None, random_state=None):
                        r = real_sr(size, weights=weights)
                        got["idx"] = [int(i) for i in r]
                        return r
                    u0 = rng.random()
                    ctx += [common.patched(np.random, "random", lambda *a: u0), common.patched(rsm, "systematic_resample", spy)]
                with contextlib.ExitStack() as st:
                    for c_ in ctx:
                        st.enter_context(c_)
                    ret = env.s.sample()
                tapes.append("A:" + ",".join(map(str, got["idx"])) + ":" +
                             "!".join(",".join(fvec(r) for r in raw) + "&" + "".join("1" if b else "0" for b in acc)
                                      for raw, acc in steps))
                cnt(f"mcmc_passes={min(len(steps), 4)}{'+' if len(steps) > 4 else ''}")
                if any(any(a) and not all(a) for _, a in steps):
                    cnt("mixed_mask")
                if cur.get("inf"):
                    cnt("pass_with_minus_inf_proposal")
            rets.append(frows(None if ret["blobs"] is None else np.asarray(ret["blobs"]).reshape(n, -1)[:, 0], fq))
            # the dictionary sample() returned must be the current record set
            live = env.state.get_current()
            for key in ("u", "x", "logl", "blobs"):
                a, b = ret[key], live[key]
                if (a is None) != (b is None) or (a is not None and not np.array_equal(np.asarray(a), np.asarray(b))):
                    raise AssertionError(f"sample() returned a {key} array that is not the current one")

        def resume(env, it):
            """checkpoint of `env`, loaded into ANOTHER sampler object of the same configuration, which then carries on.
            The other object is either fresh, or USED: it has run its own (different) iterations — as many as the checkpoint
            holds, so that nothing can fail on a length — and has been queried, so whatever it caches about its own history
            is warm when the foreign state arrives."""
            how = rng.choice(["fresh", "used", "used"])
            events.append(f"after iteration {it}: checkpoint loaded into a {how} sampler object")
            env2 = Env(**cfg)
            env2.infset = env.infset
            if how == "used":
                noop = lambda *a: None
                for j in range(it):
                    one_iter(env2, j, j * n, [], [], noop)
                warmers = rng.choice([["logw"], ["logw"], ["posterior"], ["results"], ["logw", "results"], []])
                for wm in warmers:
                    if wm == "logw":
                        env2.state.compute_logw_and_logz(1.0)       # what run()'s epilogue and _not_termination do
                    elif wm == "posterior":
                        env2.s.posterior(return_blobs=True, trim_importance_weights=False)
                    elif wm == "results":
                        env2.s.results()
                events[-1] += f" (own run of {it} iterations, then queried: {'+'.join(warmers) or 'nothing'})"
                cnt("load_into_used_sampler(" + "+".join(warmers or ["unqueried"]) + ")")
            else:
                cnt("load_into_fresh_sampler")
            fd, path = tempfile.mkstemp(suffix=".state")
            os.close(fd)
            try:
                env.s.save_state(path)
                env2.s.load_state(path)
            finally:
                for q in (path, path + ".temp"):
                    if os.path.exists(q):
                        os.remove(q)
            env2.mids = env.mids
            cnt("resumed_from_checkpoint")
            return env2

        pool_size = 0
        for it in range(n_iter):
            if resume_at is not None and it == resume_at:
                env = resume(env, it)
            one_iter(env, it, pool_size, tapes, rets, cnt)
            pool_size += n
        if resume_at == n_iter:
            env = resume(env, n_iter)      # load right before everything is read back and posterior() is queried
        st_ = env.state
        impl = {"cur": fcur(st_.get_current())}
        L = st_.get_history_length()
        hist = {k: [st_.get_history(k, i) for i in range(len(st_._history[k]))] for k in ("u", "x", "logl", "blobs")}
        impl["hist"] = "|".join([fbatches(hist["u"], fvec), fbatches(hist["x"], fvec), fbatches(hist["logl"], fq),
                                 fbatches([np.asarray(b).reshape(len(b), -1)[:, 0] for b in hist["blobs"]], fq)])
        impl["ret"] = ";".join(rets)
        mids = env.mids
        impl["mid"] = ";".join(fcur(mids[2 * i]) + "~" + fcur(mids[2 * i + 1]) for i in range(len(mids) // 2))
        # results(): per key the committed batches
        res = env.s.results()
        impl["results"] = "|".join([fbatches(list(res["u"]), fvec), fbatches(list(res["x"]), fvec), fbatches(list(res["logl"]), fq),
                                    fbatches([np.asarray(b).reshape(len(b), -1)[:, 0] for b in res["blobs"]], fq)
                                    if len(res["blobs"]) else "-"])
        # posterior(): every option combination; index vectors captured from the real trim_weights / systematic_resample
        logw, _ = st_.compute_logw_and_logz(1.0)
        toks = [common.f2hex(v) for v in logw]
        posts, impl_posts = [], []
        real_tw, real_sr2 = tools.trim_weights, tools.systematic_resample
        for trim in (False, True):
            for res_ in (False, True):
                for rb in (False, True):
                    cap = {}

                    def tw(samples, weights, ess=0.99, bins=1000):
                        r = real_tw(samples, weights, ess=ess, bins=bins)
                        cap["trim"] = [int(i) for i in r[0]]
                        return r

                    def sr(size, weights=None, random_state=None):
                        r = real_sr2(size, weights=weights)
                        cap["res"] = [int(i) for i in r]
                        return r
                    u0 = rng.random()
                    with common.patched(tools, "trim_weights", tw), common.patched(tools, "systematic_resample", sr), \
                            common.patched(np.random, "random", lambda *a: u0):
                        out = env.s.posterior(resample=res_, return_blobs=rb, trim_importance_weights=trim, return_logw=True,
                                              ess_trim=rng.choice([0.99, 0.9, 0.5]), bins_trim=rng.choice([1000, 50, 7]))
                    ti = ",".join(map(str, cap["trim"])) if trim else "N"
                    ri = ",".join(map(str, cap["res"])) if res_ else "N"
                    if (trim and not cap.get("trim")) or (res_ and not cap.get("res")):
                        continue      # empty index vectors: "-" would be ambiguous with the empty list; not generated
                    posts.append(f"{ti}:{ri}:{'1' if rb else '0'}")
                    has_b = len(out) == 5
                    xs, ls = out[0], out[2]
                    bs = out[3] if has_b else None
                    lw = out[-1]
                    impl_posts.append("|".join([frows(xs, fvec), frows(ls, fq),
                                                frows(None if bs is None else np.asarray(bs).reshape(len(bs), -1)[:, 0], fq),
                                                ",".join(common.f2hex(v) for v in lw) if len(lw) else "-"]))
        impl["post"] = ";".join(impl_posts)
    sg = "1"
    line = (f"c07sm.run hb={'1' if cfg['blobmode'] == 'declared' else '0'} lb={'1' if cfg['blobmode'] != 'none' else '0'} sg={sg} "
            f"per={','.join(map(str, per)) if per else '-'} refl={','.join(map(str, refl)) if refl else '-'} "
            f"inf={','.join(map(str, sorted(allinf))) if allinf else '-'} d={d} tapes={';'.join(tapes)} "
            f"logw={','.join(toks)} posts={';'.join(posts)}")
    return line, impl, dict(cfg, events=events)


def parse_model(ans):
    out = {}
    for tok in ans.split(" "):
        k, _, v = tok.partition("=")
        out[k] = v
    return out


def suite_sm(tier):
    c = Corr("sm-tagged-iterations", "exact-dyadic (Rat model with the real boundary maps vs the real Sampler.sample / posterior / results / save-load)")
    rng = common.rng_for("C07.sm")
    n_cases = 180 if tier == "quick" else 2500
    drv = common.Driver()
    lines, impls = [], []
    for _ in range(n_cases):
        try:
            line, impl, cfg = run_case(rng, c.count)
        except Exception as e:   # the real code raising on a legal scripted run is itself a disagreement
            c.case(repr(e), True)
            c.disagree(input="scripted run", impl=f"raised {type(e).__name__}: {e}", model="runs")
            continue
        lines.append(line)
        impls.append((impl, cfg))
        c.case(line, True)
        c.count("blobs:" + cfg["blobmode"])
        c.count("eval:" + cfg["evalmode"])
        c.count("kernel:" + cfg["kernel"])
        c.count("resample:" + cfg["resample"])
        c.count(f"d={cfg['d']}")
        c.count("periodic" if cfg["per"] else "no_periodic")
        c.count("reflective" if cfg["refl"] else "no_reflective")
        if cfg["clustered"]:
            c.count("clustered_resampling")
    res = drv.batch(lines)
    for (impl, cfg), line, ans in zip(impls, lines, res):
        if not ans.startswith("cur="):
            c.disagree(input=line[:300], impl="ran", model=ans[:200], config=cfg)
            continue
        m = parse_model(ans)
        for key in ("cur", "hist", "ret", "mid", "post"):
            if m.get(key, "") != impl[key]:
                c.disagree(input=line[:400], what=key, impl=impl[key][:300], model=m.get(key, "")[:300], config=cfg)
                break
        else:
            # results() must be the committed history itself
            exp = m["hist"] if cfg["blobmode"] != "none" else "|".join(m["hist"].split("|")[:3] + ["-"])
            if impl["results"] != exp:
                c.disagree(input=line[:400], what="results()", impl=impl["results"][:300], model=exp[:300], config=cfg)
        c.sample({"config": cfg, "line": line[:300], "model": ans[:200]})
    return c


# ------------------------------------------------------------------ _log_like
def _mk_core(evalmode, bdt, fn):
    from tempest import Sampler
    pool = FakePool() if evalmode == "pool" else (1 if evalmode == "pool1" else None)
    s = Sampler(lambda u: u, fn, 2, n_particles=4, vectorize=(evalmode == "vector"), pool=pool, blobs_dtype=bdt)
    return s._core


def _gen_ll_case(rng):
    """scripted results for a batch; returns (list of python results, model tokens, blobs_dtype, tag)"""
    n = rng.randint(1, 5)
    shape_kind = rng.choice(["num", "num", "scalars", "scalars", "array", "arrays", "struct", "mixed_num_after", "mixed_tup_after",
                             "one_tuple", "ragged_count", "ragged_len", "list_results", "npfloat"])
    vals = [rng.randint(-50, 50) for _ in range(n)]
    py, toks = [], []
    bdt = None
    if shape_kind in ("num", "npfloat"):
        for v in vals:
            py.append(np.float64(v) if shape_kind == "npfloat" else float(v))
            toks.append(f"n:{v}")
    elif shape_kind in ("scalars", "list_results"):
        k = rng.randint(1, 3)
        # (a LIST result with a structured dtype is packed by numpy as a 2-D array with every field duplicated — numpy's
        #  list-versus-tuple rule; the documented interface returns tuples, so that combination is not generated)
        bdt = rng.choice([None, "f8"]) if k == 1 else rng.choice(
            [None, None if shape_kind == "list_results" else [(f"f{j}", float) for j in range(k)]])
        for v in vals:
            items = [v + 10 * (j + 1) for j in range(k)]
            r = (float(v),) + tuple(float(i) for i in items)
            py.append(list(r) if shape_kind == "list_results" else r)
            toks.append(f"t:{v}:" + "+".join(str(i) for i in items))
    elif shape_kind == "array":
        m = rng.randint(1, 3)
        bdt = rng.choice([None, (float, m)]) if m > 1 else None
        for v in vals:
            arr = [v + j for j in range(m)]
            py.append((float(v), np.array(arr, dtype=float)))
            toks.append(f"t:{v}:" + "_".join(map(str, arr)))
    elif shape_kind == "arrays":
        m, k = rng.randint(2, 3), 2
        for v in vals:
            arrs = [[v + j + 100 * q for j in range(m)] for q in range(k)]
            py.append((float(v),) + tuple(np.array(a, dtype=float) for a in arrs))
            toks.append(f"t:{v}:" + "+".join("_".join(map(str, a)) for a in arrs))
    elif shape_kind == "struct":
        bdt = [("a", float), ("b", float, 2)]
        for v in vals:
            py.append((float(v), float(v + 1), np.array([v + 2, v + 3], dtype=float)))
            toks.append(f"t:{v}:{v + 1}+{v + 2}_{v + 3}")
    elif shape_kind == "mixed_num_after":
        n = max(n, 2)
        vals = (vals + [7, 8])[:n]
        for i, v in enumerate(vals):
            if i == 0 or rng.random() < 0.5 and i < n - 1:
                py.append((float(v), float(v + 1)))
                toks.append(f"t:{v}:{v + 1}")
            else:
                py.append(float(v))
                toks.append(f"n:{v}")
        if all(t.startswith("t") for t in toks):
            py[-1] = float(vals[-1]); toks[-1] = f"n:{vals[-1]}"
    elif shape_kind == "mixed_tup_after":
        n = max(n, 2)
        vals = (vals + [7, 8])[:n]
        for i, v in enumerate(vals):
            if i == 0 or (rng.random() < 0.5 and i < n - 1):
                py.append(float(v)); toks.append(f"n:{v}")
            else:
                py.append((float(v), float(v + 1))); toks.append(f"t:{v}:{v + 1}")
    elif shape_kind == "one_tuple":
        for v in vals:
            py.append((float(v),)); toks.append(f"t:{v}:-")
    elif shape_kind == "ragged_count":
        n = max(n, 2)
        vals = (vals + [7, 8])[:n]
        for i, v in enumerate(vals):
            k = 1 if i == 0 else 2
            py.append((float(v),) + tuple(float(v + j) for j in range(k)))
            toks.append(f"t:{v}:" + "+".join(str(v + j) for j in range(k)))
    elif shape_kind == "ragged_len":
        n = max(n, 2)
        vals = (vals + [7, 8])[:n]
        for i, v in enumerate(vals):
            m = 2 if i == 0 else 3
            py.append((float(v), np.array([v + j for j in range(m)], dtype=float)))
            toks.append(f"t:{v}:" + "_".join(str(v + j) for j in range(m)))
    return py, toks, bdt, shape_kind


def _flatten_blob_row(row):
    row = np.asarray(row)
    if row.dtype.names:
        out = []
        for nm in row.dtype.names:
            out += [float(v) for v in np.asarray(row[nm]).ravel()]
        return out
    return [float(v) for v in row.ravel()]


def suite_loglike(tier):
    c = Corr("loglike-packing", "exact (integers; raises-or-not, logl, blobs-or-None, every blob row; row-wise oracle on the real code)")
    rng = common.rng_for("C07.loglike")
    n_cases = 400 if tier == "quick" else 6000
    drv = common.Driver()
    lines, impls = [], []
    with warnings.catch_warnings():
        warnings.simplefilter("ignore")
        for _ in range(n_cases):
            py, toks, bdt, kind = _gen_ll_case(rng)
            evalmode = rng.choice(["serial", "serial", "pool", "pool1", "vector"]) if bdt is None else rng.choice(["serial", "pool", "pool1"])
            n = len(py)
            X = np.array([[float(i), 0.0] for i in range(n)])
            if evalmode == "vector":
                # the user's vectorised function returns one array for the batch (its rows are the user's business)
                fn = lambda X_, _py=py: np.array([float(_py[int(r[0])][0]) if isinstance(_py[int(r[0])], (tuple, list)) else float(_py[int(r[0])]) for r in X_])
            else:
                fn = lambda x, _py=py: _py[int(x[0])]
            core = _mk_core(evalmode, bdt, fn)
            try:
                logl, blobs = core._log_like(X)
                impl = "logl=" + ",".join(str(int(v)) for v in logl) + " blobs=" + (
                    "N" if blobs is None else ";".join("_".join(str(int(v)) for v in _flatten_blob_row(blobs[i])) for i in range(n)))
                # row-wise oracle on the real code: each row alone gives the same row
                if evalmode != "vector":
                    for i in range(n):
                        l1, b1 = core._log_like(X[i:i + 1])
                        same = float(l1[0]) == float(logl[i]) and ((b1 is None) == (blobs is None)) and (
                            b1 is None or _flatten_blob_row(b1[0]) == _flatten_blob_row(blobs[i]))
                        if not same:
                            c.disagree(input={"results": toks, "row": i, "blobs_dtype": repr(bdt)}, impl="row of the batch differs from the row evaluated alone",
                                       model="row-wise packing (RowWise)")
                            break
            except (TypeError, ValueError) as e:
                impl = "error"
            mode = {"serial": "s", "pool": "p", "pool1": "p", "vector": "v"}[evalmode]
            lines.append(f"c07ll.run mode={mode} rets={';'.join(toks)}")
            impls.append((impl, kind, evalmode, repr(bdt)))
            c.case((toks, evalmode, repr(bdt)), kind not in ("num",))
            c.count("shape:" + kind)
            c.count("eval:" + evalmode)
            c.count("raises" if impl == "error" else ("blobs" if "blobs=N" not in impl else "no_blobs"))
    res = drv.batch(lines)
    for (impl, kind, evalmode, bdt), line, ans in zip(impls, lines, res):
        if ans != impl:
            c.disagree(input=line, impl=impl, model=ans, blobs_dtype=bdt, eval=evalmode)
        c.sample({"line": line, "model": ans})
    return c


# ------------------------------------------------------------------ property oracle on the scripted runs (search only)
def oracle_sm(rng, n_cases):
    """every stored / returned row is one coherent record — checked on the REAL objects, no model involved"""
    found = []
    for _ in range(n_cases):
        try:
            line, impl, cfg = run_case(rng, lambda *_: None)
        except Exception as e:  # noqa
            found.append({"what": f"scripted run raised {type(e).__name__}: {e}", "config": "see seed"})
            continue

        def rows_ok(us, xs, ls, bs, where):
            us, xs, ls = us.split(","), xs.split(","), ls.split(",")
            bs = None if bs in ("N", "-") else bs.split(",")
            for i, (u, x, l) in enumerate(zip(us, xs, ls)):
                uu = [Fraction(q) for q in u.split("_")]
                xx = [Fraction(q) for q in x.split("_")]
                if xx != [10 * q - 5 for q in uu]:
                    return f"{where} row {i}: x != T(u)"
                if not all(0 <= q <= 1 for q in uu):
                    return f"{where} row {i}: u outside the cube"
                if l == "ninf":
                    return f"{where} row {i}: a particle with logl = -inf is stored"
                if Fraction(l) != -(xx[0] + 5) * 3 - 1:
                    return f"{where} row {i}: logl != L(x)"
                if cfg["blobmode"] != "none":
                    if bs is None or i >= len(bs) or Fraction(bs[i]) != xx[0] * 2 + 7:
                        return f"{where} row {i}: blob != blob(x)"
            if not (len(us) == len(xs) == len(ls)) or (bs is not None and len(bs) != len(us)):
                return f"{where}: arrays of different lengths"
            return None
        bad = None
        u, x, l, b = impl["cur"].split("|")
        bad = rows_ok(u, x, l, b, "current")
        if not bad and impl["mid"]:
            for k, pair in enumerate(impl["mid"].split(";")):
                for where, snap in zip(("after resampler.run", "after mutator.run"), pair.split("~")):
                    u, x, l, b = snap.split("|")
                    if u == "N":
                        continue
                    bad = rows_ok(u, x, l, b, f"iteration {k} {where}")
                    if bad:
                        break
                if bad:
                    break
        if not bad:
            hu, hx, hl, hb = impl["hist"].split("|")
            hbs = hb.split(";") if hb != "-" else None
            for k, (u, x, l) in enumerate(zip(hu.split(";"), hx.split(";"), hl.split(";"))):
                bad = rows_ok(u, x, l, hbs[k] if hbs and k < len(hbs) else "N", f"history[{k}]")
                if bad:
                    break
            if not bad and cfg["blobmode"] != "none" and (hbs is None or len(hbs) != len(hu.split(";"))):
                bad = "history: the blobs key holds a different number of batches than u"
        if not bad and impl["post"]:
            for q in impl["post"].split(";"):
                xs, ls, bs, _lw = q.split("|")
                for i, (x, l) in enumerate(zip(xs.split(","), ls.split(","))):
                    xx = [Fraction(v) for v in x.split("_")]
                    if l == "ninf":
                        bad = f"posterior row {i}: a particle with logl = -inf is returned"
                    elif Fraction(l) != -(xx[0] + 5) * 3 - 1:
                        bad = f"posterior row {i}: logl != L(x)"
                    if bs not in ("N", "-") and Fraction(bs.split(",")[i]) != xx[0] * 2 + 7:
                        bad = f"posterior row {i}: blob != blob(x)"
                if bad:
                    break
        if bad:
            found.append({"what": bad, "config": cfg, "tape": line[:500]})
            if len(found) >= 3:
                break
    return found
