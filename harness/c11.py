"""C11 — zero-likelihood prior regions are excluded and counted exactly once."""
import contextlib
import io
import math
import warnings
from fractions import Fraction

import numpy as np

from . import common
from .common import Corr

ID = "C11"
LEAN_MODULES = ["TempestVerif.Props.C11", "TempestVerif.Props.C11Pipeline", "TempestVerif.Props.C11Modes",
                "TempestVerif.Props.C11SM", "TempestVerif.Props.C11Redraw", "TempestVerif.Props.C11Stat",
                "TempestVerif.Props.C11Law", "TempestVerif.Props.C11Final", "TempestVerif.Props.C11RedrawStat",
                "TempestVerif.Props.C11Source"]
RULE = ("(1) warmup-evidence: real Sampler iterations in the prior-sampling phase (ess_ratio chosen so that beta stays 0 for 1..8 "
        "iterations; n_particles in {1,2,3,4,5,8,16,32,64}; d in {1,2,3}; no blobs / blobs_dtype declared / blobs returned without a "
        "declaration; vectorised and per-point likelihood; the likelihood hands its values back as float64 / float32 / float16 arrays, "
        "a non-contiguous float64 view, a Fortran-ordered float32 column, Python floats, np.float32 / np.float16 scalars or 0-d arrays "
        "- stored values are compared at the precision of the form), np.random.rand replaced by a tape of BLOCKS of dyadic points so that the "
        "number of finite draws of every block is scripted (likelihood is -inf exactly on x0 < threshold; in 12% of the runs some "
        "iteration first receives 1-3 blocks with no finite draw, which the sampler must discard and draw again since /repo 959029e; "
        "2 runs per 250 script 1000 such blocks with n in {1,2}: the cap must raise and nothing may be committed), np.random.choice "
        "replaced by a tape; after every iteration (a) the recorded logz is compared with the Rat model's linear-space evidence "
        "n_finite/n_drawn or harmonic mean (|exp(logz) - Z| <= 1e-12 Z), (b) the stored u rows must be, bit for bit, the drawn rows "
        "that the redraw loop + replacement step of the pipeline model (`warmR.rep` = Model.PipelineR.warmupL) selects from the same "
        "blocks and picks, and n_drawn must agree, (c) every stored record must be whole (x = T(u), logl = L(x), blob = blob(x)) and "
        "every stored logl finite, (d) the call sites must be those of an i.i.d. batch: np.random.rand called once per block with "
        "(n, d), the likelihood evaluated exactly at the transformed rows of every block in order, `calls` increased by n_drawn, "
        "np.random.choice called once over exactly the finite positions of the kept block. Non-trivial = at least two warm-up "
        "iterations and at least one iteration whose evidence is set. "
        "(2) sm-warmup-records: the same runs; every committed u, x, logl and blob row, the blobs slot of every returned dictionary "
        "and the iteration at which the cap raises are compared exactly with Model.RecSM.iterateR at Rat (`c11sm.run`; T u = 8u-4, "
        "logl = -1/2 sum x^2, blob = x0: every float operation exact on the dyadic inputs). Non-trivial = some replacement happened. "
        "(3) pipeline-warmup-replay: whole real Sampler runs (both kernels, both resamplers, d in {1,2,3}, n in {8,16,24}, supported "
        "prior fraction f in {1/8,...,15/16}, ess_ratio in {1.5,2.5,3.5}) through warm-up AND annealing, all randomness recorded on a "
        "tape (number of discarded draws included) and replayed by Model.Pipeline.runItersR (`pipe.F`): beta, ESS, logz after "
        "reweighting, committed logz (1e-9), resampled indices, accept masks (a -inf proposal must be rejected) and the committed "
        "batches (tags -> u bytes, logl bit for bit) must agree; every stored logl of the real run must be finite. Non-trivial = a "
        "batch with -inf draws, >= 2 warm-up and >= 1 annealing iteration. "
        "(4) real-rng-warmup: plain seeded runs, nothing patched (f in {1/32,...,15/16}, n in {4,...,256}, 2-6 warm-up iterations, "
        "ESS mode and volume-variation mode): the likelihood evaluations of every iteration must form discarded all--inf blocks "
        "followed by one kept block, the recorded logz must be the Rat model's on the observed (n, n_finite, n_drawn), no -inf may be "
        "stored, and — in runs without a redraw and with (1-f)^n <= 1e-3 — the pooled finite count must have an EXACT binomial(N, f) "
        "tail probability >= 1e-15 (the only statistical threshold). Non-trivial = some iteration's evidence was set.")
MODELLED = ["np.random.choice(finite_idx, size=k, replace=True) returns k elements of finite_idx (hypothesis `PicksOk` of the "
            "pipeline theorems; the suites replace / observe it)",
            "np.isinf / the likelihood: a draw is `none` on the tape iff its log-likelihood is not finite; NaN and +inf likelihoods are "
            "outside the statement",
            "np.random.rand + the user's prior transform and likelihood: the finiteness indicators of the draws are independent "
            "Bernoulli(f) (H_iid of the statistical theorems C11_first_batch_unbiased / _variance / _chebyshev / _lln, "
            "C11_warmup_concentration, C11_stored_particle_law, C11_redraw_expectation); the PRNG idealisation is not verified, its "
            "structural part (one fresh (n, d) block per pass, every draw evaluated once and counted) is checked by warmup-evidence",
            "that the sampler stays at beta = 0 while the pool is below the ESS target is C05's theorem on the same pipeline model "
            "(`C05_warmup_ess`, `runEss_cases`, `runDyn_cases`, used by `warm_reweight_gen`); the pool condition is a hypothesis of "
            "`C11_pipelineL_warmup` (<= in ESS mode, < in volume-variation mode)",
            "proposal generation, Hastings factors and Metropolis uniforms at beta > 0 arrive on the tape (C03's model); the pipeline "
            "model rejects a `none` proposal by definition and the replay compares the accept masks with the real ones",
            "C11_final / C11_meanfield_supported are statements about the mixture-importance estimator over a FINITE state space whose "
            "stored batches have their nominal tempered laws (marginally: proved for the warm-up batches, C11_stored_particle_law) and "
            "exact normalisers on the supported region, and about its mean-field recursion; that the finite adaptive particle system "
            "approaches that recursion (propagation of chaos: 'converges') is not proved (C01/C02 are partial for the same reason)",
            "the redraw loop's tape: a tape that ends while the loop still asks for a block is outside the model (`none`); the real "
            "source never ends"]
ASSUMPTIONS = ["likelihood is deterministic and -inf exactly on the scripted region"]


def _quiet():
    return contextlib.redirect_stdout(io.StringIO())


BLOB_MODES = ("none", "declared", "undeclared")


def _like1(x, thr=0.0):
    return -np.inf if x[0] < thr else -0.5 * float(np.sum(x ** 2))


# forms in which the user's likelihood may hand back its values (all accepted by the unchanged sampler; Python lists, (n, 1)
# columns, object and long-double arrays raise in `_log_like` / `np.isinf` and are outside the supported inputs)
VEC_FORMS = ("f64", "f32", "f16", "view", "fortran_f32")
SCALAR_FORMS = ("py", "np_f32", "np_f16", "zero_d")


def _as_form(vals, form):
    """the array a vectorised likelihood returns for the float64 values `vals`"""
    a = np.array(vals, dtype=np.float64)
    if form == "f32":
        return a.astype(np.float32)
    if form == "f16":
        return a.astype(np.float16)
    if form == "view":                      # non-contiguous float64 view of a larger buffer
        return np.stack([a, a + 1.0], axis=1)[:, 0]
    if form == "fortran_f32":               # float32 column of a Fortran-ordered work array
        return np.asfortranarray(np.stack([a, a], axis=1).astype(np.float32))[:, 1]
    return a


def _stored_value(v, form):
    """what a correct sampler may store for the float64 likelihood value v returned in `form` (precision of the form)"""
    if form in ("f16", "np_f16"):
        return float(np.float16(v))
    if form in ("f32", "np_f32", "fortran_f32"):
        return float(np.float32(v))
    return float(v)


def run_warmup(rng, n, fins, d=1, blobs=False, vectorize=False, blob_mode=None, ret_form=None):
    """fins[k] = number of finite draws wanted in warm-up iteration k; returns per-iteration records.
    blob_mode: "none" | "declared" (blobs_dtype given) | "undeclared" (the likelihood returns (logl, blob) and no
    blobs_dtype is given: the documented form, handled since /repo 9130321)."""
    from tempest import Sampler
    if blob_mode is None:
        blob_mode = "declared" if blobs else "none"
    have_blobs = blob_mode != "none"
    if ret_form is None:
        ret_form = "f64" if vectorize else "py"
    k = len(fins)
    thr = 0.0     # x0 < 0  <=> u0 < 1/2  -> -inf
    evaluated = []      # every point the likelihood was asked about, in order

    def like(x):
        if vectorize:
            X = np.atleast_2d(x)
            evaluated.extend(np.array(r, dtype=float) for r in X)
            return _as_form([_like1(r, thr) for r in X], ret_form)
        evaluated.append(np.array(x, dtype=float))
        l = _like1(x, thr)
        if ret_form == "np_f32":
            l = np.float32(l)
        elif ret_form == "np_f16":
            l = np.float16(l)
        elif ret_form == "zero_d":
            l = np.array(l)
        return (l, float(x[0])) if have_blobs else l

    def prior(u):
        return 8.0 * u - 4.0
    s = Sampler(prior, like, d, n_particles=n, clustering=False, ess_ratio=k - 0.5, vectorize=vectorize,
                blobs_dtype=("f8" if blob_mode == "declared" else None), n_steps=1, n_max_steps=1)
    s._core._initialize_fresh()
    recs = []
    for it in range(k):
        # successive np.random.rand blocks of this iteration: finite counts; all but the last are 0 (discarded, /repo 959029e)
        counts = list(fins[it]) if isinstance(fins[it], (list, tuple)) else [fins[it]]
        nfin = counts[-1]
        UFs, u0s = [], []
        for cnt in counts:
            u0 = [Fraction(rng.randrange(1 << 10, 1 << 11), 1 << 11) for _ in range(cnt)] + \
                 [Fraction(rng.randrange(1, 1 << 10), 1 << 11) for _ in range(n - cnt)]
            rng.shuffle(u0)
            # every coordinate dyadic with 11 bits: x = 8u - 4, x**2, their sum and the factor -1/2 are exact in binary64
            UFs.append([[v] + [Fraction(rng.randrange(1, 1 << 11), 1 << 11) for _ in range(d - 1)] for v in u0])
            u0s.append(u0)
        Us = [np.array([[float(c) for c in row] for row in UF]) for UF in UFs]
        u0, UF, U = u0s[-1], UFs[-1], Us[-1]
        queue = list(Us)
        picks = []
        rand_calls, choice_calls = [], []
        n_eval0 = len(evaluated)
        calls0 = int(s.state.get_current("calls") or 0)

        def rand(*shape):
            rand_calls.append(tuple(int(v) for v in shape))
            if not queue:
                raise TapeExhausted()
            return queue.pop(0).copy()

        def choice(a, size=None, replace=True, p=None):
            a = np.asarray(a)
            choice_calls.append(([int(v) for v in a.tolist()], None if size is None else int(size), bool(replace), p is None))
            out = [int(a[rng.randrange(len(a))]) for _ in range(size)]
            picks.extend(out)
            return np.array(out, dtype=int)
        raised = None
        with common.patched(np.random, "rand", rand), common.patched(np.random, "choice", choice), \
                _quiet(), warnings.catch_warnings():
            warnings.simplefilter("ignore")
            try:
                cur = s.sample()
            except TapeExhausted:
                raised = "tape"
            except ValueError as e:
                if "no prior draw with finite log-likelihood" not in str(e):
                    raise
                raised = "cap"
        if raised:
            recs.append({"raised": raised, "n": n, "nfin": nfin, "counts": counts, "UFs": UFs, "picks": picks,
                         "flags_blocks": ["".join("1" if float(v) >= 0.5 else "0" for v in b) for b in u0s],
                         "rand_calls": list(rand_calls), "history_length": int(s.state.get_history_length())})
            break
        su = np.array(s.state.get_history("u", it), dtype=float)
        sx = np.array(s.state.get_history("x", it), dtype=float)
        sl = np.array(s.state.get_history("logl", it), dtype=float)
        whole = all(np.array_equal(sx[j], prior(su[j])) and (sl[j] == _stored_value(_like1(sx[j], thr), ret_form)) for j in range(n))
        sb = None
        if have_blobs:
            sb = np.array(s.state.get_history("blobs", it), dtype=float).reshape(n)
            whole = whole and all(sb[j] == sx[j][0] for j in range(n))
        ret_b = cur.get("blobs")
        # H_iid, structurally: fresh (n, d) blocks of uniforms, one per pass of the redraw loop, every row of every block
        # transformed and evaluated exactly once (nothing conditioned on before the count), every draw counted, one `choice`
        # over exactly the finite positions of the kept block
        K = len(counts)
        fin_pos = [j for j, v in enumerate(u0) if float(v) >= 0.5]
        ev = evaluated[n_eval0:]
        allU = np.concatenate(Us, axis=0)
        sites = None
        if rand_calls != [(n, d)] * K:
            sites = f"np.random.rand called {rand_calls} (expected {K} time(s) with ({n}, {d}))"
        elif len(ev) != K * n or not all(np.array_equal(ev[j], prior(allU[j])) for j in range(K * n)):
            sites = f"the likelihood was evaluated at {len(ev)} point(s), expected exactly the {K * n} transformed draws in order"
        elif int(cur["calls"]) - calls0 != K * n:
            sites = f"calls increased by {int(cur['calls']) - calls0}, expected {K * n} (every draw counts)"
        elif 0 < nfin < n and choice_calls != [(fin_pos, n - nfin, True, True)]:
            sites = f"np.random.choice called with {choice_calls!r}, expected once over finite_idx={fin_pos} size={n - nfin}"
        elif nfin == n and choice_calls:
            sites = f"np.random.choice called {len(choice_calls)} time(s) for a batch with {nfin} of {n} finite draws"
        recs.append({"beta": float(cur["beta"]), "logz": float(cur["logz"]), "n": n, "nfin": nfin, "ndrawn": K * n,
                     "counts": counts, "raised": None, "ret_form": ret_form,
                     "flags": "".join("1" if float(v) >= 0.5 else "0" for v in u0),
                     "flags_blocks": ["".join("1" if float(v) >= 0.5 else "0" for v in b) for b in u0s],
                     "picks": picks, "U": U, "UF": UF, "UFs": UFs, "Uall": allU,
                     "stored_u": su, "stored_x": sx, "stored_l": sl, "stored_b": sb,
                     "ret_blobs": None if ret_b is None else np.array(ret_b, dtype=float).reshape(-1),
                     "whole": bool(whole), "sites": sites,
                     "stored_inf": int(np.sum(~np.isfinite(sl))),
                     "stored_in_support": bool(np.all(sx[:, 0] >= thr))})
    return recs


class TapeExhausted(Exception):
    pass


def _frs(v):
    return f"{v.numerator}/{v.denominator}"


def _sm_line(blob_mode, vectorize, recs):
    hb = 1 if blob_mode == "declared" else 0
    lb = 0 if blob_mode == "none" else 1
    tapes = []
    for r in recs:
        blocks = "!".join(",".join("_".join(_frs(c) for c in row) for row in UF) for UF in r["UFs"])
        tapes.append(f"{blocks}:{','.join(map(str, r['picks'])) if r['picks'] else '-'}")
    return f"c11sm.run hb={hb} lb={lb} tapes={';'.join(tapes)}"


def _sm_parse(ans):
    """'U|X|L|B ret=…' -> per batch arrays of floats (None for -inf); B None when there is no blobs history"""
    body, ret = ans.split(" ret=")
    U, X, L, B = body.split("|")

    def vecs(sv):
        return [[[float(Fraction(c)) for c in row.split("_")] for row in b.split(",")] for b in sv.split(";")]
    u, x = vecs(U), vecs(X)
    l = [[(-math.inf if v == "ninf" else float(Fraction(v))) for v in b.split(",")] for b in L.split(";")]
    b = None if B == "-" else [[float(Fraction(v)) for v in bb.split(",")] for bb in B.split(";")]
    rets = [None if r == "N" else [float(Fraction(v)) for v in r.split(",")] for r in ret.split(";")]
    return u, x, l, b, rets


def _fin_last(f):
    return f[-1] if isinstance(f, (list, tuple)) else f


def _ndrawn(f, n):
    return n * (len(f) if isinstance(f, (list, tuple)) else 1)


def _corrected(f, n):
    """was the evidence of this iteration SET (some -inf draw, or a discarded block)?"""
    return _fin_last(f) < n or _ndrawn(f, n) > n


def _correspond_evidence(tier, drv):
    rng = common.rng_for("C11")
    c = Corr("warmup-evidence", "exact-dyadic inputs; evidence compared in linear space with the Rat model (1e-12 relative); redraw "
                                "loop (which block is kept, n_drawn, the cap) and replacement (stored rows) compared exactly with "
                                "Model.PipelineR.warmupL; RNG / likelihood call sites of every iteration compared exactly with the "
                                "i.i.d.-blocks reading (H_iid)")
    c2 = Corr("sm-warmup-records", "exact (dyadic inputs, every float operation of prior transform and likelihood exact): "
                                   "every committed u, x, logl and blob row and the returned blobs compared with "
                                   "Model.RecSM.iterateR (redraw loop included) at Rat")
    n_cases = 250 if tier == "quick" else 4000
    lines, all_recs = [], []
    for case_no in range(n_cases):
        n = rng.choice([1, 2, 3, 4, 5, 8, 16, 32, 64])
        k = rng.randint(1, 8)
        style = rng.random()
        fins = []
        for _ in range(k):
            if style < 0.25:
                fins.append(n if rng.random() < 0.5 else max(1, n // 2))
            elif style < 0.5:
                fins.append(max(1, n // 2))
            else:
                fins.append(rng.randint(1, n))
        # blocks without a finite draw (the repaired finding F8): discarded and drawn again, in 12% of the runs, anywhere
        redraw = rng.random() < 0.12
        if redraw:
            for _ in range(rng.randint(1, 2)):
                j = rng.randrange(k)
                if not isinstance(fins[j], list):
                    fins[j] = [0] * rng.randint(1, 3) + [fins[j] if rng.random() < 0.7 else n]
        # the cap: 1000·n draws without a finite one raise (n small to keep it cheap): the last iteration never returns
        cap = case_no % 125 == 7
        if cap:
            n = rng.choice([1, 2])
            fins = [min(_fin_last(f), n) or 1 if not isinstance(f, list) else [0] * (len(f) - 1) + [max(1, min(f[-1], n))] for f in fins]
            fins[-1] = [0] * 1000
        vectorize = rng.random() < 0.2
        blob_mode = "none" if vectorize else rng.choice(["none", "none", "declared", "undeclared", "undeclared"])
        d = rng.choice([1, 2, 3])
        ret_form = rng.choice(VEC_FORMS) if vectorize else rng.choice(("py", "py", "py") + SCALAR_FORMS)
        recs = run_warmup(rng, n, fins, d=d, vectorize=vectorize, blob_mode=blob_mode, ret_form=ret_form)
        done = [r for r in recs if not r["raised"]]
        lines.append("warmR.Q bs=" + ";".join(f"{n}:{r['nfin']}:{r['ndrawn']}" for r in done) if done else "warmR.Q bs=1:1:1")
        for r in recs:
            lines.append(f"warmR.rep n={n} blocks={'!'.join(r['flags_blocks'])} picks={','.join(map(str, r['picks'])) if r['picks'] else '-'}")
        lines.append(_sm_line(blob_mode, vectorize, recs))
        all_recs.append((n, fins, recs, d, blob_mode, vectorize, ret_form))
        nontriv = k >= 2 and any(_corrected(f, n) for f in fins)
        c.case((n, fins), nontriv)
        c2.case((n, fins, d, blob_mode, vectorize), any(0 < _fin_last(f) < n for f in fins))
        for cc in (c, c2):
            cc.count(f"warmups={k}")
            cc.count(f"n={n}")
            cc.count(f"d={d}")
            cc.count(f"blobs={blob_mode}")
            if vectorize:
                cc.count("vectorize")
            cc.count(f"logl_form={ret_form}")
            if redraw:
                cc.count("runs_with_discarded_blocks")
            cc.count("discarded_blocks", sum(len(f) - 1 for f in fins if isinstance(f, list)))
            if cap:
                cc.count("cap_1000n_draws_raises")
        c.count("some_batch_with_inf" if any(_fin_last(f) < n for f in fins) else "all_finite")
        c.count("first_batch_all_finite" if not _corrected(fins[0], n) else "first_batch_evidence_set")
        c.count("kept_block_all_finite_after_redraw", sum(1 for f in fins if isinstance(f, list) and f[-1] == n))
        c.count("replacement_picks", sum(len(r["picks"]) for r in recs))
        c2.count("rows_compared", n * len(done))
        c2.count("rows_replaced", sum(len(r["picks"]) for r in done))
    answers = iter(drv.batch(lines))
    for (n, fins, recs, d, blob_mode, vectorize, ret_form) in all_recs:
        ans = next(answers)
        done = [r for r in recs if not r["raised"]]
        line = "warmR.Q bs=" + ";".join(f"{n}:{r['nfin']}:{r['ndrawn']}" for r in done)
        zs = [Fraction(t) for t in ans.split(",")] if done else []
        prob = None
        for it, r in enumerate(recs):
            rep = next(answers)
            if prob:
                continue
            if r["raised"]:
                if r["raised"] == "tape":
                    prob = f"iteration {it + 1}: the sampler asked for more than the {len(r['counts'])} scripted block(s) (np.random.rand calls {r['rand_calls']})"
                elif rep != "raise":
                    prob = f"iteration {it + 1}: the sampler raised at the cap after {len(r['rand_calls'])} blocks, the model returned {rep[:80]}"
                elif len(r["rand_calls"]) != 1000 or r["history_length"] != it:
                    prob = f"iteration {it + 1}: cap raised after {len(r['rand_calls'])} blocks with {r['history_length']} committed batches (expected 1000, {it})"
                continue
            if rep == "raise" or rep == "bad-op":
                prob = f"iteration {it + 1}: model: {rep}; the sampler stored a batch"
                continue
            z = zs[it]
            tags_s, flags_after, nd_s, _lz = rep.split(";")
            tags = [int(t) for t in tags_s.split(",")]
            if r["beta"] != 0.0:
                prob = f"iteration {it + 1}: beta={r['beta']} although the pool is below the ESS target (harness expectation)"
            elif int(nd_s) != r["ndrawn"]:
                prob = f"iteration {it + 1}: model n_drawn={nd_s}, scripted blocks {r['counts']}"
            elif abs(math.exp(r["logz"]) - float(z)) > 1e-12 * float(z):
                prob = f"iteration {it + 1}: recorded logz={r['logz']!r} (Z={math.exp(r['logz'])!r}), model Z={z} ({float(z)!r})"
            elif not np.array_equal(r["stored_u"], r["Uall"][tags]):
                prob = f"iteration {it + 1}: stored u rows are not the rows the model's loop + replacement select (tags {tags})"
            elif not r["whole"]:
                prob = f"iteration {it + 1}: a stored record is not whole (x != T(u) or logl != L(x) or blob != blob(x))"
            elif r["stored_inf"] or not r["stored_in_support"] or "0" in flags_after:
                prob = f"iteration {it + 1}: {r['stored_inf']} stored particle(s) with non-finite logl / outside the support"
            elif r["sites"]:
                prob = f"iteration {it + 1}: {r['sites']}"
        cfgd = {"n": n, "fins": fins, "d": d, "blob_mode": blob_mode, "vectorize": vectorize, "ret_form": ret_form}
        if prob:
            c.disagree(input=line, impl=prob, model=ans, **cfgd)
        c.sample({"op": line, "model_Z": ans, "impl_logz": [r["logz"] for r in done]})
        # ---- the record model
        sm = next(answers)
        prob2 = None
        raised_at = next((i for i, r in enumerate(recs) if r["raised"]), None)
        if raised_at is not None:
            if sm != f"error:{raised_at}":
                prob2 = f"the sampler raised in warm-up iteration {raised_at + 1} ({recs[raised_at]['raised']}); record model: {sm[:80]}"
        elif sm.startswith("error") or sm == "bad-op":
            prob2 = f"record model: {sm}; the real sampler ran {len(recs)} warm-up iteration(s)"
        else:
            mu, mx, ml, mb, mret = _sm_parse(sm)
            if not (len(mu) == len(mx) == len(ml) == len(recs)) or (mb is not None and len(mb) != len(recs)):
                prob2 = f"record model committed {len(mu)}/{len(mx)}/{len(ml)} batches, the real sampler {len(recs)}"
            for it, r in enumerate(recs):
                if prob2:
                    break
                if not np.array_equal(r["stored_u"], np.array(mu[it], dtype=float).reshape(n, d)):
                    prob2 = f"iteration {it + 1}: committed u rows differ from the record model"
                elif not np.array_equal(r["stored_x"], np.array(mx[it], dtype=float).reshape(n, d)):
                    prob2 = f"iteration {it + 1}: committed x rows differ from the record model"
                elif not np.array_equal(r["stored_l"], np.array([_stored_value(v, ret_form) for v in ml[it]], dtype=float)):
                    prob2 = f"iteration {it + 1}: committed logl differ from the record model: {r['stored_l'].tolist()} vs {ml[it]}"
                elif (mb is None) != (r["stored_b"] is None):
                    prob2 = f"iteration {it + 1}: blobs history {'absent' if r['stored_b'] is None else 'present'} in the real sampler, {'absent' if mb is None else 'present'} in the record model"
                elif mb is not None and not np.array_equal(r["stored_b"], np.array(mb[it], dtype=float)):
                    prob2 = f"iteration {it + 1}: committed blobs differ from the record model: {r['stored_b'].tolist()} vs {mb[it]}"
                elif (mret[it] is None) != (r["ret_blobs"] is None):
                    prob2 = f"iteration {it + 1}: returned blobs slot differs (None vs array)"
                elif mret[it] is not None and not np.array_equal(r["ret_blobs"], np.array(mret[it], dtype=float)):
                    prob2 = f"iteration {it + 1}: returned blobs differ from the record model"
        if prob2:
            c2.disagree(input=_sm_line(blob_mode, vectorize, recs)[:300], impl=prob2, model=sm[:300], **cfgd)
        c2.sample({"config": cfgd, "model_hist": sm[:200]})
    return [c, c2]


def _replay_target(rng, d, f):
    thr = 8.0 * (1.0 - f) - 4.0
    mu = np.array([rng.uniform(max(thr, -1.5), 3.0)] + [rng.uniform(-1.5, 1.5) for _ in range(d - 1)])
    s2 = rng.uniform(0.3, 1.5)

    def prior(u):
        return 8.0 * u - 4.0

    def like(x):
        if x[0] < thr:
            return -np.inf
        return -0.5 * float(np.sum((x - mu) ** 2)) / s2
    return prior, like


def _correspond_replay(tier, drv):
    from . import pipeline
    rng = common.rng_for("C11.replay")
    c = Corr("pipeline-warmup-replay", "toleranced Float (logz/ESS 1e-9, decisions and stored records exact, near-ties counted)")
    configs = [(k, r) for k in ("tpcn", "rwm") for r in ("syst", "mult")]
    n_runs = 40 if tier == "quick" else 320
    recs, lines = [], []
    for i in range(n_runs):
        kernel, resample = configs[i % 4]
        d = rng.choice([1, 2, 3])
        n = rng.choice([8, 16, 24])
        f = rng.choice([0.125, 0.25, 0.5, 0.75, 0.9375])
        ratio = rng.choice([1.5, 2.5, 3.5])
        prior, like = _replay_target(rng, d, f)
        seed = rng.randrange(2 ** 31)
        cfg = {"kernel": kernel, "resample": resample, "d": d, "n": n, "f": f, "ess_ratio": ratio, "seed": seed}
        np.random.seed(seed)
        rec = pipeline.Recorder(kernel, resample, n, d, like, prior, ess_ratio=ratio)
        rec.s._core._initialize_fresh()
        rec.s._core.n_total = 2 * n
        f8_at = None
        aborted = False
        try:
            k = 0
            while rec.s._core._not_termination() and k < 12:
                rec.iteration()
                last = rec.impl[-1]
                if last["beta"] == 0.0 and not np.any(np.isfinite(last["logl"])):
                    f8_at = k          # cannot happen since /repo 959029e (finding F8 repaired): reported below
                    break
                k += 1
        except Exception as e:  # noqa
            # duplicates made by the replacement leave few distinct particles when n is small: the trainer's global covariance
            # can be singular / indefinite (LinAlgError in ModeStatistics, `scale < 0` in the tpCN gamma draw).  That abort is
            # the F24 class of C18 (reported, see clauses/C11.md), not a statement of C11: the completed iterations are still
            # replayed.  Anything else is a disagreement.
            degenerate = isinstance(e, np.linalg.LinAlgError) or (isinstance(e, ValueError) and "scale < 0" in str(e))
            if not degenerate or not rec.impl:
                c.disagree(input=cfg, impl=f"raised {type(e).__name__}: {e}", model="runs", **cfg)
                continue
            aborted = True
        warm = sum(1 for it in rec.impl if it["beta"] == 0.0)
        annealed = len(rec.impl) - warm
        with_inf = sum(1 for t in rec.tapes if t.startswith("D/") and "x" in t.split("/")[2].split(","))
        inf_props = sum(t.count("x") for t in rec.tapes if t.startswith("A/"))
        recs.append((rec, cfg, f8_at))
        lines.append(rec.model_line())
        c.case((kernel, resample, d, n, f, ratio, seed), f8_at is None and with_inf >= 1 and warm >= 2 and annealed >= 1)
        c.count(f"{kernel}/{resample}")
        c.count(f"f={f}")
        c.count("warmup_iterations", warm)
        c.count("warmup_batches_with_inf", with_inf)
        c.count("annealing_iterations", annealed)
        c.count("inf_proposals_at_beta>0", inf_props)
        c.count("warmup_iterations_with_discarded_blocks", sum(1 for t in rec.tapes if t.startswith("D/") and len(t.split("/")) == 5))
        if aborted:
            c.count("aborted_degenerate_covariance_prefix_replayed")
    for (rec, cfg, f8_at), ans in zip(recs, drv.batch(lines)):
        if f8_at is not None:
            c.disagree(input=cfg, impl=f"batch {f8_at + 1} was stored without a single finite log-likelihood", model=ans[:200], **cfg)
            continue
        prob, tie = pipeline.compare(rec, ans)
        if tie:
            c.near_ties += 1
        if not prob and not tie:
            ev = ans.split("#")[2]
            _, z1 = rec.s.state.compute_logw_and_logz(1.0)
            if ev == "none" or not pipeline.close(common.hex2f(ev), float(z1)):
                prob = f"final evidence: implementation {float(z1)!r}, model {ev if ev == 'none' else common.hex2f(ev)!r}"
        if not prob:
            st = rec.s.state
            for k in range(st.get_history_length()):
                if not np.all(np.isfinite(np.array(st.get_history("logl", k), dtype=float))):
                    prob = f"batch {k + 1}: a stored log-likelihood is not finite"
                    break
        if prob:
            c.disagree(input=cfg, impl=prob, model=ans[:300], **cfg)
        c.sample({"config": cfg, "iterations": len(rec.impl), "betas": [round(it["beta"], 4) for it in rec.impl],
                  "logz": [round(it["logz"], 4) for it in rec.impl]})
    return c


def _correspond_real_rng(tier, drv):
    """unpatched numpy stream: the W model on the OBSERVED block counts, both reweighting modes, natural redraws"""
    from tempest import Sampler
    rng = common.rng_for("C11.realrng")
    c = Corr("real-rng-warmup", "numpy's own stream (seeded), nothing patched: recorded warm-up evidence vs the Rat model on the observed "
                                "(n, n_finite, n_drawn) (1e-12 relative); pooled finite count vs binomial(N, f): exact tail >= 1e-15")
    n_runs = 60 if tier == "quick" else 600
    lines, runs = [], []
    for i in range(n_runs):
        f = rng.choice([0.03125, 0.125, 0.25, 0.5, 0.75, 0.9375])
        n = rng.choice([4, 8, 16, 64, 256])
        k = rng.randint(2, 6)
        d = rng.choice([1, 2])
        vv = rng.choice([None, None, 0.5, 1.0])
        thr = 8.0 * (1.0 - f) - 4.0
        fin_log = []

        form = rng.choice(("py", "py", "np_f32") + VEC_FORMS)
        vec = form in VEC_FORMS

        def like(x, thr=thr, fin_log=fin_log, form=form, vec=vec):
            if vec:
                X = np.atleast_2d(x)
                vals = [(-np.inf if r[0] < thr else -0.5 * float(np.sum(r ** 2))) for r in X]
                fin_log.extend(v != -np.inf for v in vals)
                return _as_form(vals, form)
            l = -np.inf if x[0] < thr else -0.5 * float(np.sum(x ** 2))
            fin_log.append(l != -np.inf)
            return np.float32(l) if form == "np_f32" else l
        seed = rng.randrange(2 ** 31)
        np.random.seed(seed)
        s = Sampler(lambda u: 8.0 * u - 4.0, like, d, n_particles=n, clustering=False, ess_ratio=k - 0.5, volume_variation=vv,
                    vectorize=vec, n_steps=1, n_max_steps=1)
        s._core._initialize_fresh()
        its = []
        with _quiet(), warnings.catch_warnings():
            warnings.simplefilter("ignore")
            for it in range(k):
                m0 = len(fin_log)
                try:
                    cur = s.sample()
                except Exception as e:  # noqa  (a supported fraction f > 0 never exhausts 1000 blocks in practice)
                    its.append({"raised": f"{type(e).__name__}: {e}", "ndrawn": len(fin_log) - m0, "nfin": 0})
                    break
                ev = fin_log[m0:]
                stored = np.array(s.state.get_history("logl", it), dtype=float)
                its.append({"beta": float(cur["beta"]), "logz": float(cur["logz"]), "ndrawn": len(ev),
                            "nfin": int(sum(ev[-n:])) if len(ev) >= n else -1, "blocks_ok": len(ev) % n == 0 and len(ev) >= n and
                            all(not any(ev[j * n:(j + 1) * n]) for j in range(len(ev) // n - 1)),
                            "stored_inf": int(np.sum(~np.isfinite(stored)))})
        runs.append(({"f": f, "n": n, "k": k, "d": d, "volume_variation": vv, "seed": seed, "logl_form": form}, its))
        c.count(f"logl_form={form}")
        ok_its = [t for t in its if "raised" not in t]
        lines.append("warmR.Q bs=" + (";".join(f"{n}:{max(t['nfin'], 1)}:{max(t['ndrawn'], n)}" for t in ok_its) or "1:1:1"))
        c.case((f, n, k, d, vv, seed), any(t["nfin"] < n or t["ndrawn"] > n for t in its))
        c.count(f"f={f}")
        c.count(f"n={n}")
        c.count("mode=" + ("ess" if vv is None else "volume_variation"))
        c.count("iterations", k)
        c.count("iterations_with_discarded_blocks", sum(1 for t in its if t["ndrawn"] > n))
        c.count("draws", sum(t["ndrawn"] for t in its))
    for (cfg, its), ans in zip(runs, drv.batch(lines)):
        zs = [Fraction(t) for t in ans.split(",")]
        n, f = cfg["n"], cfg["f"]
        prob = None
        for it, t in enumerate(its):
            if "raised" in t:
                prob = f"iteration {it + 1}: the sampler raised {t['raised']} after {t['ndrawn']} draws (f = {f}, n = {n})"
                break
            z = zs[it]
            if t["beta"] != 0.0:
                prob = f"iteration {it + 1}: beta={t['beta']} although the pool is below the ESS target"
            elif not t["blocks_ok"]:
                prob = f"iteration {it + 1}: {t['ndrawn']} likelihood evaluations do not form discarded all--inf blocks of {n} followed by one kept block"
            elif t["stored_inf"]:
                prob = f"iteration {it + 1}: {t['stored_inf']} stored particle(s) with non-finite logl"
            elif abs(math.exp(t["logz"]) - float(z)) > 1e-12 * float(z):
                prob = f"iteration {it + 1}: recorded logz={t['logz']!r} (Z={math.exp(t['logz'])!r}), model Z={z} ({float(z)!r}) for (n, nfin, ndrawn)=({n}, {t['nfin']}, {t['ndrawn']})"
            if prob:
                break
        if not prob and all(t["ndrawn"] == n for t in its) and (1 - f) ** n <= 1e-3:
            # H_iid against the real generator.  Only runs in which nothing was redrawn (so the number of draws is not a
            # stopping time) and a block without a finite draw has probability <= 1e-3 (so conditioning on "nothing redrawn"
            # changes a tail probability by a factor <= 1.01): the pooled count is then binomial(N, f) and the EXACT two-sided
            # tail is used; the alarm level 1e-15 per run cannot be reached by a correct i.i.d. source in practice
            from scipy.stats import binom
            N = sum(t["ndrawn"] for t in its)
            F = sum(t["nfin"] for t in its)
            tail = min(float(binom.cdf(F, N, f)), float(binom.sf(F - 1, N, f)))
            c.count("binomial_tail_checks")
            if tail < 1e-15:
                prob = f"pooled finite count {F} of {N} draws has exact binomial({N}, {f}) tail probability {tail:.3g} < 1e-15"
        if prob:
            c.disagree(input=cfg, impl=prob, model=ans[:200], **cfg)
        c.sample({"config": cfg, "n_fin/n_drawn": [(t["nfin"], t["ndrawn"]) for t in its], "model_Z": ans[:120]})
    return c


def translators():
    """G19: Gen/WarmupSrc.lean is recompiled from the beta == 0 branch of /repo's steps/mutate.py on every run;
       Props/C11Source.lean proves that Model.WarmupR / Model.Warmup.batchZR / Model.PipelineR.warmupL unfold to the
       generated terms"""
    from translate import g19_warmup
    return [g19_warmup.generate()]


def correspond(tier):
    drv = common.Driver()
    return _correspond_evidence(tier, drv) + [_correspond_replay(tier, drv), _correspond_real_rng(tier, drv)]


# ------------------------------------------------------------------ property oracle on the real code
def _real_run(rng, f, ess_ratio, n):
    from tempest import Sampler
    thr = 8.0 * (1.0 - f) - 4.0

    def like(x):
        return -np.inf if x[0] < thr else -0.5 * float(np.sum(x ** 2))
    seed = rng.randrange(2 ** 31)
    np.random.seed(seed)
    s = Sampler(lambda u: 8.0 * u - 4.0, like, 2, n_particles=n, clustering=False, ess_ratio=ess_ratio, n_steps=1, n_max_steps=1)
    s._core._initialize_fresh()
    out = []
    with _quiet(), warnings.catch_warnings():
        warnings.simplefilter("ignore")
        for it in range(int(ess_ratio) + 2):
            try:
                cur = s.sample()
            except ValueError as e:
                if "no prior draw with finite log-likelihood" not in str(e):
                    raise
                out.append(("raised", str(e), n))
                break
            if cur["beta"] != 0.0:
                break
            stored = s.state.get_history("logl", it)
            out.append((float(cur["logz"]), int(np.sum(~np.isfinite(stored))), len(stored)))
    return seed, out


def _real_whole_run(h):
    from tempest import Sampler
    rng = common.rng_for(f"C11.search.{h['seed']}")
    prior, like = _replay_target(rng, h["d"], h["f"])
    np.random.seed(h["seed"])
    s = Sampler(prior, like, h["d"], n_particles=h["n"], clustering=False, sample=h["kernel"], resample=h["resample"],
                ess_ratio=h["ess_ratio"], n_steps=1, n_max_steps=2)
    s._core._initialize_fresh()
    s._core.n_total = 2 * h["n"]
    with _quiet(), warnings.catch_warnings():
        warnings.simplefilter("ignore")
        try:
            k = 0
            while s._core._not_termination() and k < 12:
                s.sample()
                k += 1
        except Exception:  # noqa  (aborts are C18's subject)
            pass
    for t in range(s.state.get_history_length()):
        l = np.array(s.state.get_history("logl", t), dtype=float)
        if np.any(~np.isfinite(l)):
            return f"batch {t + 1} (beta={float(s.state.get_history('beta')[t])!r}) stores {int(np.sum(~np.isfinite(l)))} non-finite log-likelihood(s) of {len(l)}"
    return None


def search(tier, hints):
    rng = common.rng_for("C11.search")
    found = []
    # scripted batches first (deterministic): the counted-once law with exact fractions
    scripted = [(4, [2, 2], {}), (4, [2, 2, 2], {}), (8, [4, 8, 4, 8], {}), (16, [4, 4, 4, 4, 4], {}), (2, [1, 1, 1, 1, 1, 1], {}),
                (8, [4, 4], {"blob_mode": "declared", "d": 2}), (8, [4, 8, 4], {"blob_mode": "undeclared", "d": 2}),
                (8, [2, 6], {"vectorize": True, "d": 3}), (4, [[0, 2], 2, [0, 0, 4]], {}), (2, [[0, 0, 1], [0, 2]], {"blob_mode": "undeclared"})] + \
               [(8, [4, 4, 8], {"vectorize": True, "d": 2, "ret_form": fm}) for fm in VEC_FORMS[1:]] + \
               [(4, [2, [0, 3], 4], {"ret_form": fm}) for fm in SCALAR_FORMS[1:]] + \
               [(h["n"], h["fins"], {k: h[k] for k in ("d", "blob_mode", "vectorize", "ret_form") if k in h}) for h in hints if "fins" in h][:5]
    for n, fins, kw in scripted:
        recs = run_warmup(rng, n, fins, **kw)
        fracs = [_fin_last(f) / _ndrawn(f, n) for f in fins if _corrected(f, n)]
        if not fracs:
            continue
        lo, hi = min(fracs), max(fracs)
        first_def = _corrected(fins[0], n)
        for it, r in enumerate(recs):
            if r["raised"]:
                if r["raised"] == "tape":
                    found.append({"what": f"warm-up iteration {it + 1} draws more than the scripted {len(r['counts'])} block(s) although the last one has a finite draw",
                                  "n": n, "fins": fins, **kw})
                break
            z = math.exp(r["logz"])
            if r["stored_inf"]:
                found.append({"what": f"warm-up batch {it + 1}: {r['stored_inf']} stored particle(s) with -inf logl", "n": n, "fins": fins, **kw})
                break
            if not r["stored_in_support"]:
                found.append({"what": f"warm-up batch {it + 1}: a stored particle lies outside the supported region", "n": n, "fins": fins, **kw})
                break
            if not r["whole"]:
                found.append({"what": f"warm-up batch {it + 1}: a stored record is not a whole prior draw (x != T(u), logl != L(x) or blob != blob(x))",
                              "n": n, "fins": fins, **kw})
                break
            upper = hi if first_def else 1.0
            if not (lo * (1 - 1e-9) <= z <= upper * (1 + 1e-9)):
                found.append({"what": f"warm-up evidence after {it + 1} prior-sampling iteration(s): exp(logz)={z!r}, but every recorded fraction n_finite/n_drawn lies in [{lo}, {upper}] "
                                      f"(fraction counted {'more than once' if z < lo else 'wrongly'})", "n": n, "fins": fins, **kw})
                break
        if len(found) >= 3:
            return found
    # whole real runs named by the replay suite's disagreements (plain runs, nothing patched): no -inf may be stored in any
    # batch that had a finite draw, at any temperature
    for h in [h for h in hints if "kernel" in h and "seed" in h][:5]:
        bad = _real_whole_run(h)
        if bad:
            found.append(dict(h, what=bad))
    if len(found) >= 3:
        return found
    # random real runs: binomial-error oracle
    grid = [(f, r, n) for f in (0.5, 0.1) for r in (2.5, 4.5) for n in (64, 256)]
    for f, r, n in grid[: (4 if tier == "quick" else len(grid))]:
        seed, out = _real_run(rng, f, r, n)
        pooled = 0
        for it, (logz, n_inf, m) in enumerate(out):
            if logz == "raised":
                found.append({"what": f"warm-up iteration {it + 1} gave up ({n_inf}) although a block of {n} draws has a finite draw with probability {1 - (1 - f) ** n:.6f}",
                              "f": f, "ess_ratio": r, "n": n, "seed": seed})
                break
            pooled += m
            se = math.sqrt((1 - f) / (f * n))          # SE of log of one batch's fraction
            if n_inf:
                found.append({"what": f"{n_inf} stored -inf particle(s) of {m} in warm-up batch {it + 1}", "f": f, "ess_ratio": r, "n": n, "seed": seed})
                break
            if abs(logz - math.log(f)) > 6 * se + 1e-9:
                found.append({"what": f"warm-up logz after {it + 1} iteration(s) = {logz:.4f}, log(f) = {math.log(f):.4f} (6 SE = {6 * se:.4f})",
                              "f": f, "ess_ratio": r, "n": n, "seed": seed})
                break
    return found[:5]


def replay(obj):
    f = obj.get("failing_input", obj)
    if "witness" in f.get("replay", {}):
        from . import witnesses
        return witnesses.ALL[f["replay"]["witness"]]()
    if "fins" in f:
        found = [x for x in search("quick", [f]) if x.get("fins") == f["fins"] and x.get("n") == f["n"]] or search("quick", [f])
        return {"fails": bool(found), "detail": found[:1]}
    if "kernel" in f and "seed" in f:
        bad = _real_whole_run(f)
        return {"fails": bool(bad), "detail": bad}
    found = search("quick", [])
    return {"fails": bool(found), "detail": found[:1]}
