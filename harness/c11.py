"""C11 — zero-likelihood prior regions are excluded and counted exactly once."""
import contextlib
import io
import math
import warnings
from fractions import Fraction

import numpy as np

from . import common
from .common import Corr

ID = "C11"
LEAN_MODULES = ["TempestVerif.Props.C11", "TempestVerif.Props.C11Pipeline"]
RULE = ("(1) warmup-evidence: real Sampler iterations in the prior-sampling phase (ess_ratio chosen so that beta stays 0 for 1..8 "
        "iterations; n_particles in {1,2,3,4,5,8,16,32,64}; d in {1,2}; with and without blobs; vectorised and per-point likelihood), "
        "np.random.rand replaced by a tape of dyadic points so that the number of finite draws of every batch is scripted "
        "(likelihood is -inf exactly on x0 < threshold), np.random.choice replaced by a tape; after every iteration (a) the recorded "
        "logz is compared with the Rat model's linear-space evidence (|exp(logz) - Z| <= 1e-12 Z), (b) the stored u rows must be, "
        "bit for bit, the drawn rows the replacement step of the pipeline model (`warm.rep` = Model.Pipeline.warmup) selects from the "
        "same picks, (c) every stored record must be whole (x = T(u), logl = L(x), blob = blob(x)) and every stored logl finite whenever "
        "the batch had a finite draw; 4% of the cases end with a batch with NO finite draw (the recorded finding F8), where model and "
        "code must both store the batch unchanged with Z = 0. Non-trivial = at least two warm-up iterations and at least one batch with "
        "-inf draws. "
        "(2) pipeline-warmup-replay: whole real Sampler runs (both kernels, both resamplers, d in {1,2,3}, n in {8,16,24}, supported "
        "prior fraction f in {1/8,...,15/16}, ess_ratio in {1.5,2.5,3.5}) through warm-up AND annealing, all randomness recorded on a "
        "tape and replayed by Model.Pipeline.runIters (`pipe.F`): beta, ESS, logz after reweighting, committed logz (1e-9), resampled "
        "indices, accept masks (a -inf proposal must be rejected) and the committed batches (tags -> u bytes, logl bit for bit) must "
        "agree; every stored logl of the real run must be finite. Runs that hit a batch with no finite draw stop there; the model must "
        "leave its domain at exactly that iteration (F8). Non-trivial = a batch with -inf draws, >= 2 warm-up and >= 1 annealing "
        "iteration.")
MODELLED = ["np.random.choice(finite_idx, size=k, replace=True) returns k elements of finite_idx (hypothesis `PicksOk` of the "
            "pipeline theorems; the suites replace / observe it)",
            "np.isinf / the likelihood: a draw is `none` on the tape iff its log-likelihood is not finite; NaN and +inf likelihoods are "
            "outside the statement",
            "a batch with NO finite draw is the recorded known finding F8 (stored as is, logz = -inf): `TapeOk.fin` excludes it from the "
            "theorems, `C11_all_inf_batch` and the F8 cases of both suites record what happens",
            "that the sampler stays at beta = 0 while the pool is below the ESS target is C05's theorem on the same pipeline model "
            "(`C05_warmup_ess`, used by `warm_reweight`); the pool condition is a hypothesis of `C11_pipeline_warmup`",
            "proposal generation, Hastings factors and Metropolis uniforms at beta > 0 arrive on the tape (C03's model); the pipeline "
            "model rejects a `none` proposal by definition and the replay compares the accept masks with the real ones",
            "C11_final is an identity for the mixture-importance estimator over a FINITE state space whose stored batches have their "
            "nominal tempered laws and exact normalisers on the supported region; that the finite adaptive particle system approaches "
            "those laws (MCMC equilibrium, law of large numbers: 'converges') is not proved (C01/C02 are partial for the same reason)",
            "volume-variation mode: the pipeline model and `C11_pipeline_warmup` are ESS mode only; the replacement step and "
            "`C11_warmup_all_finite` do not depend on the mode"]
ASSUMPTIONS = ["likelihood is deterministic and -inf exactly on the scripted region"]


def _quiet():
    return contextlib.redirect_stdout(io.StringIO())


def run_warmup(rng, n, fins, d=1, blobs=False, vectorize=False):
    """fins[k] = number of finite draws wanted in warm-up iteration k; returns per-iteration records"""
    from tempest import Sampler
    k = len(fins)
    thr = 0.0     # x0 < 0  <=> u0 < 1/2  -> -inf

    def like1(x):
        return -np.inf if x[0] < thr else -0.5 * float(np.sum(x ** 2))

    def like(x):
        if vectorize:
            return np.array([like1(r) for r in np.atleast_2d(x)])
        l = like1(x)
        return (l, float(x[0])) if blobs else l

    def prior(u):
        return 8.0 * u - 4.0
    s = Sampler(prior, like, d, n_particles=n, clustering=False, ess_ratio=k - 0.5, vectorize=vectorize,
                blobs_dtype=("f8" if blobs else None), n_steps=1, n_max_steps=1)
    s._core._initialize_fresh()
    recs = []
    for it in range(k):
        nfin = fins[it]
        u0 = [Fraction(rng.randrange(1 << 10, 1 << 11), 1 << 11) for _ in range(nfin)] + \
             [Fraction(rng.randrange(1, 1 << 10), 1 << 11) for _ in range(n - nfin)]
        rng.shuffle(u0)
        U = np.array([[float(v)] + [rng.random() for _ in range(d - 1)] for v in u0])
        picks = []

        def choice(a, size=None, replace=True, p=None):
            a = np.asarray(a)
            out = [int(a[rng.randrange(len(a))]) for _ in range(size)]
            picks.extend(out)
            return np.array(out, dtype=int)
        with common.patched(np.random, "rand", lambda *shape: U.copy()), common.patched(np.random, "choice", choice), \
                _quiet(), warnings.catch_warnings():
            warnings.simplefilter("ignore")
            cur = s.sample()
        su = np.array(s.state.get_history("u", it), dtype=float)
        sx = np.array(s.state.get_history("x", it), dtype=float)
        sl = np.array(s.state.get_history("logl", it), dtype=float)
        whole = all(np.array_equal(sx[j], prior(su[j])) and (sl[j] == like1(sx[j])) for j in range(n))
        if blobs:
            sb = np.array(s.state.get_history("blobs", it), dtype=float).reshape(n)
            whole = whole and all(sb[j] == sx[j][0] for j in range(n))
        # which drawn row each stored row is (drawn rows are pairwise distinct in u0 only up to repetition: match by bytes, first hit)
        recs.append({"beta": float(cur["beta"]), "logz": float(cur["logz"]), "n": n, "nfin": nfin,
                     "flags": "".join("1" if float(v) >= 0.5 else "0" for v in u0), "picks": picks,
                     "U": U, "stored_u": su, "whole": bool(whole),
                     "stored_inf": int(np.sum(~np.isfinite(sl))),
                     "stored_in_support": bool(np.all(sx[:, 0] >= thr))})
    return recs


def _correspond_evidence(tier, drv):
    rng = common.rng_for("C11")
    c = Corr("warmup-evidence", "exact-dyadic inputs; evidence compared in linear space with the Rat model (1e-12 relative); "
                                "replacement (stored rows) compared exactly with Model.Pipeline.warmup")
    n_cases = 250 if tier == "quick" else 4000
    lines, all_recs = [], []
    for _ in range(n_cases):
        n = rng.choice([1, 2, 3, 4, 5, 8, 16, 32, 64])
        k = rng.randint(1, 8)
        style = rng.random()
        fins = []
        for _ in range(k):
            if style < 0.25:
                fins.append(n if rng.random() < 0.5 else max(1, n // 2))
            elif style < 0.5:
                fins.append(max(1, n // 2))
            else:
                fins.append(rng.randint(1, n))
        f8 = rng.random() < 0.04
        if f8:
            fins[-1] = 0          # the recorded finding F8 as the LAST batch: stored as is, Z = 0
        vectorize = rng.random() < 0.2
        blobs = (not vectorize) and rng.random() < 0.3
        recs = run_warmup(rng, n, fins, d=rng.choice([1, 2]), blobs=blobs, vectorize=vectorize)
        lines.append("warm.Q bs=" + ";".join(f"{n}:{f}" for f in fins))
        for r in recs:
            lines.append(f"warm.rep fl={r['flags']} picks={','.join(map(str, r['picks'])) if r['picks'] else '-'}")
        all_recs.append((n, fins, recs))
        c.case((n, fins), k >= 2 and any(f < n for f in fins))
        c.count(f"warmups={k}")
        c.count(f"n={n}")
        c.count("some_batch_with_inf" if any(f < n for f in fins) else "all_finite")
        c.count("first_batch_all_finite" if fins[0] == n else "first_batch_with_inf")
        c.count("replacement_picks", sum(len(r["picks"]) for r in recs))
        if f8:
            c.count("F8_last_batch_no_finite_draw")
        if vectorize:
            c.count("vectorize")
        if blobs:
            c.count("blobs")
    answers = iter(drv.batch(lines))
    for (n, fins, recs) in all_recs:
        ans = next(answers)
        line = "warm.Q bs=" + ";".join(f"{n}:{f}" for f in fins)
        zs = [Fraction(t) for t in ans.split(",")]
        prob = None
        for it, (r, z) in enumerate(zip(recs, zs)):
            rep = next(answers)
            if prob:
                continue
            tags_s, flags_after, _lz = rep.split(";")
            tags = [int(t) for t in tags_s.split(",")]
            if r["beta"] != 0.0:
                prob = f"iteration {it + 1}: beta={r['beta']} although the pool is below the ESS target (harness expectation)"
            elif abs(math.exp(r["logz"]) - float(z)) > 1e-12 * float(z):
                prob = f"iteration {it + 1}: recorded logz={r['logz']!r} (Z={math.exp(r['logz'])!r}), model Z={z} ({float(z)!r})"
            elif not np.array_equal(r["stored_u"], r["U"][tags]):
                prob = f"iteration {it + 1}: stored u rows are not the rows the model's replacement selects (tags {tags})"
            elif not r["whole"]:
                prob = f"iteration {it + 1}: a stored record is not whole (x != T(u) or logl != L(x) or blob != blob(x))"
            elif r["nfin"] > 0 and (r["stored_inf"] or not r["stored_in_support"] or "0" in flags_after):
                prob = f"iteration {it + 1}: {r['stored_inf']} stored particle(s) with non-finite logl / outside the support"
            elif r["nfin"] == 0 and (r["stored_inf"] != n or "1" in flags_after):
                prob = f"iteration {it + 1}: batch without a finite draw: stored_inf={r['stored_inf']} (model: stored unchanged, F8)"
        if prob:
            c.disagree(input=line, impl=prob, model=ans, n=n, fins=fins)
        c.sample({"op": line, "model_Z": ans, "impl_logz": [r["logz"] for r in recs]})
    return c


def _replay_target(rng, d, f):
    thr = 8.0 * (1.0 - f) - 4.0
    mu = np.array([rng.uniform(max(thr, -1.5), 3.0)] + [rng.uniform(-1.5, 1.5) for _ in range(d - 1)])
    s2 = rng.uniform(0.3, 1.5)

    def prior(u):
        return 8.0 * u - 4.0

    def like(x):
        if x[0] < thr:
            return -np.inf
        return -0.5 * float(np.sum((x - mu) ** 2)) / s2
    return prior, like


def _correspond_replay(tier, drv):
    from . import pipeline
    rng = common.rng_for("C11.replay")
    c = Corr("pipeline-warmup-replay", "toleranced Float (logz/ESS 1e-9, decisions and stored records exact, near-ties counted)")
    configs = [(k, r) for k in ("tpcn", "rwm") for r in ("syst", "mult")]
    n_runs = 40 if tier == "quick" else 320
    recs, lines = [], []
    for i in range(n_runs):
        kernel, resample = configs[i % 4]
        d = rng.choice([1, 2, 3])
        n = rng.choice([8, 16, 24])
        f = rng.choice([0.125, 0.25, 0.5, 0.75, 0.9375])
        ratio = rng.choice([1.5, 2.5, 3.5])
        prior, like = _replay_target(rng, d, f)
        seed = rng.randrange(2 ** 31)
        cfg = {"kernel": kernel, "resample": resample, "d": d, "n": n, "f": f, "ess_ratio": ratio, "seed": seed}
        np.random.seed(seed)
        rec = pipeline.Recorder(kernel, resample, n, d, like, prior, ess_ratio=ratio)
        rec.s._core._initialize_fresh()
        rec.s._core.n_total = 2 * n
        f8_at = None
        aborted = False
        try:
            k = 0
            while rec.s._core._not_termination() and k < 12:
                rec.iteration()
                last = rec.impl[-1]
                if last["beta"] == 0.0 and not np.any(np.isfinite(last["logl"])):
                    f8_at = k
                    break
                k += 1
        except Exception as e:  # noqa
            # duplicates made by the replacement leave few distinct particles when n is small: the trainer's global covariance
            # can be singular / indefinite (LinAlgError in ModeStatistics, `scale < 0` in the tpCN gamma draw).  That abort is
            # the F24 class of C18 (reported, see clauses/C11.md), not a statement of C11: the completed iterations are still
            # replayed.  Anything else is a disagreement.
            degenerate = isinstance(e, np.linalg.LinAlgError) or (isinstance(e, ValueError) and "scale < 0" in str(e))
            if not degenerate or not rec.impl:
                c.disagree(input=cfg, impl=f"raised {type(e).__name__}: {e}", model="runs", **cfg)
                continue
            aborted = True
        warm = sum(1 for it in rec.impl if it["beta"] == 0.0)
        annealed = len(rec.impl) - warm
        with_inf = sum(1 for t in rec.tapes if t.startswith("D/") and "x" in t.split("/")[2].split(","))
        inf_props = sum(t.count("x") for t in rec.tapes if t.startswith("A/"))
        recs.append((rec, cfg, f8_at))
        lines.append(rec.model_line())
        c.case((kernel, resample, d, n, f, ratio, seed), f8_at is None and with_inf >= 1 and warm >= 2 and annealed >= 1)
        c.count(f"{kernel}/{resample}")
        c.count(f"f={f}")
        c.count("warmup_iterations", warm)
        c.count("warmup_batches_with_inf", with_inf)
        c.count("annealing_iterations", annealed)
        c.count("inf_proposals_at_beta>0", inf_props)
        if f8_at is not None:
            c.count("F8_batch_no_finite_draw")
        if aborted:
            c.count("aborted_degenerate_covariance_prefix_replayed")
    for (rec, cfg, f8_at), ans in zip(recs, drv.batch(lines)):
        if f8_at is not None:
            # the model excludes exactly this: `iterate` returns none at the iteration whose batch has no finite draw
            if ans != f"error:{f8_at}":
                c.disagree(input=cfg, impl=f"batch {f8_at + 1} has no finite draw (F8)", model=ans[:200], **cfg)
            continue
        prob, tie = pipeline.compare(rec, ans)
        if tie:
            c.near_ties += 1
        if not prob and not tie:
            ev = ans.split("#")[2]
            _, z1 = rec.s.state.compute_logw_and_logz(1.0)
            if ev == "none" or not pipeline.close(common.hex2f(ev), float(z1)):
                prob = f"final evidence: implementation {float(z1)!r}, model {ev if ev == 'none' else common.hex2f(ev)!r}"
        if not prob:
            st = rec.s.state
            for k in range(st.get_history_length()):
                if not np.all(np.isfinite(np.array(st.get_history("logl", k), dtype=float))):
                    prob = f"batch {k + 1}: a stored log-likelihood is not finite"
                    break
        if prob:
            c.disagree(input=cfg, impl=prob, model=ans[:300], **cfg)
        c.sample({"config": cfg, "iterations": len(rec.impl), "betas": [round(it["beta"], 4) for it in rec.impl],
                  "logz": [round(it["logz"], 4) for it in rec.impl]})
    return c


def correspond(tier):
    drv = common.Driver()
    return [_correspond_evidence(tier, drv), _correspond_replay(tier, drv)]


# ------------------------------------------------------------------ property oracle on the real code
def _real_run(rng, f, ess_ratio, n):
    from tempest import Sampler
    thr = 8.0 * (1.0 - f) - 4.0

    def like(x):
        return -np.inf if x[0] < thr else -0.5 * float(np.sum(x ** 2))
    seed = rng.randrange(2 ** 31)
    np.random.seed(seed)
    s = Sampler(lambda u: 8.0 * u - 4.0, like, 2, n_particles=n, clustering=False, ess_ratio=ess_ratio, n_steps=1, n_max_steps=1)
    s._core._initialize_fresh()
    out = []
    with _quiet(), warnings.catch_warnings():
        warnings.simplefilter("ignore")
        for it in range(int(ess_ratio) + 2):
            cur = s.sample()
            if cur["beta"] != 0.0:
                break
            stored = s.state.get_history("logl", it)
            out.append((float(cur["logz"]), int(np.sum(~np.isfinite(stored))), len(stored)))
    return seed, out


def _real_whole_run(h):
    from tempest import Sampler
    rng = common.rng_for(f"C11.search.{h['seed']}")
    prior, like = _replay_target(rng, h["d"], h["f"])
    np.random.seed(h["seed"])
    s = Sampler(prior, like, h["d"], n_particles=h["n"], clustering=False, sample=h["kernel"], resample=h["resample"],
                ess_ratio=h["ess_ratio"], n_steps=1, n_max_steps=2)
    s._core._initialize_fresh()
    s._core.n_total = 2 * h["n"]
    with _quiet(), warnings.catch_warnings():
        warnings.simplefilter("ignore")
        try:
            k = 0
            while s._core._not_termination() and k < 12:
                s.sample()
                k += 1
        except Exception:  # noqa  (aborts are C18's subject)
            pass
    for t in range(s.state.get_history_length()):
        l = np.array(s.state.get_history("logl", t), dtype=float)
        if np.any(~np.isfinite(l)) and np.any(np.isfinite(l)):
            return f"batch {t + 1} (beta={float(s.state.get_history('beta')[t])!r}) stores {int(np.sum(~np.isfinite(l)))} non-finite log-likelihood(s) among finite ones"
        if np.all(~np.isfinite(l)):
            return None          # F8: reported separately by the random-run oracle below / the witness
    return None


def search(tier, hints):
    rng = common.rng_for("C11.search")
    found = []
    # scripted batches first (deterministic): the counted-once law with exact fractions
    for n, fins in [(4, [2, 2]), (4, [2, 2, 2]), (8, [4, 8, 4, 8]), (16, [4, 4, 4, 4, 4]), (2, [1, 1, 1, 1, 1, 1])] + \
                   [(h["n"], h["fins"]) for h in hints if "fins" in h][:5]:
        recs = run_warmup(rng, n, fins)
        fracs = [f / n for f in fins if f < n]
        if not fracs:
            continue
        lo, hi = min(fracs), max(fracs)
        first_def = fins[0] < n
        for it, r in enumerate(recs):
            z = math.exp(r["logz"])
            if r["stored_inf"]:
                found.append({"what": f"warm-up batch {it + 1}: {r['stored_inf']} stored particle(s) with -inf logl although the batch had finite draws", "n": n, "fins": fins})
                break
            upper = hi if first_def else 1.0
            if not (lo * (1 - 1e-9) <= z <= upper * (1 + 1e-9)):
                found.append({"what": f"warm-up evidence after {it + 1} prior-sampling iteration(s): exp(logz)={z!r}, but every batch's finite fraction lies in [{lo}, {upper}] "
                                      f"(fraction counted {'more than once' if z < lo else 'wrongly'})", "n": n, "fins": fins})
                break
        if len(found) >= 3:
            return found
    # whole real runs named by the replay suite's disagreements (plain runs, nothing patched): no -inf may be stored in any
    # batch that had a finite draw, at any temperature
    for h in [h for h in hints if "kernel" in h and "seed" in h][:5]:
        bad = _real_whole_run(h)
        if bad:
            found.append(dict(h, what=bad))
    if len(found) >= 3:
        return found
    # random real runs: binomial-error oracle
    grid = [(f, r, n) for f in (0.5, 0.1) for r in (2.5, 4.5) for n in (64, 256)]
    for f, r, n in grid[: (4 if tier == "quick" else len(grid))]:
        seed, out = _real_run(rng, f, r, n)
        pooled = 0
        for it, (logz, n_inf, m) in enumerate(out):
            pooled += m
            se = math.sqrt((1 - f) / (f * n))          # SE of log of one batch's fraction
            if n_inf:
                found.append({"what": f"stored -inf particles in warm-up batch {it + 1}", "f": f, "ess_ratio": r, "n": n, "seed": seed,
                              **({"known_id": "F8_all_inf_batch"} if n_inf == m else {})})
                break
            if abs(logz - math.log(f)) > 6 * se + 1e-9:
                found.append({"what": f"warm-up logz after {it + 1} iteration(s) = {logz:.4f}, log(f) = {math.log(f):.4f} (6 SE = {6 * se:.4f})",
                              "f": f, "ess_ratio": r, "n": n, "seed": seed})
                break
    return found[:5]


def replay(obj):
    f = obj.get("failing_input", obj)
    if "witness" in f.get("replay", {}):
        from . import witnesses
        return witnesses.ALL[f["replay"]["witness"]]()
    if "fins" in f:
        found = search("quick", [f])
        return {"fails": bool(found), "detail": found[:1]}
    if "kernel" in f and "seed" in f:
        bad = _real_whole_run(f)
        return {"fails": bool(bad), "detail": bad}
    found = search("quick", [])
    return {"fails": bool(found), "detail": found[:1]}
