"""C11 — zero-likelihood prior regions are excluded and counted exactly once."""
import contextlib
import io
import math
import warnings
from fractions import Fraction

import numpy as np

from . import common
from .common import Corr

ID = "C11"
LEAN_MODULES = ["TempestVerif.Props.C11"]
RULE = ("real Sampler iterations in the prior-sampling phase (ess_ratio chosen so that beta stays 0 for 1..6 iterations), "
        "np.random.rand replaced by a tape of dyadic points so that the number of finite draws of every batch is scripted "
        "(likelihood is -inf exactly on x0 < threshold), np.random.choice replaced by a tape; after every iteration the recorded "
        "logz is compared with the Rat model's linear-space evidence (|exp(logz) - Z| <= 1e-12 Z) and every stored logl must be "
        "finite whenever the batch had a finite draw. Non-trivial = at least two warm-up iterations and at least one batch with "
        "-inf draws.")
MODELLED = ["the beta = 0 reweighting is modelled in linear space: Z = 1/sum_t (n_t/N)/Z_t (exact consequence of the C04 formula at beta = beta_t = 0)",
            "a batch with NO finite draw is the recorded known finding F8 (stored as is, logz = -inf); the generator keeps at least one finite draw per batch",
            "-inf produced at beta > 0 is never accepted (exp(-inf) = 0); NaN likelihoods are outside the statement"]
ASSUMPTIONS = ["likelihood is deterministic and -inf exactly on the scripted region"]


def _quiet():
    return contextlib.redirect_stdout(io.StringIO())


def run_warmup(rng, n, fins, d=1, blobs=False):
    """fins[k] = number of finite draws wanted in warm-up iteration k; returns per-iteration records"""
    from tempest import Sampler
    k = len(fins)
    thr = 0.0     # x0 < 0  <=> u0 < 1/2  -> -inf

    def like(x):
        l = -np.inf if x[0] < thr else -0.5 * float(np.sum(x ** 2))
        return (l, float(x[0])) if blobs else l
    s = Sampler(lambda u: 8.0 * u - 4.0, like, d, n_particles=n, clustering=False, ess_ratio=k - 0.5,
                blobs_dtype=("f8" if blobs else None), n_steps=1, n_max_steps=1)
    s._core._initialize_fresh()
    recs = []
    for it in range(k):
        nfin = fins[it]
        u0 = [Fraction(rng.randrange(1 << 10, 1 << 11), 1 << 11) for _ in range(nfin)] + \
             [Fraction(rng.randrange(1, 1 << 10), 1 << 11) for _ in range(n - nfin)]
        rng.shuffle(u0)
        U = np.array([[float(v)] + [rng.random() for _ in range(d - 1)] for v in u0])
        with common.patched(np.random, "rand", lambda *shape: U.copy()), \
                common.patched(np.random, "choice", lambda a, size=None, replace=True, p=None:
                               np.array([int(np.asarray(a)[rng.randrange(len(a))]) for _ in range(size)], dtype=int)), \
                _quiet(), warnings.catch_warnings():
            warnings.simplefilter("ignore")
            cur = s.sample()
        recs.append({"beta": float(cur["beta"]), "logz": float(cur["logz"]), "n": n, "nfin": nfin,
                     "stored_inf": int(np.sum(~np.isfinite(s.state.get_history("logl", it)))),
                     "stored_in_support": bool(np.all(s.state.get_history("x", it)[:, 0] >= thr))})
    return recs


def correspond(tier):
    drv = common.Driver()
    rng = common.rng_for("C11")
    c = Corr("warmup-evidence", "exact-dyadic inputs; evidence compared in linear space with the Rat model (1e-12 relative)")
    n_cases = 250 if tier == "quick" else 4000
    lines, all_recs = [], []
    for _ in range(n_cases):
        n = rng.choice([2, 3, 4, 8, 16, 32])
        k = rng.randint(1, 6)
        style = rng.random()
        fins = []
        for _ in range(k):
            if style < 0.25:
                fins.append(n if rng.random() < 0.5 else max(1, n // 2))
            elif style < 0.5:
                fins.append(max(1, n // 2))
            else:
                fins.append(rng.randint(1, n))
        recs = run_warmup(rng, n, fins, d=rng.choice([1, 2]), blobs=rng.random() < 0.3)
        lines.append("warm.Q bs=" + ";".join(f"{n}:{f}" for f in fins))
        all_recs.append((n, fins, recs))
        c.case((n, fins), k >= 2 and any(f < n for f in fins))
        c.count(f"warmups={k}")
        c.count("some_batch_with_inf" if any(f < n for f in fins) else "all_finite")
    for (n, fins, recs), line, ans in zip(all_recs, lines, drv.batch(lines)):
        zs = [Fraction(t) for t in ans.split(",")]
        prob = None
        for it, (r, z) in enumerate(zip(recs, zs)):
            if r["beta"] != 0.0:
                prob = f"iteration {it + 1}: beta={r['beta']} although the pool is below the ESS target (harness expectation)"
                break
            if abs(math.exp(r["logz"]) - float(z)) > 1e-12 * float(z):
                prob = f"iteration {it + 1}: recorded logz={r['logz']!r} (Z={math.exp(r['logz'])!r}), model Z={z} ({float(z)!r})"
                break
            if r["stored_inf"] or not r["stored_in_support"]:
                prob = f"iteration {it + 1}: {r['stored_inf']} stored particle(s) with non-finite logl / outside the support"
                break
        if prob:
            c.disagree(input=line, impl=prob, model=ans, n=n, fins=fins)
        c.sample({"op": line, "model_Z": ans, "impl_logz": [r["logz"] for r in recs]})
    return [c]


# ------------------------------------------------------------------ property oracle on the real code
def _real_run(rng, f, ess_ratio, n):
    from tempest import Sampler
    thr = 8.0 * (1.0 - f) - 4.0

    def like(x):
        return -np.inf if x[0] < thr else -0.5 * float(np.sum(x ** 2))
    seed = rng.randrange(2 ** 31)
    np.random.seed(seed)
    s = Sampler(lambda u: 8.0 * u - 4.0, like, 2, n_particles=n, clustering=False, ess_ratio=ess_ratio, n_steps=1, n_max_steps=1)
    s._core._initialize_fresh()
    out = []
    with _quiet(), warnings.catch_warnings():
        warnings.simplefilter("ignore")
        for it in range(int(ess_ratio) + 2):
            cur = s.sample()
            if cur["beta"] != 0.0:
                break
            stored = s.state.get_history("logl", it)
            out.append((float(cur["logz"]), int(np.sum(~np.isfinite(stored))), len(stored)))
    return seed, out


def search(tier, hints):
    rng = common.rng_for("C11.search")
    found = []
    # scripted batches first (deterministic): the counted-once law with exact fractions
    for n, fins in [(4, [2, 2]), (4, [2, 2, 2]), (8, [4, 8, 4, 8]), (16, [4, 4, 4, 4, 4]), (2, [1, 1, 1, 1, 1, 1])] + \
                   [(h["n"], h["fins"]) for h in hints if "fins" in h][:5]:
        recs = run_warmup(rng, n, fins)
        fracs = [f / n for f in fins if f < n]
        if not fracs:
            continue
        lo, hi = min(fracs), max(fracs)
        first_def = fins[0] < n
        for it, r in enumerate(recs):
            z = math.exp(r["logz"])
            if r["stored_inf"]:
                found.append({"what": f"warm-up batch {it + 1}: {r['stored_inf']} stored particle(s) with -inf logl although the batch had finite draws", "n": n, "fins": fins})
                break
            upper = hi if first_def else 1.0
            if not (lo * (1 - 1e-9) <= z <= upper * (1 + 1e-9)):
                found.append({"what": f"warm-up evidence after {it + 1} prior-sampling iteration(s): exp(logz)={z!r}, but every batch's finite fraction lies in [{lo}, {upper}] "
                                      f"(fraction counted {'more than once' if z < lo else 'wrongly'})", "n": n, "fins": fins})
                break
        if len(found) >= 3:
            return found
    # random real runs: binomial-error oracle
    grid = [(f, r, n) for f in (0.5, 0.1) for r in (2.5, 4.5) for n in (64, 256)]
    for f, r, n in grid[: (4 if tier == "quick" else len(grid))]:
        seed, out = _real_run(rng, f, r, n)
        pooled = 0
        for it, (logz, n_inf, m) in enumerate(out):
            pooled += m
            se = math.sqrt((1 - f) / (f * n))          # SE of log of one batch's fraction
            if n_inf:
                found.append({"what": f"stored -inf particles in warm-up batch {it + 1}", "f": f, "ess_ratio": r, "n": n, "seed": seed,
                              **({"known_id": "F8_all_inf_batch"} if n_inf == m else {})})
                break
            if abs(logz - math.log(f)) > 6 * se + 1e-9:
                found.append({"what": f"warm-up logz after {it + 1} iteration(s) = {logz:.4f}, log(f) = {math.log(f):.4f} (6 SE = {6 * se:.4f})",
                              "f": f, "ess_ratio": r, "n": n, "seed": seed})
                break
    return found[:5]


def replay(obj):
    f = obj.get("failing_input", obj)
    if "witness" in f.get("replay", {}):
        from . import witnesses
        return witnesses.ALL[f["replay"]["witness"]]()
    if "fins" in f:
        found = search("quick", [f])
        return {"fails": bool(found), "detail": found[:1]}
    found = search("quick", [])
    return {"fails": bool(found), "detail": found[:1]}
