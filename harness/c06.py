"""C06 — resampling returns exactly n valid indices and is unbiased."""
import contextlib
import io
import math
import warnings
from fractions import Fraction

import numpy as np

from . import common
from .common import Corr, f2hex, hex2f, frac2s, flist, parse_list

ID = "C06"
LEAN_MODULES = ["TempestVerif.Props.C06", "TempestVerif.Lemmas.CeilComb", "TempestVerif.Props.C06Loop", "TempestVerif.Props.C06X",
                "TempestVerif.Props.C06Sites", "TempestVerif.Props.C06Fp", "TempestVerif.Props.C06Pipeline",
                "TempestVerif.Props.C06Source"]
RULE = ("systematic: generated (n, w) x the COMPLETE finite partition of the offset u0 for that pair — every breakpoint frac(n*C_j), "
        "breakpoint +-2^-40, its two float neighbours, midpoints of consecutive breakpoints, 0.0 and nextafter(1,0); the REAL "
        "tempest.tools.systematic_resample is run with numpy.random.random replaced by u0. "
        "Regime Q: few-bit dyadic weights (sum exactly 1; 1+-2^-k for k in 20..40 on both sides of SQRTEPS=2^-26; sums 2, 1/2, 4; zeros, "
        "dominant weight, length 1, empty vector, n=0, TRAILING ZERO weights — fixed vectors and 15% of the random ones — which with the offset "
        "nextafter(1,0) of every partition exercise the cap at the last positive weight, /repo 5a51476); a case is compared exactly with the Rat model only after an audit showed every float "
        "operation of the Python (np.sum, w/s, (u0+i)/n, every running sum) to be exact for that input, otherwise it is sent to regime F. "
        "Regime F: bit-exact Float model (same operation order) on Dirichlet/skewed/unnormalised/all-zero weights of length 0..300, n up to 1000, "
        "with random and adversarial offsets (neighbours of the float breakpoints, 0, nextafter(1,0), 1-1e-12); weights are handed over as "
        "ndarray, list, tuple, a strided view — and, in regime Q and in Resampler.run, also float32 / int arrays and lists of Python ints whenever "
        "these carry exactly the same values (`forms_for`) — and the `random_state` argument is exercised (offset = first uniform after seeding). Every "
        "systematic case is evaluated twice on the model: with s = np.sum(w) passed in and with the modelled pairwise np.sum (systnp). "
        "np.sum: the Float model of numpy's pairwise summation vs np.sum bit-for-bit on vectors of length 0..1500 (all three code paths). "
        "multinomial: numpy legacy choice(p=w) under a seed vs the model fed with the uniforms the generator produces under the same seed "
        "(incl. size 0 and the empty vector). Resampler.run (both schemes, beta=0 warm-up branch, unknown scheme string, have_blobs on/off, "
        "clustering on/off with a stub clusterer) is driven on real StateManager histories whose particles carry their pool index; the "
        "indices it gathered with are compared with the model `resamplerRun`, and the gather of u/x/logl/blobs/labels is checked. "
        "Sampler.posterior(resample=True) on real runs vs the model `posteriorResample`, and from exp(logw - max) through the in-place "
        "normalisations and the recorded trimming mask vs `posteriorResampleNoTrim` / `posteriorResampleTrim`. "
        "choice-validation: weight vectors whose exact sum lies within a few 2^-54 of the acceptance thresholds 1 +- 2^-26, sums off by "
        "1e-6..1e-9, negative / -0.0 / NaN / inf entries, the empty vector, one dominant entry; the verdict of the real np.random.choice "
        "(accepted, or which ValueError) vs the Float model of kahan_sum + the checks in numpy's order. "
        "execute_iteration: real Sampler.sample() iterations (both schemes, ESS and volume-variation mode) observed at three points "
        "(weights into Reweighter._finalize_iteration, array and draws of the resampling call inside Resampler.run, beta): the received "
        "array vs `weightsAtResampler`, the indices vs `iterationResample`, no call while beta = 0. "
        "fp-count-law: the F generator with offsets snapped to the generator's grid k*2^-53: every float operation performed is audited "
        "against the standard model |fl(x)-x| <= 2^-53|x| and the proved bound of C06_fp_count_bound is evaluated exactly on the real output. "
        "Non-trivial = at least 2 weights and n >= 2 (the answer is not forced); for np.sum: at least 8 summands.")
MODELLED = ["second pass: numpy's validation of p in choice (kahan_sum, NaN / negative / |sum-1| > 2^-26, in that order) is modelled "
            "(`choiceCheck`) and compared on every rejected vector; the call sites (Reweighter normalisation, the Trainer's in-place "
            "normalisation, compute_posterior's normalisation and trimming mask) are modelled (`weightsAtResampler`, `iterationResample`, "
            "`posteriorResampleNoTrim/Trim`); IEEE arithmetic is modelled abstractly as rounded real arithmetic (`Props.C06.Fp.Rnd`: relative "
            "error 2^-53, monotone, idempotent, no over/underflow) — an assumption audited per operation by suite fp-count-law",
            "np.sum is modelled as numpy's pairwise summation (8 accumulators, blocks of 128, 0.+ identity) and checked bit-for-bit (suite np.sum); "
            "over the reals it is proved to be the sum (npSum_real)",
            "numpy legacy RandomState.choice(p=...) is modelled from its algorithm (cumsum, divide by last, searchsorted right)",
            "MT19937 is not modelled: the uniforms are read from the generator under the same seed (a tape)",
            "theorems about means and the exact floor/ceil law are at exact real arithmetic; for rounded arithmetic the quantitative count law "
            "(C06_fp_count_bound) and `a zero-weight particle is never selected` (C06_fp_zero_weight_never) are proved; "
            "length/range/monotone/totality and the loop specification (C06_syst_loop_spec) are proved for every scalar type, Float included",
            "the gather u[idx], x[idx], ... and the clusterer are outside the Lean model (checked here on tagged particles; owned by C07)"]
ASSUMPTIONS = ["weights are finite and non-negative (Reweighter output); NaN/inf weights are outside the statement — for the multinomial scheme "
               "this is no longer an assumption: numpy's own validation establishes it (C06_choice_valid), and inside a run the array handed "
               "over always passes it (C06_iteration_mult_valid)",
               "inside a run (execute_iteration, posterior) the weights reaching either routine sum to exactly 1 over the reals "
               "(weightsAtResampler_real, C06_posterior_law_*), so the literal floor/ceil clause holds there with no side condition; the "
               "tolerance band of finding F20 is reachable only by calling tools.systematic_resample directly",
               "a zero-weight particle is never selected — every index, every sum with a positive total, both schemes, exact and rounded "
               "arithmetic (C06_syst_zero_weight_never, C06_mult_zero_weight_never, C06_fp_zero_weight_never); before /repo 5a51476 the "
               "last index was selected with weight 0 when the running sum fell short of the last position (fixed finding F36; "
               "C06_syst_zero_weight_last_deficit is the witness on the old rule `systematicOld`)",
               "numpy.random.random() and random_sample() return values in [0,1)",
               "length / range / monotone / no-exception are proved with no assumption on the weights or their sum (any scalar type). "
               "Count law: exact floor/ceil + closed form for sum(w) = 1 and for the renormalised branch (|sum(w)-1| > 2^-26, law for w/sum(w)); "
               "for EVERY sum the closed form with clamped cell edges (C06_syst_count_any_sum) and |count_j - n*w_j| < 1 + n*|sum(w)-1| "
               "(C06_syst_count_bound; < 1 + n*2^-26 on the accepted band). The literal floor/ceil clause is false inside the band "
               "(known finding F20: w=[2^-30,1], n=2, u0=0 -> [0,1] although n*w_1 = 2; C06_syst_floor_ceil_needs_exact_sum)",
               "Unbiasedness: Lebesgue integral over u0 in [0,1): exactly n*w_j for sum(w)=1, n*w_j/sum(w) when renormalised; for every sum "
               "the mean is n*(e_{j+1}-e_j) with bias <= n*|sum(w)-1| (exactly 0 for every index but the last one of positive weight when sum(w) <= 1, that index absorbing "
               "n*(1-sum(w)))",
               "multinomial: n*w_i/sum(w) expected copies is proved for n independent uniform draws (product Lebesgue measure on [0,1)^n); "
               "that MT19937 output behaves as such draws is assumed"]

SQRTEPS = 2.0 ** -26
ONE_M = math.nextafter(1.0, 0.0)


# ------------------------------------------------------------------ the real code
def _as_form(wf, form):
    if form == "list":
        return [float(x) for x in wf]
    if form == "tuple":
        return tuple(float(x) for x in wf)
    if form == "strided":
        a = np.zeros(2 * len(wf), dtype=float)
        a[::2] = wf
        a[1::2] = 7.5
        return a[::2]
    if form == "float32":
        return np.array(wf, dtype=np.float32)
    if form == "int":
        return np.array([int(x) for x in wf], dtype=int)
    if form == "intlist":
        return [int(x) for x in wf]
    return np.array(wf, dtype=float)


def _pow2(fr):
    return fr > 0 and ((fr.numerator == 1 and fr.denominator & (fr.denominator - 1) == 0)
                       or (fr.denominator == 1 and fr.numerator & (fr.numerator - 1) == 0))


def forms_for(wf):
    """the input forms that carry exactly the values `wf`: always list / tuple / non-contiguous view; a float32 array when every value
    and every partial sum is a float32 and the total is a power of two (so that neither the running sum nor a renormalising
    division rounds differently in single precision); an int array / a list of Python ints when every value is an integer"""
    out = ["list", "tuple", "strided"]
    if wf and all(math.isfinite(x) and float(np.float32(x)) == x for x in wf):
        acc, ex, ok = np.float32(0), Fraction(0), True
        for x in wf:
            acc = np.float32(acc + np.float32(x))
            ex += Fraction(x)
            ok = ok and Fraction(float(acc)) == ex
        if ok and _pow2(ex):
            out.append("float32")
    if wf and all(math.isfinite(x) and float(x).is_integer() for x in wf):
        out += ["int", "intlist"]
    return out


def _real_syst(n, wf, u0f, form="array"):
    from tempest.tools import systematic_resample
    with common.patched(np.random, "random", lambda *a, **k: u0f), warnings.catch_warnings():
        warnings.simplefilter("ignore")
        try:
            return [int(i) for i in systematic_resample(n, _as_form(wf, form))]
        except Exception as e:  # noqa
            return type(e).__name__


def _real_syst_seeded(n, wf, seed):
    """the `random_state` argument: the routine seeds the global generator itself and draws its own offset"""
    from tempest.tools import systematic_resample
    st = np.random.get_state()
    try:
        np.random.seed(seed)
        u0f = float(np.random.random())
        with warnings.catch_warnings():
            warnings.simplefilter("ignore")
            try:
                r = [int(i) for i in systematic_resample(n, np.array(wf, dtype=float), random_state=seed)]
            except Exception as e:  # noqa
                r = type(e).__name__
    finally:
        np.random.set_state(st)
    return u0f, r


def _np_sum(wf):
    with warnings.catch_warnings():
        warnings.simplefilter("ignore")
        return float(np.sum(np.array(wf, dtype=float)))


def _show(r):
    return r if isinstance(r, str) else flist(r, str)


# ------------------------------------------------------------------ exactness audit (regime Q admission)
def _effective(w):
    """exact effective weights: w/sum if |sum-1| > 2^-26 else w (None if sum is 0)"""
    S = sum(w, Fraction(0))
    if abs(S - 1) > Fraction(1, 2 ** 26):
        if S == 0:
            return None
        return [x / S for x in w]
    return list(w)


def exact_audit(n, w, u0):
    """True iff every float operation systematic_resample performs on (n, w, u0) is exact.
    w, u0: Fractions.  Computed, not assumed: each float result is compared with the exact rational."""
    try:
        wf = [float(x) for x in w]
        u0f = float(u0)
    except OverflowError:
        return False
    if any(Fraction(a) != b for a, b in zip(wf, w)) or Fraction(u0f) != u0:
        return False
    if not w:
        return True
    S = sum(w, Fraction(0))
    s = _np_sum(wf)
    if Fraction(s) != S:
        return False
    arr = np.array(wf, dtype=float)
    if abs(s - 1.0) > SQRTEPS:
        if s == 0:
            return False
        arr = arr / s
        if any(Fraction(float(a)) != b / S for a, b in zip(arr, w)):
            return False
    if n > 0:
        pos = (u0f + np.arange(n)) / n
        if any(Fraction(float(p)) != (u0 + i) / n for i, p in enumerate(pos)):
            return False
    c = arr[0]
    ce = Fraction(float(arr[0]))
    for j in range(1, len(arr)):
        c = c + arr[j]
        ce = ce + Fraction(float(arr[j]))
        if Fraction(float(c)) != ce:
            return False
    return True


def breakpoints(n, v):
    """offsets in [0,1) at which some position (u0+i)/n equals a cumulative sum of v (exact), plus 0"""
    bps = {Fraction(0)}
    c = Fraction(0)
    for x in v:
        c += x
        t = n * c
        bps.add(t - math.floor(t))
    return sorted(bps)


def offset_partition(n, w):
    """the complete finite partition of [0,1) for (n, w) as a list of (tag, Fraction offset)"""
    v = _effective(w) if w else None
    bps = breakpoints(n, v) if v else [Fraction(0)]
    out = [("zero", Fraction(0)), ("one-", Fraction(ONE_M))]
    tiny = Fraction(1, 2 ** 40)
    for k, b in enumerate(bps):
        out.append(("bp", b))
        for d in (tiny, -tiny):
            if 0 <= b + d < 1:
                out.append(("bp+-2^-40", b + d))
        try:
            bf = float(b)
        except OverflowError:
            continue
        for nb in (math.nextafter(bf, 2.0), math.nextafter(bf, -1.0)):
            if 0.0 <= nb < 1.0:
                out.append(("bp-nbr", Fraction(nb)))
        nxt = bps[k + 1] if k + 1 < len(bps) else Fraction(1)
        out.append(("mid", (b + nxt) / 2))
    seen, res = set(), []
    for tag, q in out:
        if q not in seen and 0 <= q < 1:
            seen.add(q)
            res.append((tag, q))
    return res


# ------------------------------------------------------------------ generators
def _composition(rng, total, m, zeros=0.2):
    """random composition of the integer `total` into m non-negative parts"""
    if m == 1:
        return [total]
    cuts = sorted(rng.randint(0, total) for _ in range(m - 1))
    parts = [b - a for a, b in zip([0] + cuts, cuts + [total])]
    if rng.random() < zeros and m > 2:
        i = rng.randrange(m)
        j = rng.randrange(m)
        if i != j:
            parts[j] += parts[i]
            parts[i] = 0
    return parts


def gen_Q_pairs(rng, tier):
    """(tag, n, w as Fractions) — dyadic weight vectors"""
    F = Fraction
    pairs = []
    fixed = [
        [F(1, 2), F(1, 4), F(1, 4)], [F(1)], [F(0), F(1)], [F(1), F(0)], [F(0), F(0), F(1), F(0)],
        [F(1, 2), F(1, 2)], [F(1, 4)] * 4, [F(1) - F(1, 1024), F(1, 1024)], [F(1, 1024), F(1) - F(1, 1024)],
        [F(1, 8), F(0), F(3, 8), F(0), F(1, 2)], [F(3, 8), F(5, 8)], [F(1, 16)] * 16,
        [F(1, 2 ** 30), F(1)], [F(1), F(1, 2 ** 30)],
        # trailing zero weights (never to be selected since /repo 5a51476, also at u0 = nextafter(1,0) and with a deficit)
        [F(1, 2), F(1, 2), F(0)], [F(1, 2), F(1, 2) - F(1, 2 ** 30), F(0)], [F(1, 4)] * 4 + [F(0), F(0)], [F(0), F(1), F(0)],
        [F(1, 2) - F(1, 2 ** 40), F(1, 2), F(0), F(0)], [F(0), F(0)],
    ]
    for w in fixed:
        for n in (1, 2, 4, 8):
            pairs.append(("fixed", n, w))
    pairs.append(("empty", 3, []))
    pairs.append(("empty", 0, []))
    pairs.append(("n0", 0, [F(1, 2), F(1, 2)]))
    pairs.append(("n0", 0, [F(1)]))
    reps = 150 if tier == "quick" else 1500
    for _ in range(reps):
        B = rng.choice([2, 3, 4, 6, 10])
        m = rng.randint(1, 8)
        w = [F(p, 2 ** B) for p in _composition(rng, 2 ** B, m)]
        n = rng.choice([1, 2, 4, 4, 8, 16, 32, 3, 5, 6, 7, 10])
        kind = rng.random()
        tag = "sum1"
        if kind < 0.35:
            k = rng.choice([20, 25, 26, 27, 30, 40])
            i = rng.randrange(m)
            e = F(1, 2 ** k)
            if rng.random() < 0.5 and w[i] >= e:
                w = w[:i] + [w[i] - e] + w[i + 1:]
                tag = f"sum1-2^-{k}"
            else:
                w = w[:i] + [w[i] + e] + w[i + 1:]
                tag = f"sum1+2^-{k}"
        elif kind < 0.5:
            sc = rng.choice([F(2), F(1, 2), F(4), F(1, 4)])
            w = [x * sc for x in w]
            tag = f"sum{frac2s(sc)}"
        if rng.random() < 0.15:
            w = w + [F(0)] * rng.randint(1, 3)
            tag += "+trailing-zeros"
        pairs.append((tag, n, w))
    return pairs


def _dirichlet(rng, m, alpha):
    g = [rng.gammavariate(alpha, 1.0) for _ in range(m)]
    s = sum(g)
    if s == 0:
        g = [1.0] * m
        s = float(m)
    return [x / s for x in g]


def gen_F_pairs(rng, tier):
    """(tag, n, wf) — non-dyadic weight vectors"""
    pairs = [("tenth", 10, [0.1] * 10), ("tenth", 7, [0.1] * 10), ("quarter-1e-9", 4, [0.25 * (1 - 1e-9)] * 4),
             ("docstring", 4, [0.6, 0.2, 0.15, 0.05]), ("third", 3, [1 / 3] * 3), ("third", 6, [1 / 3] * 3),
             ("allzero", 3, [0.0, 0.0]), ("single", 5, [1.0]), ("single", 1, [0.9999999999999999]),
             # trailing zero weights with a running sum that falls short of 1 (0.1*10 accumulates to 0.9999999999999999): F36
             ("trailing-zeros", 1, [0.1] * 10 + [0.0]), ("trailing-zeros", 10, [0.1] * 10 + [0.0]), ("trailing-zeros", 7, [0.1] * 10 + [0.0] * 3),
             ("trailing-zeros", 1, [0.5, 0.5 - 2.0 ** -30, 0.0]), ("trailing-zeros", 3, [1 / 3] * 3 + [0.0, 0.0])]
    reps = 200 if tier == "quick" else 4000
    for _ in range(reps):
        k = rng.random()
        if k < 0.6:
            m = rng.randint(1, 12)
        elif k < 0.9:
            m = rng.randint(13, 80)
        else:
            m = rng.randint(81, 300)
        kind = rng.random()
        if kind < 0.45:
            w = _dirichlet(rng, m, rng.choice([0.1, 0.5, 1.0, 10.0]))
            tag = "dirichlet"
        elif kind < 0.6:
            r = rng.uniform(0.05, 2.0)
            e = [math.exp(-r * i) for i in range(m)]
            s = sum(e)
            w = [x / s for x in e]
            tag = "skewed"
        elif kind < 0.7:
            w = _dirichlet(rng, m, 1.0)
            for _ in range(rng.randint(1, max(1, m // 2))):
                w[rng.randrange(m)] = 0.0
            s = sum(w)
            w = [x / s for x in w] if s > 0 else [1.0 / m] * m
            tag = "zeros"
        elif kind < 0.85:
            # sum off by a relative amount on either side of the tolerance 2^-26 ~ 1.49e-8
            w = _dirichlet(rng, m, 1.0)
            d = rng.choice([1e-6, 1e-7, 3e-8, 1.6e-8, 1.4e-8, 1e-8, 1e-9, 1e-12]) * rng.choice([1, -1])
            w = [x * (1 + d) for x in w]
            tag = "sum-off-%g" % abs(d)
        else:
            sc = rng.choice([3.7, 0.01, 123.0, 1e-8, 1e6])
            w = [x * sc for x in _dirichlet(rng, m, 1.0)]
            tag = "unnormalised"
        n = rng.choice([1, 2, 3, 5, 8, 13, 32, 64, m, m, 2 * m + 1])
        if rng.random() < 0.12:
            w = list(w) + [0.0] * rng.randint(1, 4)
            tag += "+trailing-zeros"
        pairs.append((tag, n, w))
    return pairs


def _running_sums(wf, s):
    arr = np.array(wf, dtype=float)
    with warnings.catch_warnings():
        warnings.simplefilter("ignore")
        if abs(s - 1.0) > SQRTEPS:
            arr = arr / s
    out, c = [], None
    for x in arr:
        c = x if c is None else c + x
        out.append(float(c))
    return out


def F_offsets(rng, n, wf, k_adv, k_rand):
    offs = [("zero", 0.0), ("one-", ONE_M), ("1-1e-12", 1 - 1e-12)]
    cs = [c for c in _running_sums(wf, _np_sum(wf)) if math.isfinite(c)]
    for _ in range(k_adv):
        if not cs or n == 0:
            break
        c = Fraction(rng.choice(cs))
        t = n * c
        b = float(t - math.floor(t))
        for _ in range(rng.randint(0, 2)):
            b = math.nextafter(b, rng.choice([2.0, -1.0]))
        if 0.0 <= b < 1.0:
            offs.append(("near-bp", b))
    for _ in range(k_rand):
        offs.append(("random", rng.random()))
    return offs


# ------------------------------------------------------------------ correspondence: systematic
def _q_line(n, w, u0):
    return f"syst.Q n={n} w={flist(w, frac2s)} u0={frac2s(u0)}"


def _f_line(n, wf, u0f):
    return f"syst.F n={n} s={f2hex(_np_sum(wf))} w={flist(wf, f2hex)} u0={f2hex(u0f)}"


def _np_line(line):
    """the same operation on the self-contained model (np.sum modelled as numpy's pairwise summation, not passed in)"""
    toks = [t for t in line.split(" ") if not t.startswith("s=")]
    toks[0] = toks[0].replace("syst.", "systnp.")
    return " ".join(toks)


def _syst_suites(tier, drv):
    cq = Corr("systematic-Q", "exact-dyadic (Rat model), admitted by the float-exactness audit")
    cf = Corr("systematic-F", "bit-exact (Float model): both with s=np.sum(w) passed in and with the modelled pairwise np.sum")
    jobs = []   # (corr, line, n, wf, u0f, tag, otag, form)
    rng = common.rng_for("C06.Q")
    for tag, n, w in gen_Q_pairs(rng, tier):
        wf_ok = True
        try:
            wf = [float(x) for x in w]
        except OverflowError:
            wf_ok = False
        if not wf_ok:
            continue
        part = offset_partition(n, w)
        if len(part) > 60:
            keep = [p for p in part if p[0] in ("zero", "one-")]
            rest = [p for p in part if p[0] not in ("zero", "one-")]
            rng.shuffle(rest)
            part = keep + rest[:58]
        for otag, u0 in part:
            u0f = float(u0)
            if Fraction(u0f) != u0:
                # the exact midpoint / shifted breakpoint is not a double: use the double next to it (still inside the same cell
                # or on its boundary; either way both sides receive the same double)
                u0 = Fraction(u0f)
                if not (0 <= u0 < 1):
                    continue
            form = rng.choice(["array"] * 3 + forms_for(wf)) if wf else "array"
            if exact_audit(n, w, u0):
                jobs.append((cq, _q_line(n, w, u0), n, wf, u0f, tag, otag, form))
            else:
                if form in ("float32", "int", "intlist"):
                    form = "array"
                jobs.append((cf, _f_line(n, wf, u0f), n, wf, u0f, tag, otag + "(inexact->F)", form))
    rng = common.rng_for("C06.F")
    fpairs = gen_F_pairs(rng, tier)
    for tag, n, wf in fpairs:
        for otag, u0f in F_offsets(rng, n, wf, 5, 4):
            form = rng.choice(["array"] * 7 + ["list", "tuple", "strided"])
            jobs.append((cf, _f_line(n, wf, u0f), n, wf, u0f, tag, otag, form))
    # edge shapes in the Float regime too
    for n, wf in ((3, []), (0, []), (0, [0.5, 0.5]), (0, [1.0]), (1, [1.0]), (1000, [0.25, 0.75]), (257, [0.1] * 10)):
        for u0f in (0.0, 0.5, ONE_M):
            jobs.append((cf, _f_line(n, wf, u0f), n, wf, u0f, "edge-shape", "fixed", "array"))
    # the random_state argument
    seeded = []
    for tag, n, wf in fpairs[:: max(1, len(fpairs) // (40 if tier == "quick" else 400))]:
        seed = rng.randrange(2 ** 31)
        u0f, r = _real_syst_seeded(n, wf, seed)
        seeded.append((cf, _f_line(n, wf, u0f), n, wf, u0f, tag, "random_state", r))
    lines = [j[1] for j in jobs] + [j[1] for j in seeded]
    res = drv.batch(lines + [_np_line(x) for x in lines])
    res1, res2 = res[:len(lines)], res[len(lines):]
    allj = [(j[:7], _show(_real_syst(j[2], j[3], j[4], j[7])), j[7]) for j in jobs] + [(j[:7], _show(j[7]), "random_state") for j in seeded]
    for ((c, line, n, wf, u0f, tag, otag), impl, form), ans, ans_np in zip(allj, res1, res2):
        c.case((n, [f2hex(x) for x in wf], f2hex(u0f), form), len(wf) >= 2 and n >= 2)
        c.count("w:" + tag)
        c.count("u0:" + otag)
        c.count("input:" + form)
        c.count("len<=8" if len(wf) <= 8 else "len<=80" if len(wf) <= 80 else "len<=300")
        c.count("n<=64" if n <= 64 else "n<=1000")
        s = _np_sum(wf)
        c.count("renormalised" if abs(s - 1.0) > SQRTEPS else ("sum==1" if s == 1.0 else "within-tolerance"))
        if impl in ("IndexError",):
            c.count("IndexError")
        if impl != ans:
            c.disagree(input=line, impl=impl, model=ans, kind="syst", n=n, w_hex=[f2hex(x) for x in wf], u0_hex=f2hex(u0f), form=form)
        elif impl != ans_np:
            c.disagree(input=_np_line(line), impl=impl, model=ans_np, kind="syst", n=n, w_hex=[f2hex(x) for x in wf], u0_hex=f2hex(u0f),
                       note="model with np.sum inside", form=form)
        c.sample({"op": line if len(line) < 300 else line[:300] + "...", "impl": impl[:120], "model": ans[:120]})
    return [cq, cf]


def _npsum_suite(tier, drv):
    c = Corr("np.sum", "bit-exact (Float model of numpy's pairwise summation)")
    rng = common.rng_for("C06.npsum")
    arrs = [("weights", wf) for _, _, wf in gen_F_pairs(common.rng_for("C06.F"), tier)]
    for _ in range(400 if tier == "quick" else 6000):
        n = rng.choice([rng.randint(0, 20), rng.randint(0, 300), rng.randint(120, 140), rng.randint(250, 270), rng.randint(0, 1500)])
        k = rng.random()
        if k < 0.4:
            arrs.append(("uniform", [rng.random() for _ in range(n)]))
        elif k < 0.7:
            arrs.append(("mixed-magnitude", [abs(rng.gauss(0, 1)) * 10 ** rng.randint(-12, 12) for _ in range(n)]))
        elif k < 0.8:
            arrs.append(("signed", [rng.gauss(0, 1) * 10 ** rng.randint(-6, 6) for _ in range(n)]))
        elif k < 0.85:
            arrs.append(("neg-zeros", [-0.0] * n))
        else:
            arrs.append(("dirichlet", _dirichlet(rng, max(n, 1), 0.3)))
    res = drv.batch(["npsum.F w=" + flist(a, f2hex) for _, a in arrs])
    for (tag, a), ans in zip(arrs, res):
        impl = f2hex(_np_sum(a))
        c.case((tag, [f2hex(x) for x in a]), len(a) >= 8)
        c.count("kind:" + tag)
        c.count("n<8" if len(a) < 8 else "n<=128" if len(a) <= 128 else "n>128 (recursive split)")
        if impl != ans:
            c.disagree(input="npsum.F n=%d" % len(a), impl=impl, model=ans, w_hex=[f2hex(x) for x in a][:40])
        c.sample({"op": "npsum.F (%d values)" % len(a), "impl": impl, "model": ans})
    return c


# ------------------------------------------------------------------ correspondence: multinomial
def _mult_weights(rng, tier):
    F = Fraction
    out = [("fixed", [0.5, 0.25, 0.25]), ("fixed", [1.0]), ("fixed", [0.0, 1.0]), ("fixed", [0.0, 0.0, 1.0, 0.0]),
           ("fixed", [0.1] * 10), ("fixed", [0.6, 0.2, 0.15, 0.05]), ("fixed", [1 - 2.0 ** -10, 2.0 ** -10]),
           ("fixed", [2.0 ** -30, 1.0]), ("fixed", [0.5, 0.5 - 2.0 ** -30]), ("empty", []), ("empty", [])]
    for _ in range(300 if tier == "quick" else 5000):
        k = rng.random()
        m = rng.randint(1, 12) if rng.random() < 0.7 else rng.randint(13, 200)
        if k < 0.3:
            B = rng.choice([2, 3, 4, 6, 10])
            out.append(("dyadic", [p / 2 ** B for p in _composition(rng, 2 ** B, m)]))
        elif k < 0.7:
            out.append(("dirichlet", _dirichlet(rng, m, rng.choice([0.1, 1.0, 10.0]))))
        elif k < 0.85:
            w = _dirichlet(rng, m, 1.0)
            for _ in range(rng.randint(1, max(1, m // 2))):
                w[rng.randrange(m)] = 0.0
            s = sum(w)
            out.append(("zeros", [x / s for x in w] if s > 0 else [1.0 / m] * m))
        else:
            d = rng.choice([1e-9, -1e-9, 5e-9, -5e-9, 1e-12])
            out.append(("sum-off", [x * (1 + d) for x in _dirichlet(rng, m, 1.0)]))
    return out


def _uniforms(seed, n):
    np.random.seed(seed)
    return [float(u) for u in np.random.random_sample(n)]


def _real_choice(seed, n, wf):
    np.random.seed(seed)
    try:
        return [int(i) for i in np.random.choice(np.arange(len(wf)), size=n, replace=True, p=np.array(wf, dtype=float))]
    except Exception as e:  # noqa
        return type(e).__name__


def _mult_suite(tier, drv):
    c = Corr("multinomial", "bit-exact (Float model) + exact (Rat model) for dyadic weights; uniforms read from the seeded generator")
    rng = common.rng_for("C06.mult")
    st = np.random.get_state()
    jobs = []
    try:
        for tag, wf in _mult_weights(rng, tier):
            n = rng.choice([1, 2, 5, 16, 40, len(wf), 0]) if wf else rng.choice([1, 3])
            seed = rng.randrange(2 ** 31)
            us = _uniforms(seed, n)
            impl = _real_choice(seed, n, wf)
            if isinstance(impl, str) and not (len(wf) == 0 and n > 0):
                c.count("numpy-rejected:" + impl)      # outside numpy's own tolerance: not a case
                continue
            jobs.append((f"mult.F w={flist(wf, f2hex)} us={flist(us, f2hex)}", tag, n, wf, seed, impl, "F"))
            if tag in ("dyadic", "fixed") and all(Fraction(x).denominator <= 2 ** 40 for x in wf):
                jobs.append((f"mult.Q w={flist([Fraction(x) for x in wf], frac2s)} us={flist([Fraction(u) for u in us], frac2s)}",
                             tag, n, wf, seed, impl, "Q"))
    finally:
        np.random.set_state(st)
    res = drv.batch([j[0] for j in jobs])
    for (line, tag, n, wf, seed, impl, reg), ans in zip(jobs, res):
        c.case((reg, n, [f2hex(x) for x in wf], seed), len(wf) >= 2 and n >= 2)
        c.count("w:" + tag)
        c.count("regime-" + reg)
        c.count("n=0" if n == 0 else "n>0")
        if _show(impl) != ans:
            c.disagree(input=line[:400], impl=_show(impl), model=ans, kind="mult", n=n, w_hex=[f2hex(x) for x in wf], seed=seed)
        c.sample({"op": line[:300], "impl": _show(impl)[:120], "model": ans[:120]})
    return c


# ------------------------------------------------------------------ correspondence: Resampler.run and posterior(resample=True)
def _mk_state(m, rng, blobs="float"):
    """a real StateManager whose pool holds m particles in one or two committed batches; particle k carries its pool index:
    logl = k, x = 10k, u = (k+.25)/(m+1) and — blobs="float": blob = 100k; blobs="object": blob = {"id": k, "a": array([k])}
    (object dtype, deep-copied by the accessors since /repo b0f244e); blobs="none": the likelihood returns no blobs."""
    from tempest.state_manager import StateManager
    st = StateManager(n_dim=1)
    cut = rng.randint(1, m - 1) if m >= 2 else m
    lo = 0
    for hi in ([cut, m] if cut < m else [m]):
        k = hi - lo
        ids = np.arange(lo, hi, dtype=float)
        d = {"u": (ids.reshape(k, 1) + 0.25) / (m + 1), "x": ids.reshape(k, 1) * 10.0, "logl": ids,
             "beta": 0.5, "iter": 0, "logz": 0.0, "calls": 0, "steps": 1, "efficiency": 1.0, "ess": 1.0, "acceptance": 1.0}
        if blobs == "float":
            d["blobs"] = ids * 100.0
        elif blobs == "object":
            b = np.empty(k, dtype=object)
            for t in range(k):
                b[t] = {"id": lo + t, "a": np.array([float(lo + t)])}
            d["blobs"] = b
        st.update_current(d)
        st.commit_current_to_history()
        lo = hi
    return st


class _StubClusterer:
    """stands in for the fitted HierarchicalGaussianMixture: a deterministic label from the coordinate"""

    def predict(self, u):
        return (np.floor(np.asarray(u)[:, 0] * 1000.0).astype(int)) % 3


def _run_resampler(scheme, n, wf, m_rng, u0f=None, seed=None, have_blobs=False, clustering=False, beta=0.5, blobs="float",
                   wform="array"):
    """drive the real Resampler.run; particles carry their pool index in logl (x = 10*index, blob = 100*index), so the indices used are
    recoverable and the gather can be checked.  beta = 0 is the warm-up branch: nothing is resampled.
    `have_blobs` = the constructor argument (config.blobs_dtype is not None); `blobs` = what the state holds ("none": the property
    `Resampler.have_blobs` is then just the constructor argument; otherwise it is True whatever was declared: /repo 9130321)."""
    from tempest.steps.resample import Resampler
    st = _mk_state(len(wf), m_rng, blobs)
    st.set_current("beta", beta)
    clus = _StubClusterer() if clustering else None
    r = Resampler(st, n_particles=n, resample=scheme, clusterer=clus, clustering=clustering, have_blobs=have_blobs)
    gate = bool(have_blobs) or blobs != "none"
    if r.have_blobs != gate:
        return "have_blobs-gate-wrong"
    w = _as_form(wf, wform)          # Resampler.run does not convert its argument: lists / tuples / views reach the routines as they are
    before = {k: st.get_current(k) for k in ("u", "x", "logl", "blobs")}
    hist_blobs = list(st._history["blobs"])
    try:
        if scheme == "syst":
            with common.patched(np.random, "random", lambda *a, **k: u0f), warnings.catch_warnings():
                warnings.simplefilter("ignore")
                r.run(w)
        else:
            np.random.seed(seed)
            r.run(w)
    except Exception as e:  # noqa
        return type(e).__name__
    logl = st.get_current("logl")
    x = st.get_current("x")
    u = st.get_current("u")
    asg = st.get_current("assignments")
    if beta == 0.0:
        same = all(_same(before[k], st.get_current(k)) for k in before)
        return "skip" if same and asg is not None and len(asg) == n and not np.any(asg) else "beta0-branch-changed-particles"
    idx = [int(round(float(v))) for v in logl]
    m = len(wf)
    coherent = (len(x) == len(idx) == len(u)
                and all(float(x[k, 0]) == 10.0 * idx[k] and float(u[k, 0]) == (idx[k] + 0.25) / (m + 1) for k in range(len(idx))))
    b = st.get_current("blobs")
    if not gate:
        coherent = coherent and b is None          # nothing declared, nothing returned: the slot stays empty
    elif blobs == "object":
        coherent = (coherent and b is not None and len(b) == len(idx)
                    and all(b[k]["id"] == idx[k] and float(b[k]["a"][0]) == float(idx[k]) for k in range(len(idx))))
        # the stored objects are copies: writing into what the accessor returned must not reach the state or the history
        if coherent and len(idx):
            b[0]["a"][0] = -1.0
            again = st.get_current("blobs")
            pool = np.concatenate(hist_blobs)
            coherent = float(again[0]["a"][0]) == float(idx[0]) and all(float(pool[t]["a"][0]) == float(t) for t in range(m))
    else:
        coherent = coherent and b is not None and len(b) == len(idx) and all(float(b[k]) == 100.0 * idx[k] for k in range(len(idx)))
    want_asg = clus.predict(u) if clustering else np.zeros(n, dtype=int)
    coherent = coherent and asg is not None and np.array_equal(np.asarray(asg), want_asg)
    return idx if coherent else "incoherent-gather"


def _same(a, b):
    if a is None or b is None:
        return a is None and b is None
    a, b = np.asarray(a), np.asarray(b)
    if a.dtype == object or b.dtype == object:
        return len(a) == len(b) and all(p["id"] == q["id"] for p, q in zip(a, b))
    return np.array_equal(a, b)


def _run_line(beta0, scheme, n, wf, u0f=0.0, us=()):
    return (f"c06x.run.F beta0={1 if beta0 else 0} scheme={scheme} n={n} w={flist(wf, f2hex)} u0={f2hex(u0f)} "
            f"us={flist(us, f2hex)}")


def _resampler_suite(tier, drv):
    c = Corr("Resampler.run", "bit-exact (Float model `resamplerRunX`: np.sum and numpy's validation of p inside); indices recovered from "
             "tagged particles of a real StateManager history; gather of u/x/logl/blobs and labels checked on the way")
    rng = common.rng_for("C06.run")
    st = np.random.get_state()
    jobs = []
    try:
        for _ in range(300 if tier == "quick" else 4000):
            m = rng.randint(1, 10) if rng.random() < 0.7 else rng.randint(11, 120)
            k = rng.random()
            wtag = "normalised"
            if k < 0.3:
                B = rng.choice([2, 3, 4, 6])
                wf = [p / 2 ** B for p in _composition(rng, 2 ** B, m)]
            elif k < 0.7:
                wf = _dirichlet(rng, m, rng.choice([0.1, 1.0, 10.0]))
            elif k < 0.8:
                wf = _dirichlet(rng, m, 1.0)
                wf[rng.randrange(m)] = 0.0
                s = sum(wf)
                wf = [x / s for x in wf] if s > 0 else [1.0 / m] * m
                wtag = "zeros"
            elif k < 0.9:
                # sum off by an amount on either side of the tolerance both routines use (2^-26 ~ 1.49e-8)
                d = rng.choice([1e-6, 1e-7, 3e-8, 1.6e-8, 1.4e-8, 1e-8, 1e-9]) * rng.choice([1, -1])
                wf = [x * (1 + d) for x in _dirichlet(rng, m, 1.0)]
                wtag = "sum-off-%g" % abs(d)
            elif k < 0.95:
                wf = [x * rng.choice([3.7, 0.01, 2.0]) for x in _dirichlet(rng, m, 1.0)]
                wtag = "unnormalised"
            else:
                wf = _dirichlet(rng, m, 1.0)
                i = rng.randrange(m)
                wf[i] = rng.choice([-wf[i], -1e-300, -0.0, float("nan")])
                wtag = "negative/-0/nan entry"
            n = rng.choice([1, 2, 4, 7, 16, 33, m])
            # the blob gate: (declared, what the state holds); declared-but-absent cannot arise (a declared dtype makes _log_like pack blobs)
            declared, held = rng.choice([(False, "none"), (False, "float"), (True, "float"), (False, "object"), (True, "object")])
            opts = {"have_blobs": declared, "blobs": held, "clustering": rng.random() < 0.4,
                    "wform": rng.choice(["array"] * 4 + ["list", "tuple", "strided"])}
            c.count("w:" + wtag)
            c.count("weights passed as:" + opts["wform"])
            if rng.random() < 0.08:
                # warm-up branch (beta = 0): no resampling, particles untouched, labels all 0
                scheme = rng.choice(["syst", "mult"])
                impl = _run_resampler(scheme, n, wf, rng, u0f=0.5, seed=1, beta=0.0, **opts)
                c.count("branch:beta=0 (skip)")
                jobs.append((_run_line(True, scheme, n, wf, 0.5, _uniforms(1, n)), scheme, n, wf, impl, {"beta0": True}))
                continue
            if rng.random() < 0.02:
                # a scheme string the constructor does not check (config validation, C18, rejects it earlier)
                impl = _run_resampler("stratified", n, wf, rng, u0f=0.5, seed=1, **opts)
                c.count("branch:unknown-scheme")
                jobs.append((_run_line(False, "stratified", n, wf, 0.5, []), "other", n, wf, impl, {"scheme": "stratified"}))
                continue
            c.count(f"blobs: declared={declared}, state holds {held}")
            c.count(f"clustering={opts['clustering']}")
            if rng.random() < 0.5:
                if any(x != x for x in wf):
                    continue      # NaN weights are outside the statement (and the systematic loop has no validation to compare)
                u0f = rng.choice([0.0, ONE_M, rng.random(), rng.random()])
                impl = _run_resampler("syst", n, wf, rng, u0f=u0f, **opts)
                jobs.append((_run_line(False, "syst", n, wf, u0f, []), "syst", n, wf, impl, {"u0_hex": f2hex(u0f), "form": opts["wform"]}))
            else:
                seed = rng.randrange(2 ** 31)
                us = _uniforms(seed, n)
                impl = _run_resampler("mult", n, wf, rng, seed=seed, **opts)
                if impl == "ValueError":
                    c.count("numpy-rejected (compared: the model must reject too)")
                jobs.append((_run_line(False, "mult", n, wf, 0.0, us), "mult", n, wf, impl, {"seed": seed, "form": opts["wform"]}))
    finally:
        np.random.set_state(st)
    res = drv.batch([j[0] for j in jobs])
    for (line, scheme, n, wf, impl, extra), ans in zip(jobs, res):
        c.case((scheme, n, [f2hex(x) for x in wf], extra), len(wf) >= 2 and n >= 2)
        c.count("scheme:" + scheme)
        if _show(impl) != ans:
            c.disagree(input=line[:400], impl=_show(impl), model=ans, kind="run-" + scheme, n=n, w_hex=[f2hex(x) for x in wf], **extra)
        c.sample({"op": line[:300], "impl": _show(impl)[:120], "model": ans[:120]})
    return c


def _posterior_suite(tier, drv):
    c = Corr("posterior(resample=True)", "bit-exact: (a) Float model `posteriorResample` (n = len(w), np.sum inside) on the weights the real "
             "compute_posterior passes to systematic_resample; (b) Float models `posteriorResampleNoTrim` / `posteriorResampleTrim` from "
             "exp(logw - max) through the in-place normalisations (and the mask trim_weights stopped at) to the indices")
    import tempest.tools as T
    from . import witnesses
    rng = common.rng_for("C06.post")
    st = np.random.get_state()
    jobs = []
    try:
        for sd in ([3, 11] if tier == "quick" else [3, 11, 17, 23, 31, 47]):
            with contextlib.redirect_stdout(io.StringIO()), warnings.catch_warnings():
                warnings.simplefilter("ignore")
                np.random.seed(sd)
                s = witnesses._mk_sampler(clustering=False, n_particles=16)
                s._core._initialize_fresh()
                for _ in range(4):
                    s.sample()
                logw, _ = s.state.compute_logw_and_logz(1.0)
                w0 = [float(t) for t in np.exp(logw - np.max(logw))]       # the first line of compute_posterior, same operations
            orig = T.systematic_resample
            orig_trim = T.trim_weights
            for trim in (True, False):
                for u0f in [0.0, ONE_M] + [rng.random() for _ in range(8)]:
                    rec, rect = [], []

                    def wrap(size, weights, random_state=None):
                        r = orig(size, weights, random_state)
                        rec.append((int(size), [float(x) for x in np.asarray(weights, dtype=float)], [int(i) for i in r]))
                        return r

                    def wrapt(samples, weights, ess=0.99, bins=1000):
                        n_in = len(weights)
                        r = orig_trim(samples, weights, ess=ess, bins=bins)
                        rect.append((n_in, [int(i) for i in r[0]]))
                        return r
                    with common.patched(T, "systematic_resample", wrap), common.patched(T, "trim_weights", wrapt), \
                            common.patched(np.random, "random", lambda *a, **k: u0f), warnings.catch_warnings():
                        warnings.simplefilter("ignore")
                        try:
                            x, w, logl = s.posterior(resample=True, trim_importance_weights=trim)
                        except Exception as e:  # noqa
                            c.disagree(input=f"posterior seed={sd} trim={trim} u0={u0f!r}", impl=type(e).__name__, model="no exception")
                            continue
                    if len(rec) != 1 or len(rect) != (1 if trim else 0):
                        c.disagree(input=f"posterior seed={sd} trim={trim}",
                                   impl=f"{len(rec)} calls of systematic_resample, {len(rect)} of trim_weights", model="1 call / %d" % trim)
                        continue
                    n, wf, idx = rec[0]
                    ok_shape = (n == len(wf) and len(x) == n and len(logl) == n and len(w) == n
                                and all(float(t) == 1.0 / n for t in w))
                    impl = idx if ok_shape else "bad-shape"
                    jobs.append((f"post.F w={flist(wf, f2hex)} u0={f2hex(u0f)}", n, wf, u0f, impl, sd, trim, "received"))
                    if trim:
                        n_in, kept = rect[0]
                        keep = [0] * n_in
                        for i in kept:
                            keep[i] = 1
                        if n_in != len(w0):
                            impl = "trim_weights saw %d weights, history has %d" % (n_in, len(w0))
                        jobs.append((f"c06x.posttrim.F w={flist(w0, f2hex)} keep={flist(keep, str)} u0={f2hex(u0f)}", n, w0, u0f, impl, sd, trim,
                                     "from exp(logw-max), trimmed %d -> %d" % (n_in, len(kept))))
                    else:
                        jobs.append((f"c06x.postnt.F w={flist(w0, f2hex)} u0={f2hex(u0f)}", n, w0, u0f, impl, sd, trim, "from exp(logw-max)"))
    finally:
        np.random.set_state(st)
    res = drv.batch([j[0] for j in jobs])
    for (line, n, wf, u0f, impl, sd, trim, how), ans in zip(jobs, res):
        c.case((sd, trim, f2hex(u0f), how), len(wf) >= 2 and n >= 2)
        c.count("trim" if trim else "no-trim")
        c.count("model:" + how.split(",")[0])
        if _show(impl) != ans:
            c.disagree(input=line[:400], impl=_show(impl)[:300], model=ans[:300], kind="post", seed=sd, trim=trim, n=n,
                       w_hex=[f2hex(x) for x in wf], u0_hex=f2hex(u0f))
        c.sample({"op": line[:200] + "...", "impl": _show(impl)[:80], "model": ans[:80]})
    return c


# ------------------------------------------------------------------ correspondence: numpy's validation of p
def _real_choice_verdict(n, wf):
    st = np.random.get_state()
    try:
        np.random.seed(1)
        with warnings.catch_warnings():
            warnings.simplefilter("ignore")
            try:
                np.random.choice(np.arange(len(wf)), size=n, replace=True, p=np.array(wf, dtype=float))
                return "ok"
            except ValueError as e:
                msg = str(e)
                for key, tag in (("cannot be empty", "emptyPop"), ("contain NaN", "nan"), ("not non-negative", "negative"),
                                 ("do not sum to 1", "notSumOne")):
                    if key in msg:
                        return tag
                return "ValueError:" + msg[:60]
    finally:
        np.random.set_state(st)


def _validation_suite(tier, drv):
    c = Corr("choice-validation", "exact decision (Float model of numpy's kahan_sum and of the checks `choice` makes on p, in numpy's order) "
             "vs the message of the ValueError the real np.random.choice raises / its acceptance")
    rng = common.rng_for("C06.valid")
    T = Fraction(1, 2 ** 26)
    jobs = []
    for _ in range(500 if tier == "quick" else 8000):
        m = rng.choice([1, 2, 3, 5, 8, 17, 64, 200, rng.randint(1, 400)])
        base = [Fraction(x) for x in _dirichlet(rng, m, rng.choice([0.1, 1.0, 10.0]))]
        S = sum(base, Fraction(0))
        k = rng.random()
        if k < 0.55:
            # exact sum within a few ulps of one of the two acceptance thresholds 1 +- 2^-26: the decision hangs on the last bits of
            # the compensated sum (a plain or pairwise sum decides differently on some of these)
            side = rng.choice([1, -1])
            target = 1 + side * T + Fraction(rng.randint(-6, 6), 2 ** 54)
            wf = [float(x * target / S) for x in base]
            tag = "threshold 1%s2^-26 +- ulps" % ("+" if side > 0 else "-")
        elif k < 0.7:
            d = rng.choice([1e-6, 1e-7, 2e-8, 1e-8, 1e-9, 0.0]) * rng.choice([1, -1])
            wf = [float(x) * (1 + d) for x in base]
            tag = "sum-off"
        elif k < 0.8:
            wf = [float(x) for x in base]
            i = rng.randrange(m)
            wf[i] = rng.choice([-wf[i], -1e-300, -5e-324, -0.0])
            tag = "negative or -0 entry"
        elif k < 0.86:
            wf = [float(x) for x in base]
            wf[rng.randrange(m)] = rng.choice([float("nan"), float("inf")])
            if rng.random() < 0.3:
                wf[rng.randrange(m)] = -1.0        # NaN is reported before negativity
            tag = "nan/inf entry"
        elif k < 0.9:
            wf = []
            tag = "empty"
        else:
            # cancellation-prone: a huge entry and its tiny companions (Kahan keeps what a plain running sum loses)
            wf = [float(x) * 2.0 ** -30 for x in base] + [1.0 - 2.0 ** -30]
            rng.shuffle(wf)
            tag = "one dominant entry"
        n = rng.choice([1, 3]) if wf else 2
        jobs.append((f"c06x.check.F size={n} w={flist(wf, f2hex)}", n, wf, tag))
    res = drv.batch([j[0] for j in jobs])
    for (line, n, wf, tag), ans in zip(jobs, res):
        impl = _real_choice_verdict(n, wf)
        c.case((n, [f2hex(x) for x in wf]), len(wf) >= 2)
        c.count("w:" + tag)
        c.count("verdict:" + impl)
        if wf and impl in ("ok", "notSumOne") and all(x == x and x >= 0 for x in wf):
            plain = "notSumOne" if abs(_np_sum(wf) - 1.0) > SQRTEPS else "ok"
            if plain != impl:
                c.count("sensitivity: np.sum in place of kahan_sum would decide differently")
        if impl != ans:
            c.disagree(input=line[:400], impl=impl, model=ans, kind="valid", n=n, w_hex=[f2hex(x) for x in wf])
        c.sample({"op": line[:200], "impl": impl, "model": ans})
    return c


# ------------------------------------------------------------------ correspondence: the call site inside execute_iteration
def _observe_iterations(scheme, vv, sd, n_iter, **kw_extra):
    """real Sampler.sample() iterations with three observation points: the unnormalised weights handed to
    Reweighter._finalize_iteration, the (array, offset / uniforms, result) of the resampling routine called from Resampler.run,
    and the state's beta when Resampler.run is entered.  Nothing is replaced: the generator stream is the run's own.
    Returns one dict per iteration: {w0 (None in the very first iteration), beta, recv, calls=[(kind, n, draws, idx)], pool}."""
    import tempest.steps.resample as RS
    from tempest.steps.reweight import Reweighter
    from tempest.steps.resample import Resampler
    from . import witnesses
    out = []
    st = np.random.get_state()
    try:
        with contextlib.redirect_stdout(io.StringIO()), warnings.catch_warnings():
            warnings.simplefilter("ignore")
            np.random.seed(sd)
            kw = dict(clustering=False, n_particles=16, resample=scheme)
            kw.update(kw_extra)
            if vv is not None:
                kw["volume_variation"] = vv
            s = witnesses._mk_sampler(**kw)
            s._core._initialize_fresh()
            orig_fin = Reweighter._finalize_iteration
            orig_run = Resampler.run
            orig_syst = RS.systematic_resample
            orig_random = np.random.random
            orig_choice = np.random.choice
            rec = {}

            def fin(self, beta, weights, ess_est, logz):
                rec["w0"] = [float(t) for t in np.asarray(weights, dtype=float)]
                return orig_fin(self, beta, weights, ess_est, logz)

            def run(self, weights):
                rec["beta"] = float(self.state.get_current("beta"))
                rec["recv"] = [float(t) for t in np.asarray(weights, dtype=float)]
                rec["pool"] = int(sum(len(b) for b in self.state._history["logl"]))
                rec["inside"] = True
                try:
                    return orig_run(self, weights)
                finally:
                    rec["inside"] = False
                    u = self.state.get_current("u")
                    rec["n_out"] = None if u is None else len(u)

            def syst(size, weights, random_state=None):
                got = []

                def rnd(*a, **k):
                    v = orig_random(*a, **k)
                    got.extend(float(t) for t in np.atleast_1d(v))      # one offset is the systematic scheme; anything else is reported
                    return v
                with common.patched(np.random, "random", rnd):
                    r = orig_syst(size, weights, random_state)
                rec.setdefault("calls", []).append(("syst", int(size), got, [int(i) for i in r]))
                return r

            def choice(*a, **k):
                if not rec.get("inside"):
                    return orig_choice(*a, **k)
                before = np.random.get_state()
                r = orig_choice(*a, **k)
                after = np.random.get_state()
                np.random.set_state(before)
                us = [float(t) for t in np.random.random_sample(int(k.get("size")))]
                np.random.set_state(after)
                rec.setdefault("calls", []).append(("mult", int(k.get("size")), us, [int(i) for i in r]))
                return r
            with common.patched(Reweighter, "_finalize_iteration", fin), common.patched(Resampler, "run", run), \
                    common.patched(RS, "systematic_resample", syst), common.patched(np.random, "choice", choice):
                for it in range(n_iter):
                    rec.clear()
                    s.sample()
                    out.append({"w0": rec.get("w0"), "beta": rec.get("beta"), "recv": rec.get("recv"), "calls": list(rec.get("calls", [])),
                                "pool": rec.get("pool"), "n_out": rec.get("n_out")})
    finally:
        np.random.set_state(st)
    return out


def _iteration_cfgs(tier):
    if tier == "quick":
        return [("syst", None, 5), ("mult", None, 11), ("syst", 0.2, 7), ("mult", 0.2, 13)], 9
    return [("syst", None, 5), ("mult", None, 11), ("syst", 0.2, 7), ("mult", 0.2, 13), ("syst", None, 19), ("mult", None, 23),
            ("syst", 0.05, 29), ("mult", 0.5, 31)], 12


def _iteration_suite(tier, drv):
    c = Corr("execute_iteration", "bit-exact (Float models `weightsAtResampler` and `iterationResample`): the array the real resampler "
             "receives after Reweighter + Trainer (in-place normalisation) and the indices it gathers with, from the unnormalised weights")
    jobs = []
    cfgs, n_iter = _iteration_cfgs(tier)
    for scheme, vv, sd in cfgs:
        for it, o in enumerate(_observe_iterations(scheme, vv, sd, n_iter)):
            if o["w0"] is None:
                c.count("first iteration (uniform weights, no pool yet)")
                continue
            w0, beta, calls = o["w0"], o["beta"], o["calls"]
            b0 = beta == 0.0
            key = (scheme, vv, sd, it)
            jobs.append((f"c06x.watr.F beta0={int(b0)} w={flist(w0, f2hex)}", key, "array", flist(o["recv"], f2hex), len(w0)))
            if b0:
                impl = "skip" if not calls else "resampled-at-beta-0"
                jobs.append((f"c06x.iter.F beta0=1 scheme={scheme} n=16 w={flist(w0, f2hex)} u0={f2hex(0.0)} us=-", key,
                             "beta=0", impl, len(w0)))
            elif len(calls) != 1 or calls[0][0] != scheme:
                jobs.append(("c06x.iter.F beta0=0 scheme=other n=0 w=- u0=0/1 us=-", key, "calls",
                             "%d resampling calls %s" % (len(calls), [t[0] for t in calls]), len(w0)))
            else:
                kind, n, draws, idx = calls[0]
                u0f = draws[0] if kind == "syst" and len(draws) == 1 else 0.0
                us = draws if kind == "mult" else []
                impl = idx if (kind == "mult" or len(draws) == 1) else "systematic drew %d offsets" % len(draws)
                jobs.append((f"c06x.iter.F beta0=0 scheme={scheme} n={n} w={flist(w0, f2hex)} u0={f2hex(u0f)} us={flist(us, f2hex)}",
                             key, "beta>0", _show(impl), len(w0)))
    res = drv.batch([j[0] for j in jobs])
    for (line, key, what, impl, m), ans in zip(jobs, res):
        c.case((key, what), m >= 2)
        c.count("observed:" + what)
        c.count("scheme:%s vv=%s" % (key[0], key[1]))
        if impl != ans:
            c.disagree(input=line[:300], impl=impl[:200], model=ans[:200], kind="iter", key=list(key), what=what)
        c.sample({"op": line[:160] + "...", "impl": impl[:80], "model": ans[:80]})
    return c


def oracle_iteration(scheme, vv, sd, n_iter):
    """the property inside a real run: every annealing iteration resamples exactly once with `n_particles` valid indices, from a
    non-negative weight vector over the whole pool whose sum is 1 within the routines' own tolerance; the point-wise laws hold for
    the offset / uniforms the run drew; nothing is resampled while beta = 0.  Returns a message or None."""
    try:
        obs = _observe_iterations(scheme, vv, sd, n_iter)
    except Exception as e:  # noqa
        return f"a real run (resample={scheme!r}, seed {sd}) raised {type(e).__name__}: {e}"
    for it, o in enumerate(obs):
        if o["w0"] is None:
            continue
        where = f"iteration {it} of a real run (resample={scheme!r}, volume_variation={vv}, seed {sd})"
        if o["beta"] == 0.0:
            if o["calls"]:
                return f"{where}: resampled although beta = 0"
            continue
        if len(o["calls"]) != 1:
            return f"{where}: {len(o['calls'])} resampling calls"
        kind, n, draws, idx = o["calls"][0]
        recv = o["recv"]
        if len(recv) != o["pool"]:
            return f"{where}: {len(recv)} weights for a pool of {o['pool']} particles"
        if any(not (x >= 0.0) for x in recv):
            return f"{where}: a weight handed to the resampler is negative or NaN"
        S = sum((Fraction(x) for x in recv), Fraction(0))
        if abs(S - 1) > Fraction(1, 2 ** 26):
            return f"{where}: the weights handed to the resampler sum to {float(S)!r}, outside the tolerance 2^-26"
        if n != 16 or len(idx) != 16 or o["n_out"] != 16:
            return f"{where}: asked for {n} indices, got {len(idx)}, current set has {o['n_out']} particles (n_particles = 16)"
        if any(i < 0 or i >= len(recv) for i in idx):
            return f"{where}: index out of range"
        if kind == "syst":
            if len(draws) != 1:
                return f"{where}: systematic scheme drew {len(draws)} offsets"
            msg = oracle_syst(n, recv, draws[0], lambda n_, w_, u_: idx)
            if msg:
                return f"{where}: {msg}"
        else:
            if any(recv[i] == 0.0 for i in idx):
                return f"{where}: a zero-weight particle was drawn"
            cdf, cc = [], Fraction(0)
            for x in recv:
                cc += Fraction(x)
                cdf.append(cc / S)
            tol = Fraction(1, 10 ** 12)
            for k, (u, i) in enumerate(zip(draws, idx)):
                lo = cdf[i - 1] if i > 0 else Fraction(0)
                if not (lo - tol <= Fraction(u) < cdf[i] + tol):
                    return f"{where}: draw {k}: uniform {u!r} gave index {i}, whose cell is [{float(lo)!r}, {float(cdf[i])!r})"
    return None


def translators():
    """G14: Gen/ResampleSrc.lean is recompiled from /repo's tools.py / steps/resample.py on every run; Props/C06Source.lean
       proves that Model.Resample unfolds to the generated terms"""
    from translate import g14_resample
    return [g14_resample.generate()]


def correspond(tier):
    from tempest import tools
    drv = common.Driver()
    pre = Corr("constants", "exact")
    pre.case("SQRTEPS", False)
    if tools.SQRTEPS != SQRTEPS:
        pre.disagree(input="tempest.tools.SQRTEPS", impl=repr(tools.SQRTEPS), model="2^-26")
    # the equivalence the multinomial suite rests on: choice(p) == searchsorted(cdf, random_sample) under one seed (numpy's own algorithm)
    out = [pre] + _syst_suites(tier, drv)
    out.append(_npsum_suite(tier, drv))
    out.append(_mult_suite(tier, drv))
    out.append(_validation_suite(tier, drv))
    out.append(_resampler_suite(tier, drv))
    out.append(_posterior_suite(tier, drv))
    out.append(_iteration_suite(tier, drv))
    out.append(_fp_suite(tier))
    return out


# ------------------------------------------------------------------ the count law in floating point (Props/C06Fp.lean)
FP_EPS = Fraction(1, 2 ** 53)
FP_C_POS = 6        # C06_fp_count_bound:  |count_j - n v_j| < 1 + n (|S - 1| + FP_C_POS eps + FP_C_SUM m eps S)
FP_C_SUM = 4


def _effective_float(wf):
    """the weight vector the loop of the real systematic_resample works on (same numpy operations), or None if not finite / negative"""
    arr = np.array(wf, dtype=float)
    with warnings.catch_warnings():
        warnings.simplefilter("ignore")
        s = float(np.sum(arr))
        if abs(s - 1.0) > SQRTEPS:
            arr = arr / s
    if not np.all(np.isfinite(arr)) or np.any(arr < 0):
        return None, s
    return [float(x) for x in arr], s


def fp_audit(n, wf, u0f):
    """H_fp on the operations systematic_resample performs on this input: every float result r of an exact value e satisfies
    |r - e| <= 2^-53 |e| (the standard model of IEEE arithmetic the theorems of Props/C06Fp.lean assume).  Message or None."""
    v, s = _effective_float(wf)
    if v is None:
        return None
    def bad(r, e):
        return abs(Fraction(r) - e) > FP_EPS * abs(e)
    if abs(s - 1.0) > SQRTEPS:
        for a, b in zip(v, wf):
            if bad(a, Fraction(b) / Fraction(s)):
                return f"w_j/s: {b!r}/{s!r} -> {a!r}"
    if n > 0:
        t1 = u0f + np.arange(n)
        pos = t1 / n
        for i in range(n):
            if bad(float(t1[i]), Fraction(u0f) + i):
                return f"u0+i: {u0f!r}+{i} -> {float(t1[i])!r}"
            if bad(float(pos[i]), Fraction(float(t1[i])) / n):
                return f"(u0+i)/n: {float(t1[i])!r}/{n} -> {float(pos[i])!r}"
    c = v[0] if v else 0.0
    for x in v[1:]:
        c2 = c + x
        if bad(c2, Fraction(c) + Fraction(x)):
            return f"running sum: {c!r}+{x!r} -> {c2!r}"
        c = c2
    return None


def oracle_fp(n, wf, u0f, run=_real_syst):
    """the proved floating-point count law on the REAL output: for effective weights v >= 0 (w, or w/np.sum(w) when renormalised) with
    exact sum S, |count_j - n v_j| < 1 + n (|S-1| + 6 eps + 4 m eps S), eps = 2^-53, and an index whose weight is 0 receives no copy.  Exact rational arithmetic; cannot fire on code that performs the modelled operations in IEEE doubles."""
    m = len(wf)
    if m == 0 or n < 1:
        return None
    v, _ = _effective_float(wf)
    if v is None:
        return None
    r = run(n, wf, u0f)
    if isinstance(r, str) or len(r) != n or any(i < 0 or i >= m for i in r):
        return oracle_syst(n, wf, u0f, lambda *_: r)
    counts = [0] * m
    for i in r:
        counts[i] += 1
    V = [Fraction(x) for x in v]
    S = sum(V, Fraction(0))
    B = 1 + n * (abs(S - 1) + FP_C_POS * FP_EPS + FP_C_SUM * m * FP_EPS * S)
    for j in range(m):
        if abs(counts[j] - n * V[j]) >= B:
            return (f"index {j} copied {counts[j]} times but n*v_j = {float(n * V[j])!r} (effective weights sum to 1{float(S - 1):+.3g}; "
                    f"proved bound |count - n v_j| < {float(B)!r}); indices {r[:12]}")
        if V[j] == 0 and counts[j] and S > 0:
            return f"zero-weight index {j} copied {counts[j]} times; indices {r[:12]}"
    return None


def _fp_suite(tier):
    c = Corr("fp-count-law", "exact rational check, on the REAL outputs, of the count law proved for rounded arithmetic (C06_fp_count_bound, "
             "C06_fp_zero_weight_never) + audit that every operation performed obeys the standard model |fl(x) - x| <= 2^-53 |x| it assumes")
    rng = common.rng_for("C06.fp")
    pairs = [p for p in gen_F_pairs(rng, "quick") if len(p[2]) <= 120 and p[1] <= 130]
    if tier != "quick":
        pairs += [p for p in gen_F_pairs(rng, "quick") if len(p[2]) <= 300 and p[1] <= 700]
    pairs += [("trailing-zeros", n, [0.1] * 10 + [0.0] * k) for n in (1, 3, 10) for k in (1, 3)]
    pairs += [("zeros", 5, [0.0, 0.5, 0.0, 0.0, 0.5, 0.0]), ("zeros", 4, [0.0, 0.0, 1.0])]
    for tag, n, wf in pairs:
        for otag, u0f in F_offsets(rng, n, wf, 3, 2):
            # numpy's random() returns multiples of 2^-53: snap the adversarial offsets onto that grid (a subnormal offset, which the
            # generator cannot produce, would underflow in (u0+i)/n and leave the relative-error model)
            u0f = math.floor(u0f * 2.0 ** 53) / 2.0 ** 53
            v, s = _effective_float(wf)
            if v is None or not wf or n < 1:
                c.count("outside the hypotheses (empty / n = 0 / negative or non-finite effective weights)")
                continue
            c.case((n, [f2hex(x) for x in wf], f2hex(u0f)), len(wf) >= 2 and n >= 2)
            c.count("w:" + tag)
            c.count("u0:" + otag)
            c.count("renormalised" if abs(s - 1.0) > SQRTEPS else ("sum==1" if s == 1.0 else "within-tolerance"))
            if any(x == 0.0 for x in v):
                c.count("has a zero weight" + (" (trailing)" if v[-1] == 0.0 else ""))
            a = fp_audit(n, wf, u0f)
            if a:
                c.disagree(input=f"n={n} m={len(wf)} u0={u0f!r}", impl="an operation outside the standard model: " + a,
                           model="|fl(x) - x| <= 2^-53 |x|", kind="fp", n=n, w_hex=[f2hex(x) for x in wf], u0_hex=f2hex(u0f))
                continue
            msg = oracle_fp(n, wf, u0f)
            if msg:
                c.disagree(input=f"n={n} m={len(wf)} u0={u0f!r}", impl=msg, model="C06_fp_count_bound", kind="fp", n=n,
                           w_hex=[f2hex(x) for x in wf], u0_hex=f2hex(u0f))
            c.sample({"op": f"n={n} m={len(wf)} u0={u0f!r}", "impl": "law holds", "model": "law holds"})
    return c


# ------------------------------------------------------------------ property oracle on the real code
def oracle_syst(n, wf, u0f, run=_real_syst):
    """the property's own statement on one input of the real systematic_resample; returns a message or None"""
    m = len(wf)
    if m == 0 or n < 1:
        return None
    r = run(n, wf, u0f)
    if isinstance(r, str):
        return f"raised {r}"
    if len(r) != n:
        return f"returned {len(r)} indices for n={n}"
    if any(i < 0 or i >= m for i in r):
        return f"index out of range 0..{m - 1}: {[i for i in r if i < 0 or i >= m][:3]}"
    if any(a > b for a, b in zip(r, r[1:])):
        return f"indices not non-decreasing: {r[:12]}"
    if any(not (x >= 0.0) or x == float("inf") for x in wf):
        return None          # negative / NaN / inf weights are outside the statement
    w = [Fraction(x) for x in wf]
    S = sum(w, Fraction(0))
    if S <= 0:
        return None
    zsel = [i for i in r if wf[i] == 0.0]
    if zsel:
        return f"zero-weight particle {zsel[0]} was selected (n*w_i = 0 copies expected, every offset); indices {r[:12]}"
    counts = [0] * m
    for i in r:
        counts[i] += 1
    if S == 1 and exact_audit(n, w, Fraction(u0f)):
        for j in range(m):
            t = n * w[j]
            if counts[j] not in (math.floor(t), math.ceil(t)):
                return (f"index {j} copied {counts[j]} times but n*w_j = {float(t)!r} (floor/ceil law; weights sum to exactly 1, "
                        f"all float operations exact); indices {r[:12]}")
    else:
        # rounding and the tolerance band can move a count by far less than this slack
        for j in range(m):
            t = n * w[j] / S
            if abs(counts[j] - t) >= 1 + n * Fraction(1, 10 ** 7) + Fraction(1, 10 ** 6):
                return f"index {j} copied {counts[j]} times but n*w_j/sum(w) = {float(t)!r}; indices {r[:12]}"
    return None


def oracle_expectation(n, w, run=_real_syst):
    """exact expectation over u0 ~ U[0,1) of the copies of each index, from the REAL outputs on the finite partition
    (w: Fractions with sum exactly 1, everything exact in floating point). Returns a message or None."""
    bps = breakpoints(n, w)
    m = len(w)
    wf = [float(x) for x in w]
    exp = [Fraction(0)] * m
    for k, b in enumerate(bps):
        nxt = bps[k + 1] if k + 1 < len(bps) else Fraction(1)
        mid = (b + nxt) / 2
        if not exact_audit(n, w, mid):
            return None          # not decidable exactly on this input: no verdict
        r = run(n, wf, float(mid))     # behaviour is constant on the open cell (b, nxt); its end points have measure zero
        if isinstance(r, str) or len(r) != n or any(i < 0 or i >= m for i in r):
            return None      # reported by oracle_syst
        for i in r:
            exp[i] += (nxt - b)
    for j in range(m):
        if exp[j] != n * w[j]:
            return (f"expected copies of index {j} over the offset partition = {frac2s(exp[j])} but n*w_j = {frac2s(n * w[j])}",
                    float((bps[0] + (bps[1] if len(bps) > 1 else 1)) / 2))
    return None


def oracle_mult(n, wf, seed):
    """Resampler.run(scheme 'mult') on tagged particles: length, range, zero-weight indices never drawn, and every index is the cell
    of the uniform the generator produced for it (slack 1e-12 on the cdf)"""
    st = np.random.get_state()
    try:
        us = _uniforms(seed, n)
        r = _run_resampler("mult", n, wf, common.rng_for("C06.oracle_mult"), seed=seed)
    finally:
        np.random.set_state(st)
    m = len(wf)
    if r == "ValueError":
        return None
    if isinstance(r, str):
        return f"raised/returned {r}"
    if len(r) != n:
        return f"{len(r)} particles for n={n}"
    if any(i < 0 or i >= m for i in r):
        return "index out of range"
    for i in r:
        if wf[i] == 0.0:
            return f"zero-weight particle {i} was drawn (expected copies n*w_i = 0); indices {r[:12]}"
    w = [Fraction(x) for x in wf]
    S = sum(w, Fraction(0))
    cdf, c = [], Fraction(0)
    for x in w:
        c += x
        cdf.append(c / S)
    tol = Fraction(1, 10 ** 12)
    for k, (u, i) in enumerate(zip(us, r)):
        lo = cdf[i - 1] if i > 0 else Fraction(0)
        if not (lo - tol <= Fraction(u) < cdf[i] + tol):
            return (f"draw {k}: uniform {u!r} gave index {i} whose cell is [{float(lo)!r}, {float(cdf[i])!r}) "
                    f"(so copies are not distributed as n*w_i); indices {r[:12]}")
    return None


def oracle_posterior(sd, trim, u0f):
    """Sampler.posterior(resample=True) on a real run: it must hand systematic_resample all of its weights and ask for as many
    indices as there are weights, and return that many equally weighted samples; the indices must satisfy the point-wise laws."""
    import tempest.tools as T
    from . import witnesses
    st = np.random.get_state()
    try:
        try:
            with contextlib.redirect_stdout(io.StringIO()), warnings.catch_warnings():
                warnings.simplefilter("ignore")
                np.random.seed(sd)
                s = witnesses._mk_sampler(clustering=False, n_particles=16)
                s._core._initialize_fresh()
                for _ in range(4):
                    s.sample()
        except Exception as e:  # noqa
            return f"a real run (default configuration, 16 particles, seed {sd}) raised {type(e).__name__}: {e}"
        orig = T.systematic_resample
        rec = []

        def wrap(size, weights, random_state=None):
            r = orig(size, weights, random_state)
            rec.append((int(size), [float(x) for x in np.asarray(weights, dtype=float)], [int(i) for i in r]))
            return r
        with common.patched(T, "systematic_resample", wrap), common.patched(np.random, "random", lambda *a, **k: u0f), \
                warnings.catch_warnings():
            warnings.simplefilter("ignore")
            try:
                x, w, logl = s.posterior(resample=True, trim_importance_weights=trim)
            except Exception as e:  # noqa
                return f"posterior(resample=True) raised {type(e).__name__}: {e}"
    finally:
        np.random.set_state(st)
    if len(rec) != 1:
        return f"posterior(resample=True) called systematic_resample {len(rec)} times"
    n, wf, idx = rec[0]
    if n != len(wf):
        return f"posterior(resample=True) asked for {n} indices for {len(wf)} weights"
    if not (len(x) == len(logl) == len(w) == len(wf)):
        return f"posterior(resample=True) returned {len(x)} samples / {len(w)} weights for {len(wf)} pool weights"
    if any(float(t) != 1.0 / len(wf) for t in w):
        return "posterior(resample=True) did not return equal weights 1/n"
    return oracle_syst(n, wf, u0f, lambda n_, w_, u_: idx)


def oracle_forms(n, wf, u0f):
    """model-free: systematic_resample / Resampler.run must not depend on the container or dtype the weights arrive in, as long as it
    carries exactly the same values (the statement speaks of weight VECTORS); and every form must satisfy the point-wise laws."""
    if not wf or n < 1 or any(not (x >= 0.0) or x == float("inf") for x in wf):
        return None
    ref = _real_syst(n, wf, u0f, "array")
    for form in forms_for(wf):
        r = _real_syst(n, wf, u0f, form)
        if r != ref:
            return (f"weights passed as {form} give {_show(r)[:80]} but the float64 array of the same values gives {_show(ref)[:80]}"
                    f" (n={n}, {len(wf)} weights summing to {float(sum(Fraction(x) for x in wf))!r})")
        msg = oracle_syst(n, wf, u0f, lambda *_: r)
        if msg:
            return f"weights passed as {form}: {msg}"
    for form in ("list", "tuple"):
        r = _run_resampler("syst", n, wf, common.rng_for("C06.oracle_forms"), u0f=u0f, wform=form)
        if r != ref:
            return (f"Resampler.run with weights passed as {form} gathers with {_show(r)[:80]} but the float64 array of the same values "
                    f"gives {_show(ref)[:80]} (n={n})")
    return None


def _fail_syst(msg, n, wf, u0f, via="systematic_resample"):
    return {"what": msg, "kind": "syst", "via": via, "n": n, "w": [float(x) for x in wf], "w_hex": [f2hex(x) for x in wf],
            "u0": float(u0f), "u0_hex": f2hex(u0f)}


def _run_syst_via_resampler(n, wf, u0f):
    return _run_resampler("syst", n, wf, common.rng_for("C06.oracle_run"), u0f=u0f)


def search(tier, hints):
    found = []

    def add(f):
        found.append(f)
        return len(found) >= 5

    # 1. the disagreeing inputs themselves
    for h in hints:
        try:
            if h.get("kind") in ("syst", "run-syst") and "u0_hex" in h:
                wf = [hex2f(x) for x in h["w_hex"]]
                u0f = hex2f(h["u0_hex"])
                form = h.get("form", "array")
                for via, run in (("systematic_resample", lambda n_, w_, u_: _real_syst(n_, w_, u_, form)),
                                 ("Resampler.run", lambda n_, w_, u_: _run_resampler("syst", n_, w_, common.rng_for("C06.oracle_run"),
                                                                                     u0f=u_, wform=form))):
                    msg = oracle_syst(h["n"], wf, u0f, run) or oracle_forms(h["n"], wf, u0f)
                    if msg and add(dict(_fail_syst(msg, h["n"], wf, u0f, via), form=form)):
                        return found
            elif h.get("kind") in ("mult", "run-mult") and "seed" in h:
                wf = [hex2f(x) for x in h["w_hex"]]
                msg = oracle_mult(h["n"], wf, h["seed"])
                if msg and add({"what": msg, "kind": "mult", "n": h["n"], "w_hex": h["w_hex"], "seed": h["seed"]}):
                    return found
            elif h.get("kind") == "post" and "seed" in h:
                msg = oracle_posterior(h["seed"], h["trim"], hex2f(h["u0_hex"]))
                if msg and add({"what": msg, "kind": "posterior", "seed": h["seed"], "trim": h["trim"], "u0": hex2f(h["u0_hex"]),
                                "u0_hex": h["u0_hex"]}):
                    return found
            elif h.get("kind") == "iter" and "key" in h:
                scheme, vv, sd, it = h["key"]
                msg = oracle_iteration(scheme, vv, sd, it + 1)
                if msg and add({"what": msg, "kind": "iteration", "scheme": scheme, "vv": vv, "seed": sd, "n_iter": it + 1}):
                    return found
            elif h.get("kind") == "fp" and "u0_hex" in h:
                wf = [hex2f(x) for x in h["w_hex"]]
                u0f = hex2f(h["u0_hex"])
                msg = oracle_fp(h["n"], wf, u0f)
                if msg and add(dict(_fail_syst(msg, h["n"], wf, u0f), kind="fp")):
                    return found
        except Exception as e:  # noqa
            if add({"what": f"oracle crashed on a disagreeing input: {type(e).__name__}: {e}", "kind": "crash", "hint": str(h)[:300]}):
                return found
    # 2. exact dyadic pairs x complete offset partition: point-wise laws, then the exact expectation
    rng = common.rng_for("C06.search")
    pairs = gen_Q_pairs(rng, "quick" if tier == "quick" else "thorough")
    for via, run in (("systematic_resample", _real_syst), ("Resampler.run", _run_syst_via_resampler)):
        for tag, n, w in (pairs if via == "systematic_resample" else pairs[:60]):
            if not w or n < 1:
                continue
            wf = [float(x) for x in w]
            for otag, u0 in offset_partition(n, w):
                u0f = float(u0)
                msg = oracle_syst(n, wf, u0f, run)
                if msg:
                    if add(_fail_syst(msg, n, wf, u0f, via)):
                        return found
                    break
            if sum(w, Fraction(0)) == 1 and n & (n - 1) == 0:
                r = oracle_expectation(n, w, run)
                if r:
                    if add(_fail_syst(r[0], n, wf, r[1], via)):
                        return found
    # 2b. the same values in every container / dtype that carries them exactly (list, tuple, strided view, float32, int): the routine
    #     must return what it returns for the float64 array, normalised or not, directly and through Resampler.run
    for tag, n, w in pairs[:250]:
        if not w or n < 1:
            continue
        wf = [float(x) for x in w]
        for u0f in (0.0, 0.37109375, ONE_M):
            msg = oracle_forms(n, wf, u0f)
            if msg:
                if add(_fail_syst(msg, n, wf, u0f, "input forms")):
                    return found
                break
    # 3. float weights, adversarial offsets
    for tag, n, wf in gen_F_pairs(common.rng_for("C06.searchF"), "quick"):
        for otag, u0f in F_offsets(rng, n, wf, 6, 3):
            msg = oracle_syst(n, wf, u0f)
            if msg:
                if add(_fail_syst(msg, n, wf, u0f)):
                    return found
                break
    # 3b. large n with a sum off by d: a count drifts by n*w_j*d unless the routine renormalises (it must for d > 2^-26)
    for d in (1e-3, -1e-3, 3e-4, 1e-4, -1e-4, 1e-5):
        n = min(int(6 / abs(d)), 600000)
        for wf in ([0.5 * (1 + d), 0.5 * (1 + d)], [0.7 * (1 + d), 0.2 * (1 + d), 0.1 * (1 + d)]):
            for u0f in (0.0, 0.5, ONE_M):
                msg = oracle_syst(n, wf, u0f)
                if msg:
                    if add(_fail_syst(msg + f" (weights sum to 1{d:+g}: outside the tolerance 2^-26, the routine must renormalise)", n, wf, u0f)):
                        return found
                    break
    # 3c. posterior(resample=True) on real runs
    want_post = any("post" in str(h.get("suite", "")) or "post." in str(h.get("input", "")) for h in hints) or not found
    if want_post:
        for sd in (3, 11):
            for trim in (True, False):
                for u0f in (0.0, 0.37, ONE_M):
                    try:
                        msg = oracle_posterior(sd, trim, u0f)
                    except Exception as e:  # noqa
                        msg = f"oracle crashed: {type(e).__name__}: {e}"
                    if msg:
                        if add({"what": msg, "kind": "posterior", "seed": sd, "trim": trim, "u0": u0f, "u0_hex": f2hex(u0f)}):
                            return found
                        break
    # 3d. the call site inside real runs (both schemes, both metric modes)
    if len(found) < 5:
        for scheme, vv, sd in _iteration_cfgs("quick")[0]:
            msg = oracle_iteration(scheme, vv, sd, 7)
            if msg and add({"what": msg, "kind": "iteration", "scheme": scheme, "vv": vv, "seed": sd, "n_iter": 7}):
                return found
    # 4. multinomial through Resampler.run
    for tag, wf in _mult_weights(common.rng_for("C06.searchM"), "quick"):
        wz = list(wf)
        if len(wz) >= 3 and rng.random() < 0.5:
            keep = rng.randrange(len(wz))
            wz = [0.0] * len(wz)
            wz[keep] = 1.0
        for n in (1, 8):
            seed = rng.randrange(2 ** 31)
            msg = oracle_mult(n, wz, seed)
            if msg:
                if add({"what": msg, "kind": "mult", "n": n, "w": wz, "w_hex": [f2hex(x) for x in wz], "seed": seed}):
                    return found
                break
    return found


def replay(obj):
    f = obj.get("failing_input", obj)
    if "witness" in f.get("replay", {}):
        from . import witnesses
        return witnesses.ALL[f["replay"]["witness"]]()
    if f.get("kind") == "posterior":
        msg = oracle_posterior(f["seed"], f["trim"], hex2f(f["u0_hex"]))
        return {"fails": msg is not None, "detail": msg}
    if f.get("kind") == "iteration":
        msg = oracle_iteration(f["scheme"], f["vv"], f["seed"], f["n_iter"])
        return {"fails": msg is not None, "detail": msg}
    if f.get("kind") == "fp":
        msg = oracle_fp(f["n"], [hex2f(h) for h in f["w_hex"]], hex2f(f["u0_hex"]))
        return {"fails": msg is not None, "detail": msg}
    wf = [hex2f(h) for h in f["w_hex"]]
    if f.get("kind") == "mult":
        msg = oracle_mult(f["n"], wf, f["seed"])
        return {"fails": msg is not None, "detail": msg}
    u0f = hex2f(f["u0_hex"])
    if f.get("via") == "input forms" or f.get("form", "array") != "array":
        msg = oracle_forms(f["n"], wf, u0f)
        return {"fails": msg is not None, "detail": msg}
    run = _run_syst_via_resampler if f.get("via") == "Resampler.run" else _real_syst
    msg = oracle_syst(f["n"], wf, u0f, run)
    if msg is None and sum((Fraction(x) for x in wf), Fraction(0)) == 1:
        r = oracle_expectation(f["n"], [Fraction(x) for x in wf], run)
        msg = r[0] if r else None
    return {"fails": msg is not None, "detail": msg, "output": _show(run(f["n"], wf, u0f))}
