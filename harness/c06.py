"""C06 — resampling returns exactly n valid indices and is unbiased."""
import contextlib
import io
import math
import warnings
from fractions import Fraction

import numpy as np

from . import common
from .common import Corr, f2hex, hex2f, frac2s, flist, parse_list

ID = "C06"
LEAN_MODULES = ["TempestVerif.Props.C06", "TempestVerif.Lemmas.CeilComb"]
RULE = ("systematic: generated (n, w) x the COMPLETE finite partition of the offset u0 for that pair — every breakpoint frac(n*C_j), "
        "breakpoint +-2^-40, its two float neighbours, midpoints of consecutive breakpoints, 0.0 and nextafter(1,0); the REAL "
        "tempest.tools.systematic_resample is run with numpy.random.random replaced by u0. "
        "Regime Q: few-bit dyadic weights (sum exactly 1; 1+-2^-k for k in 20..40 on both sides of SQRTEPS=2^-26; sums 2, 1/2, 4; zeros, "
        "dominant weight, length 1, empty vector, n=0); a case is compared exactly with the Rat model only after an audit showed every float "
        "operation of the Python (np.sum, w/s, (u0+i)/n, every running sum) to be exact for that input, otherwise it is sent to regime F. "
        "Regime F: bit-exact Float model (same operation order) on Dirichlet/skewed/unnormalised/all-zero weights of length 0..300, n up to 1000, "
        "with random and adversarial offsets (neighbours of the float breakpoints, 0, nextafter(1,0), 1-1e-12); weights are handed over as "
        "ndarray, list, tuple or a strided view, and the `random_state` argument is exercised (offset = first uniform after seeding). Every "
        "systematic case is evaluated twice on the model: with s = np.sum(w) passed in and with the modelled pairwise np.sum (systnp). "
        "np.sum: the Float model of numpy's pairwise summation vs np.sum bit-for-bit on vectors of length 0..1500 (all three code paths). "
        "multinomial: numpy legacy choice(p=w) under a seed vs the model fed with the uniforms the generator produces under the same seed "
        "(incl. size 0 and the empty vector). Resampler.run (both schemes, beta=0 warm-up branch, unknown scheme string, have_blobs on/off, "
        "clustering on/off with a stub clusterer) is driven on real StateManager histories whose particles carry their pool index; the "
        "indices it gathered with are compared with the model `resamplerRun`, and the gather of u/x/logl/blobs/labels is checked. "
        "Sampler.posterior(resample=True) on real runs vs the model `posteriorResample`. "
        "Non-trivial = at least 2 weights and n >= 2 (the answer is not forced); for np.sum: at least 8 summands.")
MODELLED = ["np.sum is modelled as numpy's pairwise summation (8 accumulators, blocks of 128, 0.+ identity) and checked bit-for-bit (suite np.sum); "
            "over the reals it is proved to be the sum (npSum_real)",
            "numpy legacy RandomState.choice(p=...) is modelled from its algorithm (cumsum, divide by last, searchsorted right); "
            "its validation of p (ValueError when the compensated sum is off by > 2^-26, negative or NaN entries) is not modelled",
            "MT19937 is not modelled: the uniforms are read from the generator under the same seed (a tape)",
            "theorems about counts and means are at exact real arithmetic; IEEE rounding of (u0+i)/n and of the running sum is covered only "
            "empirically by the bit-exact regime F (length/range/monotone/totality are proved for every scalar type, Float included)",
            "the gather u[idx], x[idx], ... and the clusterer are outside the Lean model (checked here on tagged particles; owned by C07)"]
ASSUMPTIONS = ["weights are finite and non-negative (Reweighter output); NaN/inf weights are outside the statement",
               "numpy.random.random() and random_sample() return values in [0,1)",
               "length / range / monotone / no-exception are proved with no assumption on the weights or their sum (any scalar type). "
               "Count law: exact floor/ceil + closed form for sum(w) = 1 and for the renormalised branch (|sum(w)-1| > 2^-26, law for w/sum(w)); "
               "for EVERY sum the closed form with clamped cell edges (C06_syst_count_any_sum) and |count_j - n*w_j| < 1 + n*|sum(w)-1| "
               "(C06_syst_count_bound; < 1 + n*2^-26 on the accepted band). The literal floor/ceil clause is false inside the band "
               "(known finding F20: w=[2^-30,1], n=2, u0=0 -> [0,1] although n*w_1 = 2; C06_syst_floor_ceil_needs_exact_sum)",
               "Unbiasedness: Lebesgue integral over u0 in [0,1): exactly n*w_j for sum(w)=1, n*w_j/sum(w) when renormalised; for every sum "
               "the mean is n*(e_{j+1}-e_j) with bias <= n*|sum(w)-1| (exactly 0 below the last index when sum(w) <= 1, the last index absorbing "
               "n*(1-sum(w)))",
               "multinomial: n*w_i/sum(w) expected copies is proved for n independent uniform draws (product Lebesgue measure on [0,1)^n); "
               "that MT19937 output behaves as such draws is assumed"]

SQRTEPS = 2.0 ** -26
ONE_M = math.nextafter(1.0, 0.0)


# ------------------------------------------------------------------ the real code
def _as_form(wf, form):
    if form == "list":
        return [float(x) for x in wf]
    if form == "tuple":
        return tuple(float(x) for x in wf)
    if form == "strided":
        a = np.zeros(2 * len(wf), dtype=float)
        a[::2] = wf
        a[1::2] = 7.5
        return a[::2]
    return np.array(wf, dtype=float)


def _real_syst(n, wf, u0f, form="array"):
    from tempest.tools import systematic_resample
    with common.patched(np.random, "random", lambda *a, **k: u0f), warnings.catch_warnings():
        warnings.simplefilter("ignore")
        try:
            return [int(i) for i in systematic_resample(n, _as_form(wf, form))]
        except Exception as e:  # noqa
            return type(e).__name__


def _real_syst_seeded(n, wf, seed):
    """the `random_state` argument: the routine seeds the global generator itself and draws its own offset"""
    from tempest.tools import systematic_resample
    st = np.random.get_state()
    try:
        np.random.seed(seed)
        u0f = float(np.random.random())
        with warnings.catch_warnings():
            warnings.simplefilter("ignore")
            try:
                r = [int(i) for i in systematic_resample(n, np.array(wf, dtype=float), random_state=seed)]
            except Exception as e:  # noqa
                r = type(e).__name__
    finally:
        np.random.set_state(st)
    return u0f, r


def _np_sum(wf):
    with warnings.catch_warnings():
        warnings.simplefilter("ignore")
        return float(np.sum(np.array(wf, dtype=float)))


def _show(r):
    return r if isinstance(r, str) else flist(r, str)


# ------------------------------------------------------------------ exactness audit (regime Q admission)
def _effective(w):
    """exact effective weights: w/sum if |sum-1| > 2^-26 else w (None if sum is 0)"""
    S = sum(w, Fraction(0))
    if abs(S - 1) > Fraction(1, 2 ** 26):
        if S == 0:
            return None
        return [x / S for x in w]
    return list(w)


def exact_audit(n, w, u0):
    """True iff every float operation systematic_resample performs on (n, w, u0) is exact.
    w, u0: Fractions.  Computed, not assumed: each float result is compared with the exact rational."""
    try:
        wf = [float(x) for x in w]
        u0f = float(u0)
    except OverflowError:
        return False
    if any(Fraction(a) != b for a, b in zip(wf, w)) or Fraction(u0f) != u0:
        return False
    if not w:
        return True
    S = sum(w, Fraction(0))
    s = _np_sum(wf)
    if Fraction(s) != S:
        return False
    arr = np.array(wf, dtype=float)
    if abs(s - 1.0) > SQRTEPS:
        if s == 0:
            return False
        arr = arr / s
        if any(Fraction(float(a)) != b / S for a, b in zip(arr, w)):
            return False
    if n > 0:
        pos = (u0f + np.arange(n)) / n
        if any(Fraction(float(p)) != (u0 + i) / n for i, p in enumerate(pos)):
            return False
    c = arr[0]
    ce = Fraction(float(arr[0]))
    for j in range(1, len(arr)):
        c = c + arr[j]
        ce = ce + Fraction(float(arr[j]))
        if Fraction(float(c)) != ce:
            return False
    return True


def breakpoints(n, v):
    """offsets in [0,1) at which some position (u0+i)/n equals a cumulative sum of v (exact), plus 0"""
    bps = {Fraction(0)}
    c = Fraction(0)
    for x in v:
        c += x
        t = n * c
        bps.add(t - math.floor(t))
    return sorted(bps)


def offset_partition(n, w):
    """the complete finite partition of [0,1) for (n, w) as a list of (tag, Fraction offset)"""
    v = _effective(w) if w else None
    bps = breakpoints(n, v) if v else [Fraction(0)]
    out = [("zero", Fraction(0)), ("one-", Fraction(ONE_M))]
    tiny = Fraction(1, 2 ** 40)
    for k, b in enumerate(bps):
        out.append(("bp", b))
        for d in (tiny, -tiny):
            if 0 <= b + d < 1:
                out.append(("bp+-2^-40", b + d))
        try:
            bf = float(b)
        except OverflowError:
            continue
        for nb in (math.nextafter(bf, 2.0), math.nextafter(bf, -1.0)):
            if 0.0 <= nb < 1.0:
                out.append(("bp-nbr", Fraction(nb)))
        nxt = bps[k + 1] if k + 1 < len(bps) else Fraction(1)
        out.append(("mid", (b + nxt) / 2))
    seen, res = set(), []
    for tag, q in out:
        if q not in seen and 0 <= q < 1:
            seen.add(q)
            res.append((tag, q))
    return res


# ------------------------------------------------------------------ generators
def _composition(rng, total, m, zeros=0.2):
    """random composition of the integer `total` into m non-negative parts"""
    if m == 1:
        return [total]
    cuts = sorted(rng.randint(0, total) for _ in range(m - 1))
    parts = [b - a for a, b in zip([0] + cuts, cuts + [total])]
    if rng.random() < zeros and m > 2:
        i = rng.randrange(m)
        j = rng.randrange(m)
        if i != j:
            parts[j] += parts[i]
            parts[i] = 0
    return parts


def gen_Q_pairs(rng, tier):
    """(tag, n, w as Fractions) — dyadic weight vectors"""
    F = Fraction
    pairs = []
    fixed = [
        [F(1, 2), F(1, 4), F(1, 4)], [F(1)], [F(0), F(1)], [F(1), F(0)], [F(0), F(0), F(1), F(0)],
        [F(1, 2), F(1, 2)], [F(1, 4)] * 4, [F(1) - F(1, 1024), F(1, 1024)], [F(1, 1024), F(1) - F(1, 1024)],
        [F(1, 8), F(0), F(3, 8), F(0), F(1, 2)], [F(3, 8), F(5, 8)], [F(1, 16)] * 16,
        [F(1, 2 ** 30), F(1)], [F(1), F(1, 2 ** 30)],
    ]
    for w in fixed:
        for n in (1, 2, 4, 8):
            pairs.append(("fixed", n, w))
    pairs.append(("empty", 3, []))
    pairs.append(("empty", 0, []))
    pairs.append(("n0", 0, [F(1, 2), F(1, 2)]))
    pairs.append(("n0", 0, [F(1)]))
    reps = 150 if tier == "quick" else 1500
    for _ in range(reps):
        B = rng.choice([2, 3, 4, 6, 10])
        m = rng.randint(1, 8)
        w = [F(p, 2 ** B) for p in _composition(rng, 2 ** B, m)]
        n = rng.choice([1, 2, 4, 4, 8, 16, 32, 3, 5, 6, 7, 10])
        kind = rng.random()
        tag = "sum1"
        if kind < 0.35:
            k = rng.choice([20, 25, 26, 27, 30, 40])
            i = rng.randrange(m)
            e = F(1, 2 ** k)
            if rng.random() < 0.5 and w[i] >= e:
                w = w[:i] + [w[i] - e] + w[i + 1:]
                tag = f"sum1-2^-{k}"
            else:
                w = w[:i] + [w[i] + e] + w[i + 1:]
                tag = f"sum1+2^-{k}"
        elif kind < 0.5:
            sc = rng.choice([F(2), F(1, 2), F(4), F(1, 4)])
            w = [x * sc for x in w]
            tag = f"sum{frac2s(sc)}"
        pairs.append((tag, n, w))
    return pairs


def _dirichlet(rng, m, alpha):
    g = [rng.gammavariate(alpha, 1.0) for _ in range(m)]
    s = sum(g)
    if s == 0:
        g = [1.0] * m
        s = float(m)
    return [x / s for x in g]


def gen_F_pairs(rng, tier):
    """(tag, n, wf) — non-dyadic weight vectors"""
    pairs = [("tenth", 10, [0.1] * 10), ("tenth", 7, [0.1] * 10), ("quarter-1e-9", 4, [0.25 * (1 - 1e-9)] * 4),
             ("docstring", 4, [0.6, 0.2, 0.15, 0.05]), ("third", 3, [1 / 3] * 3), ("third", 6, [1 / 3] * 3),
             ("allzero", 3, [0.0, 0.0]), ("single", 5, [1.0]), ("single", 1, [0.9999999999999999])]
    reps = 200 if tier == "quick" else 4000
    for _ in range(reps):
        k = rng.random()
        if k < 0.6:
            m = rng.randint(1, 12)
        elif k < 0.9:
            m = rng.randint(13, 80)
        else:
            m = rng.randint(81, 300)
        kind = rng.random()
        if kind < 0.45:
            w = _dirichlet(rng, m, rng.choice([0.1, 0.5, 1.0, 10.0]))
            tag = "dirichlet"
        elif kind < 0.6:
            r = rng.uniform(0.05, 2.0)
            e = [math.exp(-r * i) for i in range(m)]
            s = sum(e)
            w = [x / s for x in e]
            tag = "skewed"
        elif kind < 0.7:
            w = _dirichlet(rng, m, 1.0)
            for _ in range(rng.randint(1, max(1, m // 2))):
                w[rng.randrange(m)] = 0.0
            s = sum(w)
            w = [x / s for x in w] if s > 0 else [1.0 / m] * m
            tag = "zeros"
        elif kind < 0.85:
            # sum off by a relative amount on either side of the tolerance 2^-26 ~ 1.49e-8
            w = _dirichlet(rng, m, 1.0)
            d = rng.choice([1e-6, 1e-7, 3e-8, 1.6e-8, 1.4e-8, 1e-8, 1e-9, 1e-12]) * rng.choice([1, -1])
            w = [x * (1 + d) for x in w]
            tag = "sum-off-%g" % abs(d)
        else:
            sc = rng.choice([3.7, 0.01, 123.0, 1e-8, 1e6])
            w = [x * sc for x in _dirichlet(rng, m, 1.0)]
            tag = "unnormalised"
        n = rng.choice([1, 2, 3, 5, 8, 13, 32, 64, m, m, 2 * m + 1])
        pairs.append((tag, n, w))
    return pairs


def _running_sums(wf, s):
    arr = np.array(wf, dtype=float)
    with warnings.catch_warnings():
        warnings.simplefilter("ignore")
        if abs(s - 1.0) > SQRTEPS:
            arr = arr / s
    out, c = [], None
    for x in arr:
        c = x if c is None else c + x
        out.append(float(c))
    return out


def F_offsets(rng, n, wf, k_adv, k_rand):
    offs = [("zero", 0.0), ("one-", ONE_M), ("1-1e-12", 1 - 1e-12)]
    cs = [c for c in _running_sums(wf, _np_sum(wf)) if math.isfinite(c)]
    for _ in range(k_adv):
        if not cs or n == 0:
            break
        c = Fraction(rng.choice(cs))
        t = n * c
        b = float(t - math.floor(t))
        for _ in range(rng.randint(0, 2)):
            b = math.nextafter(b, rng.choice([2.0, -1.0]))
        if 0.0 <= b < 1.0:
            offs.append(("near-bp", b))
    for _ in range(k_rand):
        offs.append(("random", rng.random()))
    return offs


# ------------------------------------------------------------------ correspondence: systematic
def _q_line(n, w, u0):
    return f"syst.Q n={n} w={flist(w, frac2s)} u0={frac2s(u0)}"


def _f_line(n, wf, u0f):
    return f"syst.F n={n} s={f2hex(_np_sum(wf))} w={flist(wf, f2hex)} u0={f2hex(u0f)}"


def _np_line(line):
    """the same operation on the self-contained model (np.sum modelled as numpy's pairwise summation, not passed in)"""
    toks = [t for t in line.split(" ") if not t.startswith("s=")]
    toks[0] = toks[0].replace("syst.", "systnp.")
    return " ".join(toks)


def _syst_suites(tier, drv):
    cq = Corr("systematic-Q", "exact-dyadic (Rat model), admitted by the float-exactness audit")
    cf = Corr("systematic-F", "bit-exact (Float model): both with s=np.sum(w) passed in and with the modelled pairwise np.sum")
    jobs = []   # (corr, line, n, wf, u0f, tag, otag, form)
    rng = common.rng_for("C06.Q")
    for tag, n, w in gen_Q_pairs(rng, tier):
        wf_ok = True
        try:
            wf = [float(x) for x in w]
        except OverflowError:
            wf_ok = False
        if not wf_ok:
            continue
        part = offset_partition(n, w)
        if len(part) > 60:
            keep = [p for p in part if p[0] in ("zero", "one-")]
            rest = [p for p in part if p[0] not in ("zero", "one-")]
            rng.shuffle(rest)
            part = keep + rest[:58]
        for otag, u0 in part:
            u0f = float(u0)
            if Fraction(u0f) != u0:
                # the exact midpoint / shifted breakpoint is not a double: use the double next to it (still inside the same cell
                # or on its boundary; either way both sides receive the same double)
                u0 = Fraction(u0f)
                if not (0 <= u0 < 1):
                    continue
            if exact_audit(n, w, u0):
                jobs.append((cq, _q_line(n, w, u0), n, wf, u0f, tag, otag, "array"))
            else:
                jobs.append((cf, _f_line(n, wf, u0f), n, wf, u0f, tag, otag + "(inexact->F)", "array"))
    rng = common.rng_for("C06.F")
    fpairs = gen_F_pairs(rng, tier)
    for tag, n, wf in fpairs:
        for otag, u0f in F_offsets(rng, n, wf, 5, 4):
            form = rng.choice(["array"] * 7 + ["list", "tuple", "strided"])
            jobs.append((cf, _f_line(n, wf, u0f), n, wf, u0f, tag, otag, form))
    # edge shapes in the Float regime too
    for n, wf in ((3, []), (0, []), (0, [0.5, 0.5]), (0, [1.0]), (1, [1.0]), (1000, [0.25, 0.75]), (257, [0.1] * 10)):
        for u0f in (0.0, 0.5, ONE_M):
            jobs.append((cf, _f_line(n, wf, u0f), n, wf, u0f, "edge-shape", "fixed", "array"))
    # the random_state argument
    seeded = []
    for tag, n, wf in fpairs[:: max(1, len(fpairs) // (40 if tier == "quick" else 400))]:
        seed = rng.randrange(2 ** 31)
        u0f, r = _real_syst_seeded(n, wf, seed)
        seeded.append((cf, _f_line(n, wf, u0f), n, wf, u0f, tag, "random_state", r))
    lines = [j[1] for j in jobs] + [j[1] for j in seeded]
    res = drv.batch(lines + [_np_line(x) for x in lines])
    res1, res2 = res[:len(lines)], res[len(lines):]
    allj = [(j[:7], _show(_real_syst(j[2], j[3], j[4], j[7])), j[7]) for j in jobs] + [(j[:7], _show(j[7]), "random_state") for j in seeded]
    for ((c, line, n, wf, u0f, tag, otag), impl, form), ans, ans_np in zip(allj, res1, res2):
        c.case((n, [f2hex(x) for x in wf], f2hex(u0f), form), len(wf) >= 2 and n >= 2)
        c.count("w:" + tag)
        c.count("u0:" + otag)
        c.count("input:" + form)
        c.count("len<=8" if len(wf) <= 8 else "len<=80" if len(wf) <= 80 else "len<=300")
        c.count("n<=64" if n <= 64 else "n<=1000")
        s = _np_sum(wf)
        c.count("renormalised" if abs(s - 1.0) > SQRTEPS else ("sum==1" if s == 1.0 else "within-tolerance"))
        if impl in ("IndexError",):
            c.count("IndexError")
        if impl != ans:
            c.disagree(input=line, impl=impl, model=ans, kind="syst", n=n, w_hex=[f2hex(x) for x in wf], u0_hex=f2hex(u0f))
        elif impl != ans_np:
            c.disagree(input=_np_line(line), impl=impl, model=ans_np, kind="syst", n=n, w_hex=[f2hex(x) for x in wf], u0_hex=f2hex(u0f),
                       note="model with np.sum inside")
        c.sample({"op": line if len(line) < 300 else line[:300] + "...", "impl": impl[:120], "model": ans[:120]})
    return [cq, cf]


def _npsum_suite(tier, drv):
    c = Corr("np.sum", "bit-exact (Float model of numpy's pairwise summation)")
    rng = common.rng_for("C06.npsum")
    arrs = [("weights", wf) for _, _, wf in gen_F_pairs(common.rng_for("C06.F"), tier)]
    for _ in range(400 if tier == "quick" else 6000):
        n = rng.choice([rng.randint(0, 20), rng.randint(0, 300), rng.randint(120, 140), rng.randint(250, 270), rng.randint(0, 1500)])
        k = rng.random()
        if k < 0.4:
            arrs.append(("uniform", [rng.random() for _ in range(n)]))
        elif k < 0.7:
            arrs.append(("mixed-magnitude", [abs(rng.gauss(0, 1)) * 10 ** rng.randint(-12, 12) for _ in range(n)]))
        elif k < 0.8:
            arrs.append(("signed", [rng.gauss(0, 1) * 10 ** rng.randint(-6, 6) for _ in range(n)]))
        elif k < 0.85:
            arrs.append(("neg-zeros", [-0.0] * n))
        else:
            arrs.append(("dirichlet", _dirichlet(rng, max(n, 1), 0.3)))
    res = drv.batch(["npsum.F w=" + flist(a, f2hex) for _, a in arrs])
    for (tag, a), ans in zip(arrs, res):
        impl = f2hex(_np_sum(a))
        c.case((tag, [f2hex(x) for x in a]), len(a) >= 8)
        c.count("kind:" + tag)
        c.count("n<8" if len(a) < 8 else "n<=128" if len(a) <= 128 else "n>128 (recursive split)")
        if impl != ans:
            c.disagree(input="npsum.F n=%d" % len(a), impl=impl, model=ans, w_hex=[f2hex(x) for x in a][:40])
        c.sample({"op": "npsum.F (%d values)" % len(a), "impl": impl, "model": ans})
    return c


# ------------------------------------------------------------------ correspondence: multinomial
def _mult_weights(rng, tier):
    F = Fraction
    out = [("fixed", [0.5, 0.25, 0.25]), ("fixed", [1.0]), ("fixed", [0.0, 1.0]), ("fixed", [0.0, 0.0, 1.0, 0.0]),
           ("fixed", [0.1] * 10), ("fixed", [0.6, 0.2, 0.15, 0.05]), ("fixed", [1 - 2.0 ** -10, 2.0 ** -10]),
           ("fixed", [2.0 ** -30, 1.0]), ("fixed", [0.5, 0.5 - 2.0 ** -30]), ("empty", []), ("empty", [])]
    for _ in range(300 if tier == "quick" else 5000):
        k = rng.random()
        m = rng.randint(1, 12) if rng.random() < 0.7 else rng.randint(13, 200)
        if k < 0.3:
            B = rng.choice([2, 3, 4, 6, 10])
            out.append(("dyadic", [p / 2 ** B for p in _composition(rng, 2 ** B, m)]))
        elif k < 0.7:
            out.append(("dirichlet", _dirichlet(rng, m, rng.choice([0.1, 1.0, 10.0]))))
        elif k < 0.85:
            w = _dirichlet(rng, m, 1.0)
            for _ in range(rng.randint(1, max(1, m // 2))):
                w[rng.randrange(m)] = 0.0
            s = sum(w)
            out.append(("zeros", [x / s for x in w] if s > 0 else [1.0 / m] * m))
        else:
            d = rng.choice([1e-9, -1e-9, 5e-9, -5e-9, 1e-12])
            out.append(("sum-off", [x * (1 + d) for x in _dirichlet(rng, m, 1.0)]))
    return out


def _uniforms(seed, n):
    np.random.seed(seed)
    return [float(u) for u in np.random.random_sample(n)]


def _real_choice(seed, n, wf):
    np.random.seed(seed)
    try:
        return [int(i) for i in np.random.choice(np.arange(len(wf)), size=n, replace=True, p=np.array(wf, dtype=float))]
    except Exception as e:  # noqa
        return type(e).__name__


def _mult_suite(tier, drv):
    c = Corr("multinomial", "bit-exact (Float model) + exact (Rat model) for dyadic weights; uniforms read from the seeded generator")
    rng = common.rng_for("C06.mult")
    st = np.random.get_state()
    jobs = []
    try:
        for tag, wf in _mult_weights(rng, tier):
            n = rng.choice([1, 2, 5, 16, 40, len(wf), 0]) if wf else rng.choice([1, 3])
            seed = rng.randrange(2 ** 31)
            us = _uniforms(seed, n)
            impl = _real_choice(seed, n, wf)
            if isinstance(impl, str) and not (len(wf) == 0 and n > 0):
                c.count("numpy-rejected:" + impl)      # outside numpy's own tolerance: not a case
                continue
            jobs.append((f"mult.F w={flist(wf, f2hex)} us={flist(us, f2hex)}", tag, n, wf, seed, impl, "F"))
            if tag in ("dyadic", "fixed") and all(Fraction(x).denominator <= 2 ** 40 for x in wf):
                jobs.append((f"mult.Q w={flist([Fraction(x) for x in wf], frac2s)} us={flist([Fraction(u) for u in us], frac2s)}",
                             tag, n, wf, seed, impl, "Q"))
    finally:
        np.random.set_state(st)
    res = drv.batch([j[0] for j in jobs])
    for (line, tag, n, wf, seed, impl, reg), ans in zip(jobs, res):
        c.case((reg, n, [f2hex(x) for x in wf], seed), len(wf) >= 2 and n >= 2)
        c.count("w:" + tag)
        c.count("regime-" + reg)
        c.count("n=0" if n == 0 else "n>0")
        if _show(impl) != ans:
            c.disagree(input=line[:400], impl=_show(impl), model=ans, kind="mult", n=n, w_hex=[f2hex(x) for x in wf], seed=seed)
        c.sample({"op": line[:300], "impl": _show(impl)[:120], "model": ans[:120]})
    return c


# ------------------------------------------------------------------ correspondence: Resampler.run and posterior(resample=True)
def _mk_state(m, rng):
    from tempest.state_manager import StateManager
    st = StateManager(n_dim=1)
    cut = rng.randint(1, m - 1) if m >= 2 else m
    lo = 0
    for hi in ([cut, m] if cut < m else [m]):
        k = hi - lo
        ids = np.arange(lo, hi, dtype=float)
        st.update_current({"u": (ids.reshape(k, 1) + 0.25) / (m + 1), "x": ids.reshape(k, 1) * 10.0, "logl": ids, "blobs": ids * 100.0,
                           "beta": 0.5, "iter": 0, "logz": 0.0, "calls": 0, "steps": 1, "efficiency": 1.0, "ess": 1.0, "acceptance": 1.0})
        st.commit_current_to_history()
        lo = hi
    return st


class _StubClusterer:
    """stands in for the fitted HierarchicalGaussianMixture: a deterministic label from the coordinate"""

    def predict(self, u):
        return (np.floor(np.asarray(u)[:, 0] * 1000.0).astype(int)) % 3


def _run_resampler(scheme, n, wf, m_rng, u0f=None, seed=None, have_blobs=False, clustering=False, beta=0.5):
    """drive the real Resampler.run; particles carry their pool index in logl (x = 10*index, blob = 100*index), so the indices used are
    recoverable and the gather can be checked.  beta = 0 is the warm-up branch: nothing is resampled."""
    from tempest.steps.resample import Resampler
    st = _mk_state(len(wf), m_rng)
    st.set_current("beta", beta)
    clus = _StubClusterer() if clustering else None
    r = Resampler(st, n_particles=n, resample=scheme, clusterer=clus, clustering=clustering, have_blobs=have_blobs)
    w = np.array(wf, dtype=float)
    before = {k: st.get_current(k) for k in ("u", "x", "logl", "blobs")}
    try:
        if scheme == "syst":
            with common.patched(np.random, "random", lambda *a, **k: u0f), warnings.catch_warnings():
                warnings.simplefilter("ignore")
                r.run(w)
        else:
            np.random.seed(seed)
            r.run(w)
    except Exception as e:  # noqa
        return type(e).__name__
    logl = st.get_current("logl")
    x = st.get_current("x")
    u = st.get_current("u")
    asg = st.get_current("assignments")
    if beta == 0.0:
        same = all(np.array_equal(before[k], st.get_current(k)) for k in before)
        return "skip" if same and asg is not None and len(asg) == n and not np.any(asg) else "beta0-branch-changed-particles"
    idx = [int(round(float(v))) for v in logl]
    m = len(wf)
    coherent = (len(x) == len(idx) == len(u)
                and all(float(x[k, 0]) == 10.0 * idx[k] and float(u[k, 0]) == (idx[k] + 0.25) / (m + 1) for k in range(len(idx))))
    if have_blobs:
        b = st.get_current("blobs")
        coherent = coherent and len(b) == len(idx) and all(float(b[k]) == 100.0 * idx[k] for k in range(len(idx)))
    want_asg = clus.predict(u) if clustering else np.zeros(n, dtype=int)
    coherent = coherent and asg is not None and np.array_equal(np.asarray(asg), want_asg)
    return idx if coherent else "incoherent-gather"


def _run_line(beta0, scheme, n, wf, u0f=0.0, us=()):
    return (f"run.F beta0={1 if beta0 else 0} scheme={scheme} n={n} w={flist(wf, f2hex)} u0={f2hex(u0f)} "
            f"us={flist(us, f2hex)}")


def _resampler_suite(tier, drv):
    c = Corr("Resampler.run", "bit-exact (Float model `resamplerRun`, np.sum inside); indices recovered from tagged particles of a real "
             "StateManager history; gather of u/x/logl/blobs and labels checked on the way")
    rng = common.rng_for("C06.run")
    st = np.random.get_state()
    jobs = []
    try:
        for _ in range(300 if tier == "quick" else 4000):
            m = rng.randint(1, 10) if rng.random() < 0.7 else rng.randint(11, 120)
            k = rng.random()
            if k < 0.3:
                B = rng.choice([2, 3, 4, 6])
                wf = [p / 2 ** B for p in _composition(rng, 2 ** B, m)]
            elif k < 0.8:
                wf = _dirichlet(rng, m, rng.choice([0.1, 1.0, 10.0]))
            else:
                wf = _dirichlet(rng, m, 1.0)
                wf[rng.randrange(m)] = 0.0
                s = sum(wf)
                wf = [x / s for x in wf] if s > 0 else [1.0 / m] * m
            n = rng.choice([1, 2, 4, 7, 16, 33, m])
            opts = {"have_blobs": rng.random() < 0.4, "clustering": rng.random() < 0.4}
            if rng.random() < 0.08:
                # warm-up branch (beta = 0): no resampling, particles untouched, labels all 0
                scheme = rng.choice(["syst", "mult"])
                impl = _run_resampler(scheme, n, wf, rng, u0f=0.5, seed=1, beta=0.0, **opts)
                c.count("branch:beta=0 (skip)")
                jobs.append((_run_line(True, scheme, n, wf, 0.5, _uniforms(1, n)), scheme, n, wf, impl, {"beta0": True}))
                continue
            if rng.random() < 0.02:
                # a scheme string the constructor does not check (config validation, C18, rejects it earlier)
                impl = _run_resampler("stratified", n, wf, rng, u0f=0.5, seed=1, **opts)
                c.count("branch:unknown-scheme")
                jobs.append((_run_line(False, "stratified", n, wf, 0.5, []), "other", n, wf, impl, {"scheme": "stratified"}))
                continue
            for k_, v_ in opts.items():
                c.count(f"{k_}={v_}")
            if rng.random() < 0.5:
                u0f = rng.choice([0.0, ONE_M, rng.random(), rng.random()])
                impl = _run_resampler("syst", n, wf, rng, u0f=u0f, **opts)
                jobs.append((_run_line(False, "syst", n, wf, u0f, []), "syst", n, wf, impl, {"u0_hex": f2hex(u0f)}))
            else:
                seed = rng.randrange(2 ** 31)
                us = _uniforms(seed, n)
                impl = _run_resampler("mult", n, wf, rng, seed=seed, **opts)
                if impl == "ValueError":
                    c.count("numpy-rejected")
                    continue
                jobs.append((_run_line(False, "mult", n, wf, 0.0, us), "mult", n, wf, impl, {"seed": seed}))
    finally:
        np.random.set_state(st)
    res = drv.batch([j[0] for j in jobs])
    for (line, scheme, n, wf, impl, extra), ans in zip(jobs, res):
        c.case((scheme, n, [f2hex(x) for x in wf], extra), len(wf) >= 2 and n >= 2)
        c.count("scheme:" + scheme)
        if _show(impl) != ans:
            c.disagree(input=line[:400], impl=_show(impl), model=ans, kind="run-" + scheme, n=n, w_hex=[f2hex(x) for x in wf], **extra)
        c.sample({"op": line[:300], "impl": _show(impl)[:120], "model": ans[:120]})
    return c


def _posterior_suite(tier, drv):
    c = Corr("posterior(resample=True)", "bit-exact (Float model `posteriorResample`, n = len(w), np.sum inside) on the weights the real compute_posterior passes to systematic_resample")
    import tempest.tools as T
    from . import witnesses
    rng = common.rng_for("C06.post")
    st = np.random.get_state()
    jobs = []
    try:
        for sd in ([3, 11] if tier == "quick" else [3, 11, 17, 23, 31, 47]):
            with contextlib.redirect_stdout(io.StringIO()), warnings.catch_warnings():
                warnings.simplefilter("ignore")
                np.random.seed(sd)
                s = witnesses._mk_sampler(clustering=False, n_particles=16)
                s._core._initialize_fresh()
                for _ in range(4):
                    s.sample()
            orig = T.systematic_resample
            for trim in (True, False):
                for u0f in [0.0, ONE_M] + [rng.random() for _ in range(8)]:
                    rec = []

                    def wrap(size, weights, random_state=None):
                        r = orig(size, weights, random_state)
                        rec.append((int(size), [float(x) for x in np.asarray(weights, dtype=float)], [int(i) for i in r]))
                        return r
                    with common.patched(T, "systematic_resample", wrap), common.patched(np.random, "random", lambda *a, **k: u0f), \
                            warnings.catch_warnings():
                        warnings.simplefilter("ignore")
                        try:
                            x, w, logl = s.posterior(resample=True, trim_importance_weights=trim)
                        except Exception as e:  # noqa
                            c.disagree(input=f"posterior seed={sd} trim={trim} u0={u0f!r}", impl=type(e).__name__, model="no exception")
                            continue
                    if len(rec) != 1:
                        c.disagree(input=f"posterior seed={sd} trim={trim}", impl=f"{len(rec)} calls of systematic_resample", model="1 call")
                        continue
                    n, wf, idx = rec[0]
                    ok_shape = (n == len(wf) and len(x) == n and len(logl) == n and len(w) == n
                                and all(float(t) == 1.0 / n for t in w))
                    jobs.append((f"post.F w={flist(wf, f2hex)} u0={f2hex(u0f)}", n, wf, u0f, idx if ok_shape else "bad-shape", sd, trim))
    finally:
        np.random.set_state(st)
    res = drv.batch([j[0] for j in jobs])
    for (line, n, wf, u0f, impl, sd, trim), ans in zip(jobs, res):
        c.case((sd, trim, f2hex(u0f)), len(wf) >= 2 and n >= 2)
        c.count("trim" if trim else "no-trim")
        if _show(impl) != ans:
            c.disagree(input=line[:400], impl=_show(impl)[:300], model=ans[:300], kind="syst", n=n, w_hex=[f2hex(x) for x in wf],
                       u0_hex=f2hex(u0f))
        c.sample({"op": line[:200] + "...", "impl": _show(impl)[:80], "model": ans[:80]})
    return c


def correspond(tier):
    from tempest import tools
    drv = common.Driver()
    pre = Corr("constants", "exact")
    pre.case("SQRTEPS", False)
    if tools.SQRTEPS != SQRTEPS:
        pre.disagree(input="tempest.tools.SQRTEPS", impl=repr(tools.SQRTEPS), model="2^-26")
    # the equivalence the multinomial suite rests on: choice(p) == searchsorted(cdf, random_sample) under one seed (numpy's own algorithm)
    out = [pre] + _syst_suites(tier, drv)
    out.append(_npsum_suite(tier, drv))
    out.append(_mult_suite(tier, drv))
    out.append(_resampler_suite(tier, drv))
    out.append(_posterior_suite(tier, drv))
    return out


# ------------------------------------------------------------------ property oracle on the real code
def oracle_syst(n, wf, u0f, run=_real_syst):
    """the property's own statement on one input of the real systematic_resample; returns a message or None"""
    m = len(wf)
    if m == 0 or n < 1:
        return None
    r = run(n, wf, u0f)
    if isinstance(r, str):
        return f"raised {r}"
    if len(r) != n:
        return f"returned {len(r)} indices for n={n}"
    if any(i < 0 or i >= m for i in r):
        return f"index out of range 0..{m - 1}: {[i for i in r if i < 0 or i >= m][:3]}"
    if any(a > b for a, b in zip(r, r[1:])):
        return f"indices not non-decreasing: {r[:12]}"
    w = [Fraction(x) for x in wf]
    S = sum(w, Fraction(0))
    if S <= 0:
        return None
    counts = [0] * m
    for i in r:
        counts[i] += 1
    if S == 1 and exact_audit(n, w, Fraction(u0f)):
        for j in range(m):
            t = n * w[j]
            if counts[j] not in (math.floor(t), math.ceil(t)):
                return (f"index {j} copied {counts[j]} times but n*w_j = {float(t)!r} (floor/ceil law; weights sum to exactly 1, "
                        f"all float operations exact); indices {r[:12]}")
    else:
        # rounding and the tolerance band can move a count by far less than this slack
        for j in range(m):
            t = n * w[j] / S
            if abs(counts[j] - t) >= 1 + n * Fraction(1, 10 ** 7) + Fraction(1, 10 ** 6):
                return f"index {j} copied {counts[j]} times but n*w_j/sum(w) = {float(t)!r}; indices {r[:12]}"
    return None


def oracle_expectation(n, w, run=_real_syst):
    """exact expectation over u0 ~ U[0,1) of the copies of each index, from the REAL outputs on the finite partition
    (w: Fractions with sum exactly 1, everything exact in floating point). Returns a message or None."""
    bps = breakpoints(n, w)
    m = len(w)
    wf = [float(x) for x in w]
    exp = [Fraction(0)] * m
    for k, b in enumerate(bps):
        nxt = bps[k + 1] if k + 1 < len(bps) else Fraction(1)
        mid = (b + nxt) / 2
        if not exact_audit(n, w, mid):
            return None          # not decidable exactly on this input: no verdict
        r = run(n, wf, float(mid))     # behaviour is constant on the open cell (b, nxt); its end points have measure zero
        if isinstance(r, str) or len(r) != n or any(i < 0 or i >= m for i in r):
            return None      # reported by oracle_syst
        for i in r:
            exp[i] += (nxt - b)
    for j in range(m):
        if exp[j] != n * w[j]:
            return (f"expected copies of index {j} over the offset partition = {frac2s(exp[j])} but n*w_j = {frac2s(n * w[j])}",
                    float((bps[0] + (bps[1] if len(bps) > 1 else 1)) / 2))
    return None


def oracle_mult(n, wf, seed):
    """Resampler.run(scheme 'mult') on tagged particles: length, range, zero-weight indices never drawn, and every index is the cell
    of the uniform the generator produced for it (slack 1e-12 on the cdf)"""
    st = np.random.get_state()
    try:
        us = _uniforms(seed, n)
        r = _run_resampler("mult", n, wf, common.rng_for("C06.oracle_mult"), seed=seed)
    finally:
        np.random.set_state(st)
    m = len(wf)
    if r == "ValueError":
        return None
    if isinstance(r, str):
        return f"raised/returned {r}"
    if len(r) != n:
        return f"{len(r)} particles for n={n}"
    if any(i < 0 or i >= m for i in r):
        return "index out of range"
    for i in r:
        if wf[i] == 0.0:
            return f"zero-weight particle {i} was drawn (expected copies n*w_i = 0); indices {r[:12]}"
    w = [Fraction(x) for x in wf]
    S = sum(w, Fraction(0))
    cdf, c = [], Fraction(0)
    for x in w:
        c += x
        cdf.append(c / S)
    tol = Fraction(1, 10 ** 12)
    for k, (u, i) in enumerate(zip(us, r)):
        lo = cdf[i - 1] if i > 0 else Fraction(0)
        if not (lo - tol <= Fraction(u) < cdf[i] + tol):
            return (f"draw {k}: uniform {u!r} gave index {i} whose cell is [{float(lo)!r}, {float(cdf[i])!r}) "
                    f"(so copies are not distributed as n*w_i); indices {r[:12]}")
    return None


def oracle_posterior(sd, trim, u0f):
    """Sampler.posterior(resample=True) on a real run: it must hand systematic_resample all of its weights and ask for as many
    indices as there are weights, and return that many equally weighted samples; the indices must satisfy the point-wise laws."""
    import tempest.tools as T
    from . import witnesses
    st = np.random.get_state()
    try:
        with contextlib.redirect_stdout(io.StringIO()), warnings.catch_warnings():
            warnings.simplefilter("ignore")
            np.random.seed(sd)
            s = witnesses._mk_sampler(clustering=False, n_particles=16)
            s._core._initialize_fresh()
            for _ in range(4):
                s.sample()
        orig = T.systematic_resample
        rec = []

        def wrap(size, weights, random_state=None):
            r = orig(size, weights, random_state)
            rec.append((int(size), [float(x) for x in np.asarray(weights, dtype=float)], [int(i) for i in r]))
            return r
        with common.patched(T, "systematic_resample", wrap), common.patched(np.random, "random", lambda *a, **k: u0f), \
                warnings.catch_warnings():
            warnings.simplefilter("ignore")
            try:
                x, w, logl = s.posterior(resample=True, trim_importance_weights=trim)
            except Exception as e:  # noqa
                return f"posterior(resample=True) raised {type(e).__name__}: {e}"
    finally:
        np.random.set_state(st)
    if len(rec) != 1:
        return f"posterior(resample=True) called systematic_resample {len(rec)} times"
    n, wf, idx = rec[0]
    if n != len(wf):
        return f"posterior(resample=True) asked for {n} indices for {len(wf)} weights"
    if not (len(x) == len(logl) == len(w) == len(wf)):
        return f"posterior(resample=True) returned {len(x)} samples / {len(w)} weights for {len(wf)} pool weights"
    if any(float(t) != 1.0 / len(wf) for t in w):
        return "posterior(resample=True) did not return equal weights 1/n"
    return oracle_syst(n, wf, u0f, lambda n_, w_, u_: idx)


def _fail_syst(msg, n, wf, u0f, via="systematic_resample"):
    return {"what": msg, "kind": "syst", "via": via, "n": n, "w": [float(x) for x in wf], "w_hex": [f2hex(x) for x in wf],
            "u0": float(u0f), "u0_hex": f2hex(u0f)}


def _run_syst_via_resampler(n, wf, u0f):
    return _run_resampler("syst", n, wf, common.rng_for("C06.oracle_run"), u0f=u0f)


def search(tier, hints):
    found = []

    def add(f):
        found.append(f)
        return len(found) >= 5

    # 1. the disagreeing inputs themselves
    for h in hints:
        try:
            if h.get("kind") in ("syst", "run-syst") and "u0_hex" in h:
                wf = [hex2f(x) for x in h["w_hex"]]
                u0f = hex2f(h["u0_hex"])
                for via, run in (("systematic_resample", _real_syst), ("Resampler.run", _run_syst_via_resampler)):
                    msg = oracle_syst(h["n"], wf, u0f, run)
                    if msg and add(_fail_syst(msg, h["n"], wf, u0f, via)):
                        return found
            elif h.get("kind") in ("mult", "run-mult") and "seed" in h:
                wf = [hex2f(x) for x in h["w_hex"]]
                msg = oracle_mult(h["n"], wf, h["seed"])
                if msg and add({"what": msg, "kind": "mult", "n": h["n"], "w_hex": h["w_hex"], "seed": h["seed"]}):
                    return found
        except Exception as e:  # noqa
            if add({"what": f"oracle crashed on a disagreeing input: {type(e).__name__}: {e}", "kind": "crash", "hint": str(h)[:300]}):
                return found
    # 2. exact dyadic pairs x complete offset partition: point-wise laws, then the exact expectation
    rng = common.rng_for("C06.search")
    pairs = gen_Q_pairs(rng, "quick" if tier == "quick" else "thorough")
    for via, run in (("systematic_resample", _real_syst), ("Resampler.run", _run_syst_via_resampler)):
        for tag, n, w in (pairs if via == "systematic_resample" else pairs[:60]):
            if not w or n < 1:
                continue
            wf = [float(x) for x in w]
            for otag, u0 in offset_partition(n, w):
                u0f = float(u0)
                msg = oracle_syst(n, wf, u0f, run)
                if msg:
                    if add(_fail_syst(msg, n, wf, u0f, via)):
                        return found
                    break
            if sum(w, Fraction(0)) == 1 and n & (n - 1) == 0:
                r = oracle_expectation(n, w, run)
                if r:
                    if add(_fail_syst(r[0], n, wf, r[1], via)):
                        return found
    # 3. float weights, adversarial offsets
    for tag, n, wf in gen_F_pairs(common.rng_for("C06.searchF"), "quick"):
        for otag, u0f in F_offsets(rng, n, wf, 6, 3):
            msg = oracle_syst(n, wf, u0f)
            if msg:
                if add(_fail_syst(msg, n, wf, u0f)):
                    return found
                break
    # 3b. large n with a sum off by d: a count drifts by n*w_j*d unless the routine renormalises (it must for d > 2^-26)
    for d in (1e-3, -1e-3, 3e-4, 1e-4, -1e-4, 1e-5):
        n = min(int(6 / abs(d)), 600000)
        for wf in ([0.5 * (1 + d), 0.5 * (1 + d)], [0.7 * (1 + d), 0.2 * (1 + d), 0.1 * (1 + d)]):
            for u0f in (0.0, 0.5, ONE_M):
                msg = oracle_syst(n, wf, u0f)
                if msg:
                    if add(_fail_syst(msg + f" (weights sum to 1{d:+g}: outside the tolerance 2^-26, the routine must renormalise)", n, wf, u0f)):
                        return found
                    break
    # 3c. posterior(resample=True) on real runs
    want_post = any("post" in str(h.get("suite", "")) or "post." in str(h.get("input", "")) for h in hints) or not found
    if want_post:
        for sd in (3, 11):
            for trim in (True, False):
                for u0f in (0.0, 0.37, ONE_M):
                    try:
                        msg = oracle_posterior(sd, trim, u0f)
                    except Exception as e:  # noqa
                        msg = f"oracle crashed: {type(e).__name__}: {e}"
                    if msg:
                        if add({"what": msg, "kind": "posterior", "seed": sd, "trim": trim, "u0": u0f, "u0_hex": f2hex(u0f)}):
                            return found
                        break
    # 4. multinomial through Resampler.run
    for tag, wf in _mult_weights(common.rng_for("C06.searchM"), "quick"):
        wz = list(wf)
        if len(wz) >= 3 and rng.random() < 0.5:
            keep = rng.randrange(len(wz))
            wz = [0.0] * len(wz)
            wz[keep] = 1.0
        for n in (1, 8):
            seed = rng.randrange(2 ** 31)
            msg = oracle_mult(n, wz, seed)
            if msg:
                if add({"what": msg, "kind": "mult", "n": n, "w": wz, "w_hex": [f2hex(x) for x in wz], "seed": seed}):
                    return found
                break
    return found


def replay(obj):
    f = obj.get("failing_input", obj)
    if "witness" in f.get("replay", {}):
        from . import witnesses
        return witnesses.ALL[f["replay"]["witness"]]()
    if f.get("kind") == "posterior":
        msg = oracle_posterior(f["seed"], f["trim"], hex2f(f["u0_hex"]))
        return {"fails": msg is not None, "detail": msg}
    wf = [hex2f(h) for h in f["w_hex"]]
    if f.get("kind") == "mult":
        msg = oracle_mult(f["n"], wf, f["seed"])
        return {"fails": msg is not None, "detail": msg}
    u0f = hex2f(f["u0_hex"])
    run = _run_syst_via_resampler if f.get("via") == "Resampler.run" else _real_syst
    msg = oracle_syst(f["n"], wf, u0f, run)
    if msg is None and sum((Fraction(x) for x in wf), Fraction(0)) == 1:
        r = oracle_expectation(f["n"], [Fraction(x) for x in wf], run)
        msg = r[0] if r else None
    return {"fails": msg is not None, "detail": msg, "output": _show(run(f["n"], wf, u0f))}
