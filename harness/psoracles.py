"""Exact, deterministic oracles of C01 / C02 on the REAL code (used by `search` after an obligation broke, and by `replay`).

They recompute, from the sampler's own stored history with independent numpy code, what the statements' mechanism clauses say
the user receives:
  C01  posterior(): the returned rows are stored pool records with THEIR log-likelihood (= the user's likelihood at the returned x);
       the weights are non-negative and sum to 1; without trimming / resampling they are the self-normalised mixture-importance
       weights at beta = 1 over the whole history; with resample=True they are uniform; return_logw is aligned with the rows.
  C02  evidence(): the value is log((1/N) sum_s W_s) at beta = 1 over the whole final history, it is the state's logz, and every
       annealing iteration's stored logz_t is the same functional at beta_t over the history available at iteration t.
Thresholds are 1e-9 relative on quantities computed with exp/log in a different order: they cannot fire on correct code.
"""
import contextlib
import io
import warnings

import numpy as np

from . import common


def _quiet():
    return contextlib.redirect_stdout(io.StringIO())


def target(kind):
    if kind == "bimodal":
        m, s2 = np.array([2.0, 2.0]), 0.12

        def like(x):
            return float(np.logaddexp(-0.5 * float(np.sum((x - m) ** 2)) / s2, -0.5 * float(np.sum((x + m) ** 2)) / s2))
        return 2, (lambda u: 8.0 * u - 4.0), like
    if kind == "hole":
        def like(x):
            return -np.inf if x[0] < -2.0 else -0.5 * float(np.sum((x - 0.7) ** 2)) / 0.5
        return 2, (lambda u: 8.0 * u - 4.0), like
    if kind == "edge":      # posterior mass piled up at the face x0 = +4 (u0 = 1) and straddling the seam of a periodic coordinate
        return 2, (lambda u: 8.0 * u - 4.0), (lambda x: -0.5 * (min(abs(float(x[0]) - 4.0), abs(float(x[0]) + 4.0)) ** 2) / 0.25
                                              - 0.5 * float(x[1]) ** 2 / 0.5)
    if kind == "narrow":    # posterior ~1e4 times narrower than the prior (unit-cube sd ~1e-4): unit-scale Student-t (nu = 10) kernel
        return 2, (lambda u: (u - 0.5) * 1.0e4), (lambda x: -6.0 * float(np.log1p(np.sum(x ** 2) / 10.0)))
    if kind == "weak":      # weakly informative: beta goes 0 -> 1 in one step
        return 1, (lambda u: 5.0 * u - 2.5), (lambda x: -0.5 * float(np.sum(x ** 2)))
    if kind == "wide":      # unit Gaussian under U(-10,10)^2: a tight volume-variation target holds beta
        return 2, (lambda u: 20.0 * u - 10.0), (lambda x: -0.5 * float(np.sum(x ** 2)) - np.log(2 * np.pi))
    return 2, (lambda u: 8.0 * u - 4.0), (lambda x: -0.5 * float(np.sum((x - 0.4) ** 2)) / 0.6)


# cells of the "same temperature" oracle (first in `search`): the two families in which the reweighter takes its rarely used exits
TEMP_CELLS = [dict(kernel="rwm", resample="mult", clustering=False, target="weak", volume_variation=None, periodic=None, n=32, ess_ratio=2.0),
              dict(kernel="tpcn", resample="syst", clustering=False, target="wide", volume_variation=0.05, periodic=None, n=32, ess_ratio=2.0),
              dict(kernel="tpcn", resample="mult", clustering=True, target="plain", volume_variation=None, periodic=None, n=24, ess_ratio=1.2),
              dict(kernel="rwm", resample="syst", clustering=False, target="wide", volume_variation=0.04, periodic=None, n=32, ess_ratio=1.7),
              dict(kernel="tpcn", resample="mult", clustering=False, target="wide", volume_variation=0.03, periodic=None, n=64, ess_ratio=2.0)]
# (thorough tier only: long) the second configuration of the seeded-change demo
TEMP_CELLS_THOROUGH = [dict(kernel="tpcn", resample="mult", clustering=False, target="wide", volume_variation=0.015, periodic=None, n=256,
                            ess_ratio=2.0)]
assert sum(1 for c_ in TEMP_CELLS if c_["volume_variation"] is not None) >= 3 and any(c_["target"] == "weak" for c_ in TEMP_CELLS)

# cells of the record oracle: folded coordinates WITH posterior mass at the declared face, so that accepted moves cross it
FOLD_CELLS = [dict(kernel="rwm", resample="mult", clustering=False, target="edge", volume_variation=None, periodic=None, reflective=[0]),
              dict(kernel="rwm", resample="syst", clustering=False, target="edge", volume_variation=None, periodic=[0], reflective=None),
              dict(kernel="tpcn", resample="mult", clustering=False, target="edge", volume_variation=None, periodic=[0], reflective=[1]),
              dict(kernel="tpcn", resample="syst", clustering=True, target="edge", volume_variation=None, periodic=None, reflective=[0, 1])]

CELLS = [dict(kernel=k, resample=r, clustering=c, target=t, volume_variation=v, periodic=p)
         for (k, r, c, t, v, p) in [("tpcn", "mult", True, "bimodal", None, None), ("rwm", "syst", False, "plain", None, None),
                                    ("tpcn", "syst", False, "hole", None, None), ("rwm", "mult", True, "plain", 0.4, None),
                                    ("tpcn", "mult", False, "plain", None, [0]), ("rwm", "syst", True, "hole", None, None)]]


def run_cell(cell, seed):
    from tempest import Sampler
    d, prior, like = target(cell["target"])
    n = 48 if cell["target"] == "bimodal" else 24
    with _quiet(), warnings.catch_warnings():
        warnings.simplefilter("ignore")
        s = Sampler(prior, like, d, n_particles=n, clustering=cell["clustering"], sample=cell["kernel"], resample=cell["resample"],
                    volume_variation=cell["volume_variation"], ess_ratio=1.7 if cell["volume_variation"] else 2.0,
                    periodic=cell["periodic"], reflective=cell.get("reflective"), n_steps=1, n_max_steps=3, random_state=seed)
        s.run(n_total=2 * n, progress=False)
    return s, like


def check_records(cell, seed):
    """every stored particle is a coherent record INSIDE the prior support: u in [0,1]^d, x == prior_transform(u) (bit for bit),
    logl == log_likelihood(x) (bit for bit) — on complete real runs with periodic / reflective coordinates and posterior mass at the
    declared face (accepted moves cross it and are folded back).  Also counts how many stored points lie within 0.02 of a folded face
    (so that the cell is known to exercise the fold)."""
    from tempest import Sampler
    d, prior, like = target(cell["target"])
    with _quiet(), warnings.catch_warnings():
        warnings.simplefilter("ignore")
        s = Sampler(prior, like, d, n_particles=32, clustering=cell["clustering"], sample=cell["kernel"], resample=cell["resample"],
                    periodic=cell["periodic"], reflective=cell.get("reflective"), n_steps=2, n_max_steps=6, random_state=seed)
        s.run(n_total=96, progress=False)
    st = s.state
    out, near = [], 0
    folded = list(cell["periodic"] or []) + list(cell.get("reflective") or [])
    for t in range(st.get_history_length()):
        U, X, Lh = st.get_history("u", t), st.get_history("x", t), st.get_history("logl", t)
        for j in range(len(U)):
            u, x = np.asarray(U[j], dtype=float), np.asarray(X[j], dtype=float)
            near += int(any(min(u[i], 1.0 - u[i]) < 0.02 for i in folded))
            if np.any(u < 0.0) or np.any(u > 1.0):
                out.append(f"batch {t + 1} particle {j}: stored u = {u.tolist()} outside the unit cube")
            elif np.asarray(prior(u), dtype=float).tobytes() != x.tobytes():
                out.append(f"batch {t + 1} particle {j}: stored x = {x.tolist()} is not prior_transform(u) = "
                           f"{np.asarray(prior(u)).tolist()} (u = {u.tolist()}): the record was evaluated at a point outside the prior "
                           f"support and folded afterwards")
            elif common.f2hex(float(like(x))) != common.f2hex(float(Lh[j])):
                out.append(f"batch {t + 1} particle {j}: stored logl {float(Lh[j])!r} is not the likelihood of the stored x ({float(like(x))!r})")
            if len(out) >= 3:
                return out, near
    xs, w, l = s.posterior(trim_importance_weights=False)
    lo, hi = np.asarray(prior(np.zeros(d))), np.asarray(prior(np.ones(d)))
    if np.any(xs < lo - 1e-12) or np.any(xs > hi + 1e-12):
        out.append(f"posterior() returned a sample outside the prior support: {xs[np.argmax(np.max(np.abs(xs), axis=1))].tolist()}")
    return out, near


MODE_CELLS = [dict(kernel="tpcn", clustering=False, target="narrow", n=32), dict(kernel="tpcn", clustering=True, target="bimodal", n=48),
              dict(kernel="rwm", clustering=False, target="narrow", n=32), dict(kernel="tpcn", clustering=False, target="plain", n=24)]


def check_modes(cell, seed):
    """every `ModeStatistics` a complete real run builds is internally consistent (C03's ModeOK contract, which the kernel theorems
    assume): the factor the proposals are drawn with and the inverse the Hastings factor / scale draw use belong to the SAME
    covariance — L L^T == Sigma, Sigma^-1 Sigma == I and L^T Sigma^-1 L == I, relative 1e-6 (numerically singular modes,
    cond > 1e8, are skipped: F24 family).  Includes a target whose posterior is 1e4 times narrower than the prior (covariances of
    order 1e-8 in unit-cube coordinates), where an absolute regularisation of one of the two shows."""
    from tempest import Sampler
    import tempest.modes as modes
    d, prior, like = target(cell["target"])
    seen, out = [], []
    orig = modes.ModeStatistics.__init__

    def init(self_, *a, **kw):
        orig(self_, *a, **kw)
        seen.append(self_)
    with common.patched(modes.ModeStatistics, "__init__", init), _quiet(), warnings.catch_warnings():
        warnings.simplefilter("ignore")
        s = Sampler(prior, like, d, n_particles=cell["n"], clustering=cell["clustering"], sample=cell["kernel"], n_steps=1,
                    n_max_steps=2, random_state=seed)
        s.run(n_total=2 * cell["n"], progress=False)
    checked, smallest = 0, np.inf
    for ms in seen:
        for k in range(ms.K):
            S, L, P = np.asarray(ms.covariances[k]), np.asarray(ms.chol_covariances[k]), np.asarray(ms.inv_covariances[k])
            if not np.all(np.isfinite(S)) or np.linalg.cond(S) > 1e8:
                continue
            checked += 1
            smallest = min(smallest, float(np.max(np.abs(S))))
            e1 = float(np.max(np.abs(L @ L.T - S)) / np.max(np.abs(S)))
            e2 = float(np.max(np.abs(P @ S - np.eye(len(S)))))
            e3 = float(np.max(np.abs(L.T @ P @ L - np.eye(len(S)))))
            if max(e1, e2, e3) > 1e-6:
                out.append(f"ModeStatistics #{len(seen)} mode {k}: covariance {S.tolist()}: |L L^T - Sigma|/|Sigma| = {e1:.3g}, "
                           f"|Sigma^-1 Sigma - I| = {e2:.3g}, |L^T Sigma^-1 L - I| = {e3:.3g} (the tpCN proposal is drawn with L, its "
                           f"acceptance ratio and scale draw use Sigma^-1: they must describe one covariance)")
                if len(out) >= 2:
                    return out, checked, smallest
    return out, checked, smallest


def suite_modes(tier):
    c = common.Corr("mode-statistics-consistency-real-runs", "exact oracle on the real code (relative 1e-6; cond > 1e8 skipped)")
    for r in range(1 if tier == "quick" else 5):
        for k, cell in enumerate(MODE_CELLS):
            seed = (common.seed() * 4099 + 1000 * r + 41 * k + 2) % (2 ** 31 - 1)
            try:
                probs, checked, smallest = check_modes(cell, seed)
            except np.linalg.LinAlgError:
                c.count("aborted_singular_mode(F24)")
                continue
            c.case((k, seed), checked > 0)
            c.count("modes_checked", checked)
            c.count("runs_with_covariance_below_1e-7", int(smallest < 1e-7))
            if probs:
                c.disagree(input={"cell": cell, "seed": seed}, impl=probs[0], model="L L^T = Sigma, Sigma^-1 Sigma = I (C03 ModeOK)")
    return c


def check_same_temperature(cell, seed, n_total_factor=4):
    """C01 / C05 / C02 'one temperature per iteration' on the REAL code, model-free: at the moment `Trainer.run` and
    `Resampler.run` are called, the state's (beta, logz, ess) and the weight vector they receive must ALL be the pool's quantities
    at that one beta — recomputed here from the stored history with independent code: w = normalised mixture-importance weights
    at beta, logz = log mean unnormalised weight at beta, ess = 1 / sum w^2.  Checked on EVERY iteration of a complete run,
    including the iteration where beta reaches 1 in one jump and the iterations where the dynamic mode holds beta."""
    from scipy.special import logsumexp
    from tempest import Sampler
    d, prior, like = target(cell["target"])
    n = cell.get("n", 24)
    out, seen = [], {"jump": 0, "hold": 0, "its": 0}
    with _quiet(), warnings.catch_warnings():
        warnings.simplefilter("ignore")
        s = Sampler(prior, like, d, n_particles=n, clustering=cell["clustering"], sample=cell["kernel"], resample=cell["resample"],
                    volume_variation=cell["volume_variation"], ess_ratio=cell.get("ess_ratio", 2.0), periodic=cell["periodic"],
                    n_steps=1, n_max_steps=3, random_state=seed)
        core, st = s._core, s.state
        prev = {"beta": None}

        def observe(who, w):
            T = st.get_history_length()
            if T == 0:
                return
            beta = float(st.get_current("beta"))
            betas = [float(st.get_history("beta", t)) for t in range(T)]
            logzs = [float(st.get_history("logz", t)) for t in range(T)]
            Ls = [np.array(st.get_history("logl", t), dtype=float) for t in range(T)]
            lw = mis_logw(betas, logzs, Ls, beta)
            ref_w = np.exp(lw - logsumexp(lw))
            ref_z = float(logsumexp(lw) - np.log(len(lw)))
            w = np.asarray(w, dtype=float)
            it = int(st.get_current("iter"))
            if len(w) != len(ref_w) or not np.all(np.abs(w / np.sum(w) - ref_w) <= 1e-9 * (ref_w + np.max(ref_w))):
                bad = int(np.argmax(np.abs(w / np.sum(w) - ref_w))) if len(w) == len(ref_w) else -1
                out.append(f"iteration {it}: {who} received weights that are not the pool's weights at the recorded beta = {beta!r} "
                           f"(previous beta {betas[-1]!r}; particle {bad}: {float(w[bad] / np.sum(w)) if bad >= 0 else None!r} vs "
                           f"{float(ref_w[bad]) if bad >= 0 else None!r})")
            if who == "Resampler.run":
                z = float(st.get_current("logz"))
                e = float(st.get_current("ess"))
                if not _rel(z, ref_z):
                    out.append(f"iteration {it}: logz written by the reweighter {z!r} is not the evidence estimate at the recorded "
                               f"beta = {beta!r} over the history available then ({ref_z!r})")
                if abs(e - 1.0 / float(np.sum(ref_w ** 2))) > 1e-7 * (1.0 + e):
                    out.append(f"iteration {it}: recorded ESS {e!r} is not the ESS of the pool's weights at beta = {beta!r} "
                               f"({1.0 / float(np.sum(ref_w ** 2))!r})")
                seen["its"] += 1
                seen["jump"] += int(betas[-1] == 0.0 and beta == 1.0)
                seen["hold"] += int(cell["volume_variation"] is not None and beta == betas[-1] and beta < 1.0)
        o_tr, o_rs = core.trainer.run, core.resampler.run
        core.trainer.run = lambda w: (observe("Trainer.run", np.array(w, dtype=float)), o_tr(w))[1]
        core.resampler.run = lambda w: (observe("Resampler.run", np.array(w, dtype=float)), o_rs(w))[1]
        try:
            s.run(n_total=min(n_total_factor * n, 512), progress=False)
        finally:
            del core.trainer.run, core.resampler.run
    return out[:5], seen


def suite_same_temperature(tier, prop):
    """the oracle above as a suite (real code against an independent recomputation from its own history; no Lean model involved):
    one case per iteration of complete real runs over TEMP_CELLS"""
    c = common.Corr("same-temperature-real-runs", "exact oracle on the real code (1e-9 on recomputed exp/log quantities)")
    reps = 1 if tier == "quick" else 6
    for r in range(reps):
        for k, cell in enumerate(TEMP_CELLS + (TEMP_CELLS_THOROUGH if tier == "thorough" and r == 0 else [])):
            seed = (common.seed() * 7907 + 1000 * r + 31 * k + (11 if prop == "C01" else 12)) % (2 ** 31 - 1)
            try:
                probs, seen = check_same_temperature(cell, seed)
            except np.linalg.LinAlgError:
                c.count("aborted_singular_mode(F24)")
                continue
            for _ in range(max(seen["its"], 1)):
                c.case((k, seed, c.evaluations), True)
            c.count("iterations", seen["its"])
            c.count("iterations_dynamic_mode_holding_beta", seen["hold"])
            c.count("mode_vv" if cell["volume_variation"] is not None else "mode_ess")
            c.count("target_" + cell["target"])
            if probs:
                c.disagree(input={"cell": cell, "seed": seed}, impl=probs[0], model="pool quantities at the recorded beta (C01_X_same_temperature)")
    # the suite is only worth its name if the dynamic mode actually HELD beta somewhere (guards against an emptied cell list)
    if c.stats.get("iterations_dynamic_mode_holding_beta", 0) == 0 or c.stats.get("mode_vv", 0) == 0:
        c.error = "no iteration in which the dynamic mode holds beta was generated: TEMP_CELLS no longer reach the hold branch"
    return c


def suite_records_folded(tier):
    """`check_records` as a suite: one case per stored particle of complete real runs over FOLD_CELLS"""
    c = common.Corr("record-coherence-folded-runs", "exact oracle on the real code (bytes of x = T(u), bits of logl = L(x), u in the cube)")
    for r in range(1 if tier == "quick" else 6):
        for k, cell in enumerate(FOLD_CELLS):
            seed = (common.seed() * 6151 + 1000 * r + 37 * k + 9) % (2 ** 31 - 1)
            try:
                probs, near = check_records(cell, seed)
            except np.linalg.LinAlgError:
                c.count("aborted_singular_mode(F24)")
                continue
            c.case((k, seed), near > 0)
            c.count("stored_points_within_0.02_of_a_folded_face", near)
            c.count(f"{cell['kernel']}:per={cell['periodic']}:refl={cell.get('reflective')}")
            if probs:
                c.disagree(input={"cell": cell, "seed": seed}, impl=probs[0], model="x = prior_transform(u), logl = L(x), u in [0,1]^d (C07)")
    return c


def mis_logw(beta_t, logz_t, logl_batches, beta):
    """unnormalised log-weights of the pool at `beta` — written independently of the code under test (scipy logsumexp)"""
    from scipy.special import logsumexp
    n_t = np.array([len(b) for b in logl_batches], dtype=float)
    l = np.concatenate(logl_batches)
    comp = np.log(n_t / n_t.sum())[None, :] + l[:, None] * np.asarray(beta_t)[None, :] - np.asarray(logz_t)[None, :]
    return beta * l - logsumexp(comp, axis=1)


def _rel(a, b):
    return abs(a - b) <= 1e-9 * (1.0 + max(abs(a), abs(b)))


def check_posterior(cell, seed):
    """-> list of failure descriptions (empty = the contract holds)"""
    from scipy.special import logsumexp
    s, like = run_cell(cell, seed)
    st = s.state
    T = st.get_history_length()
    betas = [float(st.get_history("beta", t)) for t in range(T)]
    logzs = [float(st.get_history("logz", t)) for t in range(T)]
    Ls = [np.array(st.get_history("logl", t), dtype=float) for t in range(T)]
    X = st.get_history("x", flat=True)
    L = np.concatenate(Ls)
    lw = mis_logw(betas, logzs, Ls, 1.0)
    w_ref = np.exp(lw - logsumexp(lw))
    rows = {X[j].tobytes(): j for j in range(len(X))}
    out = []
    for trim, res in ((True, False), (False, False), (True, True), (False, True)):
        with common.patched(np.random, "random", lambda *a: 0.37):
            x, w, l, logw = s.posterior(resample=res, trim_importance_weights=trim, return_logw=True)
        tag = f"posterior(resample={res}, trim_importance_weights={trim})"
        if not (len(x) == len(w) == len(l) == len(logw)):
            out.append(f"{tag}: lengths {len(x)}, {len(w)}, {len(l)}, {len(logw)}")
            continue
        if np.any(w < 0) or abs(float(np.sum(w)) - 1.0) > 1e-12:
            out.append(f"{tag}: weights not a probability vector (sum {float(np.sum(w))!r}, min {float(np.min(w))!r})")
        pos = []
        for j in range(len(x)):
            p = rows.get(np.asarray(x[j]).tobytes())
            if p is None or common.f2hex(float(L[p])) != common.f2hex(float(l[j])):
                out.append(f"{tag}: returned sample {j} is not a stored (x, logl) record")
                break
            if common.f2hex(float(like(x[j]))) != common.f2hex(float(l[j])):
                out.append(f"{tag}: returned logl[{j}] = {float(l[j])!r} is not the likelihood of the returned x ({float(like(x[j]))!r})")
                break
            pos.append(p)
        else:
            if res:
                if not all(_rel(float(v), 1.0 / len(w)) for v in w):
                    out.append(f"{tag}: weights after resampling are not uniform")
            elif not trim:
                if len(w) != len(w_ref) or not all(_rel(float(a), float(b)) for a, b in zip(w, w_ref)):
                    out.append(f"{tag}: weights are not the self-normalised mixture weights at beta = 1 over the whole history")
            # return_logw: the log-weight of the returned row, i.e. of pool particle pos[j] (normalised over the whole pool)
            ref = lw - logsumexp(lw)
            if not all(_rel(float(logw[j]), float(ref[p])) for j, p in enumerate(pos)):
                out.append(f"{tag}: return_logw is not aligned with the returned samples")
    return out


def check_evidence(cell, seed):
    from scipy.special import logsumexp
    s, _like = run_cell(cell, seed)
    st = s.state
    T = st.get_history_length()
    betas = [float(st.get_history("beta", t)) for t in range(T)]
    logzs = [float(st.get_history("logz", t)) for t in range(T)]
    Ls = [np.array(st.get_history("logl", t), dtype=float) for t in range(T)]
    out = []
    z, err = s.evidence()
    lw = mis_logw(betas, logzs, Ls, 1.0)
    ref = float(logsumexp(lw) - np.log(len(lw)))
    if not _rel(float(z), ref):
        out.append(f"evidence() = {float(z)!r} but log mean unnormalised weight at beta = 1 over the final history is {ref!r}")
    if err is not None or common.f2hex(float(z)) != common.f2hex(float(st.get_current("logz"))):
        out.append(f"evidence() = {(z, err)!r} is not (state logz, None)")
    if not 1.0 - betas[-1] < 1e-4:
        out.append(f"run() returned at beta = {betas[-1]!r}")
    for t in range(1, T):
        if betas[t] > 0.0:
            lwt = mis_logw(betas[:t], logzs[:t], Ls[:t], betas[t])
            rt = float(logsumexp(lwt) - np.log(len(lwt)))
            if not _rel(logzs[t], rt):
                out.append(f"iteration {t + 1}: stored logz {logzs[t]!r} is not the evidence estimate at its own beta {betas[t]!r} over the "
                           f"history available then ({rt!r})")
                break
    return out


def check_streams(cell, seed):
    """C02's independence clause on the real code, deterministic part: a seeded run is a function of its seed (same seed twice:
    identical evidence), differently seeded runs use different innovations (different evidence) AND leave the process-wide
    generator in different states (otherwise everything drawn afterwards — e.g. by the next run of a study that seeds once —
    would coincide: the streams have merged)."""
    out = []
    vals, states, batches = [], [], []
    for sd in (seed, seed, seed + 1, seed + 2):
        s, _like = run_cell(cell, sd)
        vals.append(float(s.evidence()[0]))
        st = np.random.get_state()
        states.append((st[1].tobytes(), st[2]))
        batches.append({np.ascontiguousarray(b).tobytes(): t for t, b in enumerate(s.state.get_history("u"))})
    # differently seeded runs never share innovations: no committed batch of one run may reappear, bit for bit, in a run with
    # another seed (e.g. a per-iteration reseed with random_state + iter makes run s at iteration i replay run s+1 at i-1)
    for a, b in ((1, 2), (2, 3), (1, 3)):
        common_b = set(batches[a]) & set(batches[b])
        if common_b:
            k = next(iter(common_b))
            out.append(f"runs with random_state={seed + a - 1} and {seed + b - 1} share {len(common_b)} bit-identical particle batch(es) "
                       f"(iteration {batches[a][k] + 1} of the first is iteration {batches[b][k] + 1} of the second): their innovations "
                       f"are not independent")
            break
    if common.f2hex(vals[0]) != common.f2hex(vals[1]):
        out.append(f"two runs with random_state={seed} reported different evidence: {vals[0]!r}, {vals[1]!r}")
    if common.f2hex(vals[0]) == common.f2hex(vals[2]):
        out.append(f"runs with random_state={seed} and {seed + 1} reported the identical evidence {vals[0]!r}")
    # the library itself never (re)seeds the process-wide generator: with random_state=None no call of np.random.seed may happen
    calls = []
    real_seed = np.random.seed
    with common.patched(np.random, "seed", lambda *a, **k: (calls.append(a), real_seed(*a, **k))[1]):
        from tempest import Sampler
        d, prior, like = target(cell["target"])
        with _quiet(), warnings.catch_warnings():
            warnings.simplefilter("ignore")
            s2 = Sampler(prior, like, d, n_particles=24, clustering=True, sample=cell["kernel"], resample=cell["resample"],
                         n_steps=1, n_max_steps=2)
            try:
                s2.run(n_total=48, progress=False)
            except np.linalg.LinAlgError:
                pass
    if calls:
        out.append(f"run() with random_state=None called np.random.seed{calls[0]!r} ({len(calls)} call(s)): every run in the process "
                   f"continues from a constant stream position")
    if states[0] == states[2]:
        out.append(f"after runs with random_state={seed} and {seed + 1} the global generator is in the SAME state (streams merged)")
    return out


def search(which, tier):
    """failing inputs of the contract on the real code (empty on a correct tree)"""
    found = []
    # 000. (posterior) the proposal factor and the inverse used in the acceptance ratio describe one covariance
    if which == "posterior":
        for k, cell in enumerate(MODE_CELLS):
            seed = (common.seed() * 32452843 + 43 * k + 7) % (2 ** 31 - 1)
            try:
                probs, _c, _s = check_modes(cell, seed)
            except np.linalg.LinAlgError:
                continue
            except Exception as e:  # noqa
                probs = [f"raised {type(e).__name__}: {e}"]
            if probs:
                found.append({"kind": "mode-statistics-inconsistent", "cell": cell, "seed": seed, "what": probs[0], "all": probs[:2],
                              "replay": {"contract": "modes", "cell": cell, "seed": seed}})
        if found:
            return found
    # 00. (posterior) folded coordinates with mass at the face: every stored / returned particle is a coherent record in the support
    if which == "posterior":
        for k, cell in enumerate(FOLD_CELLS):
            seed = (common.seed() * 15485863 + 29 * k + 3) % (2 ** 31 - 1)
            try:
                probs, _near = check_records(cell, seed)
            except np.linalg.LinAlgError:
                continue
            except Exception as e:  # noqa
                probs = [f"raised {type(e).__name__}: {e}"]
            if probs:
                f = {"kind": "record-coherence-folded", "cell": cell, "seed": seed, "what": probs[0], "all": probs[:3],
                     "replay": {"contract": "records", "cell": cell, "seed": seed}}
                found.append(f)
        if found:
            return found
    # 0. one temperature per iteration (weights handed on, logz, ESS) — the rarely taken exits of the reweighter first
    for k, cell in enumerate(TEMP_CELLS):
        seed = (common.seed() * 104729 + 17 * k + 5) % (2 ** 31 - 1)
        try:
            probs, _seen = check_same_temperature(cell, seed)
        except np.linalg.LinAlgError:
            continue
        except Exception as e:  # noqa
            probs = [f"raised {type(e).__name__}: {e}"]
        want = "weights" if which == "posterior" else "logz"
        mine = [p_ for p_ in probs if want in p_ or "raised" in p_] or probs
        if mine:
            found.append({"kind": "same-temperature", "cell": cell, "seed": seed, "what": mine[0], "all": probs[:5],
                          "replay": {"contract": "temperature", "cell": cell, "seed": seed}})
    if found:
        return found
    cells = CELLS if tier == "thorough" else CELLS[:4]
    for k, cell in enumerate(cells):
        seed = (common.seed() * 7919 + 101 * k + 13) % (2 ** 31 - 1)
        try:
            probs = (check_posterior if which == "posterior" else check_evidence)(cell, seed)
            if which == "evidence" and k < 2:
                probs = probs + check_streams(cell, seed)
        except np.linalg.LinAlgError:
            continue
        except Exception as e:  # noqa
            probs = [f"raised {type(e).__name__}: {e}"]
        if probs:
            found.append({"kind": f"{which}-contract", "cell": cell, "seed": seed, "what": probs[0], "all": probs[:5],
                          "replay": {"contract": which, "cell": cell, "seed": seed}})
    return found


def replay(which, cell, seed):
    if which == "modes":
        probs, _c, _s = check_modes(cell, seed)
        return {"fails": bool(probs), "detail": probs[:2]}
    if which == "records":
        probs, _ = check_records(cell, seed)
        return {"fails": bool(probs), "detail": probs[:3]}
    if which == "temperature":
        probs, _ = check_same_temperature(cell, seed)
        return {"fails": bool(probs), "detail": probs[:5]}
    probs = (check_posterior if which == "posterior" else check_evidence)(cell, seed)
    if which == "evidence":
        probs = probs + check_streams(cell, seed)
    return {"fails": bool(probs), "detail": probs[:5]}
