"""C03, clause 15 — `ModeStatistics.__init__` (tempest/modes.py:57-108) against its executable model
(`Model/ModeStatsNum.lean`, driver ops `c03ms.*`), and the exact oracle for the hypothesis H_modes on the real class.

Suite `mode-stats-model` (regime T): the real `ModeStatistics(means, covariances, degrees_of_freedom[, labels])` and the op
`c03ms.F` on the same arrays.  Compared exactly: the outcome class (ok / ValueError / LinAlgError), K, n_dim, the three stored
shapes, the rows and dofs handed to the kernel model (bit patterns), the labels, zeros above the diagonal of every factor.
Compared with a conditioning-scaled tolerance: every entry of `chol_covariances` and `inv_covariances`,
|d| <= 1e-11 * cond_2(Sigma) * max|entries| (forward error of Cholesky / of an SPD inverse is <= c d^2 u cond, u = 1.1e-16,
d <= 5: at least three orders of magnitude of head-room).  Outcome classes near the boundary of positive definiteness
(a pivot below 1e-8 max|Sigma| in absolute value) are counted as near ties, not compared.  Non-finite covariances are NOT
compared (numpy's answer depends on the BLAS build: OpenBLAS `potrf` has no NaN test, `getrf` only flags an exactly zero pivot);
what the real class did is recorded in the histogram only.
"""
import math

import numpy as np

from . import common
from .common import Corr, f2hex, hex2f, flist

SUITE = "mode-stats-model"
REL = 1e-11        # times cond_2
PIV_MARGIN = 1e-8  # relative to max|Sigma|


# ------------------------------------------------------------------ generators
def _spd(rng, d, scale, floor=0.3):
    a = np.array([[rng.gauss(0, 1) for _ in range(d)] for _ in range(d)])
    return (a @ a.T + floor * np.eye(d)) * scale ** 2 / max(d, 1)


def _scale(rng):
    return rng.choice([0.02, 0.05, 0.1, 0.3, 0.5, 1.0, 3.0, 30.0])


def _pivots(a):
    """pivots of the row-by-row factorisation of the lower triangle (float64), up to and including the first non-positive"""
    d = a.shape[0]
    L = np.zeros((d, d))
    piv = []
    for i in range(d):
        for j in range(i):
            L[i, j] = (a[i, j] - float(np.dot(L[i, :j], L[j, :j]))) / L[j, j]
        s = a[i, i] - float(np.dot(L[i, :i], L[i, :i]))
        piv.append(s)
        if not s > 0:
            break
        L[i, i] = math.sqrt(s)
    return piv


def _gj_pivots(a):
    """pivots of Gauss-Jordan without pivoting (what the model's `inv` tests)"""
    m = np.array(a, dtype=float)
    d = m.shape[0]
    piv = []
    for k in range(d):
        p = m[k, k]
        piv.append(p)
        if not p > 0:
            break
        m[k] = m[k] / p
        for i in range(d):
            if i != k:
                m[i] = m[i] - m[i, k] * m[k]
    return piv


def _exact_singular(rng, d):
    """G G^T for an integer lower-triangular G with power-of-two diagonal and ONE zero on it: every operation of the
    factorisation is exact in floating point (also with reciprocal scaling), the failing pivot is exactly 0"""
    g = np.zeros((d, d))
    z = rng.randrange(d)
    for i in range(d):
        for j in range(i):
            g[i, j] = rng.randint(-3, 3)
        g[i, i] = 0.0 if i == z else rng.choice([1.0, 2.0, 4.0])
    return g @ g.T


def _gen_case(rng):
    """-> dict(tag, means, covs, dofs, labels, expect) with numpy inputs exactly as handed to the real class"""
    d = rng.choice([1, 1, 2, 2, 3, 3, 4, 5])
    K = rng.randint(1, 3)
    r = rng.random()
    means = np.array([[rng.uniform(0, 1) for _ in range(d)] for _ in range(K)])
    dofs = np.array([rng.choice([0.3, 1.0, 2.5, 5.0, 30.0, 1e6]) for _ in range(K)])
    covs = np.array([_spd(rng, d, _scale(rng)) for _ in range(K)])
    labels = None
    tag = "spd"
    if r < 0.30:
        q = rng.random()
        if q < 0.3:
            labels = np.array(sorted(rng.sample(range(8), K)))
            tag = "spd+labels"
        elif q < 0.45:
            means, covs, dofs = means.tolist(), covs.tolist(), dofs.tolist()      # nested Python lists through np.asarray
            tag = "spd-pylists"
    elif r < 0.36:
        # ill-conditioned but clearly positive definite
        covs = np.array([_spd(rng, d, _scale(rng), floor=rng.choice([1e-3, 1e-5])) for _ in range(K)])
        tag = "spd-illcond"
    elif r < 0.50:
        # the reshape forms (single mode): any subset of {1-D means, 2-D covariance, scalar dof}
        K = 1
        means, covs, dofs = means[:1], covs[:1], dofs[:1]
        bits = rng.randint(1, 7)
        if bits & 1:
            means = means[0]
        if bits & 2:
            covs = covs[0]
        if bits & 4:
            dofs = np.float64(dofs[0]) if rng.random() < 0.5 else float(dofs[0])
        tag = f"reshape-{bits:03b}"
    elif r < 0.56:
        # reshape rule meets K >= 2 on the other arguments: 1-D means with a (2,d,d) stack etc. -> ValueError
        which = rng.randrange(3)
        K = 2
        means = np.array([[rng.uniform(0, 1) for _ in range(d)] for _ in range(K)])
        covs = np.array([_spd(rng, d, _scale(rng)) for _ in range(K)])
        dofs = np.array([3.0, 5.0])
        if which == 0:
            means = means[0]
        elif which == 1:
            covs = covs[0]
        else:
            dofs = 3.0
        tag = f"reshape-mismatch-{which}"
    elif r < 0.70:
        which = rng.randrange(9)
        if which == 0:
            covs = np.array([_spd(rng, d + 1, 0.3) for _ in range(K)])
        elif which == 1:
            covs = np.array([_spd(rng, d, 0.3) for _ in range(K + 1)])
        elif which == 2:
            dofs = np.array([3.0] * (K + 1))
        elif which == 3:
            means = np.float64(0.5)                                   # 0-d means: cannot unpack
        elif which == 4:
            means = means.reshape(K, d, 1)                            # 3-d means: cannot unpack
        elif which == 5:
            covs = covs.reshape(K, d, d, 1)
        elif which == 6:
            covs = covs.reshape(-1)                                   # 1-D covariance
        elif which == 7:
            dofs = dofs.reshape(K, 1)
        else:
            covs = covs[:, :, : max(d - 1, 0)] if d > 1 else np.zeros((K, 1, 2))    # not square
        tag = f"shape-mismatch-{which}"
    elif r < 0.84:
        which = rng.randrange(5)
        k = rng.randrange(K)
        if which == 0:
            w = np.linalg.eigvalsh(covs[k])
            covs[k] = covs[k] - (w[0] + rng.uniform(0.2, 0.8) * (w[-1] - w[0] + w[0])) * np.eye(d)   # indefinite / negative
        elif which == 1:
            covs[k] = _exact_singular(rng, d)
        elif which == 2:
            covs[k] = -covs[k]
        elif which == 3:
            covs[k] = np.zeros((d, d))
        else:
            j = rng.randrange(d)
            covs[k][j, j] = -abs(covs[k][j, j])
        tag = f"not-pd-{which}"
    elif r < 0.93:
        # asymmetric: the lower triangle is that of an SPD matrix, the strict upper triangle is perturbed (small against the
        # smallest eigenvalue, so that the full matrix still has a positive definite symmetric part: both `inv`s succeed)
        for k in range(K):
            lam = float(np.linalg.eigvalsh(covs[k])[0])
            e = np.triu(np.array([[rng.uniform(-1, 1) for _ in range(d)] for _ in range(d)]), 1)
            nrm = float(np.linalg.norm(e)) or 1.0
            covs[k] = covs[k] + e * (0.05 * lam / nrm)
        tag = "asymmetric"
    elif r < 0.96:
        k = rng.randrange(K)
        i, j = rng.randrange(d), rng.randrange(d)
        covs[k][i, j] = rng.choice([float("nan"), float("inf")])
        if rng.random() < 0.5:
            covs[k][j, i] = covs[k][i, j]
        tag = "non-finite"
    elif r < 0.98:
        if rng.random() < 0.5:
            means, covs, dofs = np.zeros((0, d)), np.zeros((0, d, d)), np.zeros(0)
            tag = "K=0"
        else:
            means, covs, dofs = np.zeros((K, 0)), np.zeros((K, 0, 0)), dofs
            tag = "d=0"
    else:
        # integer input arrays (np.asarray keeps the dtype; inv/cholesky convert)
        K = 1
        g = np.array([[rng.randint(-2, 2) if j < i else (rng.choice([1, 2, 4]) if i == j else 0) for j in range(d)] for i in range(d)])
        means, covs, dofs = np.zeros((1, d), dtype=int), np.array([g @ g.T]), np.array([3])
        tag = "int-dtype"
    return dict(tag=tag, means=means, covs=covs, dofs=dofs, labels=labels)


# ------------------------------------------------------------------ protocol
def _arr(x):
    a = np.asarray(x)
    return a.shape, [float(v) for v in a.reshape(-1)]


def _shape_s(shape):
    return ",".join(str(int(s)) for s in shape) if len(shape) else "-"


def op_line(means, covs, dofs, labels=None):
    ms, md = _arr(means)
    cs, cd = _arr(covs)
    ns, nd = _arr(dofs)
    line = (f"c03ms.F mshape={_shape_s(ms)} mdata={flist(md, f2hex)} cshape={_shape_s(cs)} cdata={flist(cd, f2hex)} "
            f"nshape={_shape_s(ns)} ndata={flist(nd, f2hex)}")
    if labels is not None:
        line += f" labels={flist([int(v) for v in np.asarray(labels).reshape(-1)], str)}"
    return line


def _stack(tok, K, d):
    if tok == "~":
        return np.zeros((0, d, d))
    mats = []
    for part in tok.split("|"):
        vals = common.parse_list(part, hex2f)
        mats.append(np.array(vals, dtype=float).reshape(d, d))
    return np.array(mats).reshape(len(mats), d, d)


def parse_answer(ans):
    if ans in ("ValueError", "LinAlgError", "bad-op"):
        return {"cls": ans}
    t = ans.split(" ")
    if t[0] != "ok" or len(t) != 12:
        return {"cls": "unparsable:" + ans[:80]}
    K, d = int(t[1]), int(t[2])
    sh = lambda s: tuple(int(v) for v in common.parse_list(s, str)) if s != "-" else ()
    mus = [] if t[8] == "-" else [common.parse_list(r, hex2f) for r in t[8].split(";")]
    return {"cls": "ok", "K": K, "d": d, "mshape": sh(t[3]), "cshape": sh(t[4]), "nshape": sh(t[5]),
            "inv": _stack(t[6], K, d), "chol": _stack(t[7], K, d), "mus": mus, "nus": common.parse_list(t[9], hex2f),
            "coherent": t[10] == "1", "labels": None if t[11] == "None" else [int(v) for v in common.parse_list(t[11], str)]}


def real_outcome(case):
    from tempest.modes import ModeStatistics
    try:
        if case["labels"] is None:
            ms = ModeStatistics(case["means"], case["covs"], case["dofs"])
        else:
            ms = ModeStatistics(case["means"], case["covs"], case["dofs"], case["labels"])
    except np.linalg.LinAlgError as ex:          # a subclass of ValueError: test it first
        return {"cls": "LinAlgError", "msg": str(ex)[:80]}
    except ValueError as ex:
        return {"cls": "ValueError", "msg": str(ex)[:80]}
    return {"cls": "ok", "ms": ms}


def _cond(a):
    try:
        c = float(np.linalg.cond(a))
    except np.linalg.LinAlgError:
        return float("inf")
    return c if math.isfinite(c) else float("inf")


def _covs3(case):
    c = np.asarray(case["covs"], dtype=float)
    return c.reshape(1, *c.shape) if c.ndim == 2 else c


def _near_tie(case):
    """is some covariance so close to the boundary of positive definiteness that the outcome CLASS may legitimately differ
    between two floating-point evaluations?"""
    c = _covs3(case)
    if c.ndim != 3 or c.shape[1] != c.shape[2]:
        return False
    for a in c:
        if not np.all(np.isfinite(a)) or a.size == 0:
            continue
        if case["tag"] in ("not-pd-1", "not-pd-3", "int-dtype"):
            continue                  # exact (integer / zero) arithmetic on both sides
        sc = float(np.abs(a).max()) or 1.0
        piv = _pivots(a)
        if any(abs(p) < PIV_MARGIN * sc for p in piv):
            return True
        if all(p > 0 for p in piv):
            if any(abs(p) < PIV_MARGIN * sc for p in _gj_pivots(a)):
                return True
    return False


def compare(c, case, real, model, line):
    """one case; returns None or a description of the mismatch"""
    if model["cls"] not in ("ok", "ValueError", "LinAlgError"):
        return f"model answered {model['cls']}"
    if real["cls"] != model["cls"]:
        return f"outcome class: real {real['cls']} ({real.get('msg', '')}), model {model['cls']}"
    if real["cls"] != "ok":
        return None
    ms = real["ms"]
    bad = []
    if ms.K != model["K"] or ms.n_dim != model["d"]:
        bad.append(f"K/n_dim: real {ms.K},{ms.n_dim} model {model['K']},{model['d']}")
    for name, arr, key in (("means", ms.means, "mshape"), ("covariances", ms.covariances, "cshape"),
                           ("degrees_of_freedom", ms.degrees_of_freedom, "nshape")):
        if tuple(arr.shape) != model[key]:
            bad.append(f"{name}.shape: real {tuple(arr.shape)} model {model[key]}")
    K, d = model["K"], model["d"]
    if tuple(ms.inv_covariances.shape) != (K, d, d) or tuple(ms.chol_covariances.shape) != (K, d, d):
        bad.append(f"derived shapes: real inv {ms.inv_covariances.shape} chol {ms.chol_covariances.shape}, model ({K},{d},{d})")
    if not model["coherent"]:
        bad.append("model: kernel records are not the object's factors in order")
    if bad:
        return "; ".join(bad)
    # data handed to the kernels: exact
    if [f2hex(v) for v in np.asarray(ms.means, dtype=float).reshape(-1)] != [f2hex(v) for r in model["mus"] for v in r]:
        bad.append("means data")
    if [f2hex(v) for v in np.asarray(ms.degrees_of_freedom, dtype=float).reshape(-1)] != [f2hex(v) for v in model["nus"]]:
        bad.append("degrees_of_freedom data")
    rl = None if ms.labels is None else [int(v) for v in np.asarray(ms.labels).reshape(-1)]
    if rl != model["labels"]:
        bad.append(f"labels: real {rl} model {model['labels']}")
    covs = np.asarray(ms.covariances, dtype=float)
    for k in range(K):
        if d == 0:
            continue
        cond = _cond(covs[k])
        Lr, Lm = np.asarray(ms.chol_covariances[k], dtype=float), model["chol"][k]
        Ir, Im = np.asarray(ms.inv_covariances[k], dtype=float), model["inv"][k]
        if np.abs(np.triu(Lr, 1)).max(initial=0.0) != 0.0 or np.abs(np.triu(Lm, 1)).max(initial=0.0) != 0.0:
            bad.append(f"mode {k}: non-zero above the diagonal of the factor (real {np.abs(np.triu(Lr, 1)).max():.3g})")
        tolL = REL * cond * float(np.abs(Lm).max())
        tolI = REL * cond * float(np.abs(Im).max())
        dl = float(np.abs(Lr - Lm).max())
        di = float(np.abs(Ir - Im).max())
        if not dl <= tolL:
            bad.append(f"mode {k}: chol_covariances differ by {dl:.3g} > {tolL:.3g} (cond {cond:.3g})")
        if not di <= tolI:
            bad.append(f"mode {k}: inv_covariances differ by {di:.3g} > {tolI:.3g} (cond {cond:.3g})")
        c.count("cond<1e2" if cond < 1e2 else "cond<1e4" if cond < 1e4 else "cond>=1e4")
    return "; ".join(bad) if bad else None


def _direct_chol(c, rng, drv, n):
    """`np.linalg.cholesky` itself against `c03ms.chol.F` with arbitrary garbage (also NaN) ABOVE the diagonal: the factor
    must not depend on it (C03_chol_reads_lower_only) — checked on numpy and on the model"""
    cases, lines = [], []
    for _ in range(n):
        d = rng.randint(1, 5)
        s = _spd(rng, d, _scale(rng))
        a = np.array(s)
        for i in range(d):
            for j in range(i + 1, d):
                a[i, j] = rng.choice([float("nan"), 1e9, -3.0, rng.gauss(0, 5)])
        cases.append((s, a))
        lines.append("c03ms.chol.F a=" + ";".join(flist(row, f2hex) for row in a))
    for (s, a), ans in zip(cases, drv.batch(lines)):
        c.case([f2hex(v) for v in a.reshape(-1)[:6]], a.shape[0] >= 2)
        c.count("direct-chol-upper-garbage")
        try:
            Lr = np.linalg.cholesky(a)
        except np.linalg.LinAlgError:
            c.disagree(input={"a": a.tolist()}, impl="np.linalg.cholesky raised on a matrix whose lower triangle is SPD", model=ans[:100])
            continue
        if ans == "LinAlgError" or ans == "bad-op":
            c.disagree(input={"a": a.tolist()}, impl="ok", model=ans)
            continue
        Lm = np.array([common.parse_list(r, hex2f) for r in ans.split(";")])
        tol = REL * _cond(s) * float(np.abs(Lm).max())
        if not float(np.abs(Lr - Lm).max()) <= tol or np.abs(np.triu(Lm, 1)).max(initial=0.0) != 0.0:
            c.disagree(input={"a": a.tolist()}, impl=Lr.tolist(), model=Lm.tolist(), what="factor of the lower triangle")


def correspond(tier):
    drv = common.Driver()
    c = Corr(SUITE, "toleranced: outcome class / shapes / K / n_dim / data passed on exact; chol and inv entries "
                    "|d| <= 1e-11 cond_2(Sigma) max|entry|; class near the PD boundary = near tie; non-finite input not compared")
    rng = common.rng_for("C03.modes-model")
    n = 420 if tier == "quick" else 4000
    cases = [_gen_case(rng) for _ in range(n)]
    lines = [op_line(cs["means"], cs["covs"], cs["dofs"], cs["labels"]) for cs in cases]
    answers = drv.batch(lines)
    for cs, line, ans in zip(cases, lines, answers):
        real = real_outcome(cs)
        model = parse_answer(ans)
        c.case([cs["tag"], line[:200]], cs["tag"] not in ("K=0", "d=0"))
        c.count("shape:" + cs["tag"])
        c.count("real:" + real["cls"])
        sh = np.asarray(cs["covs"]).shape
        if len(sh) >= 2:
            c.count(f"d={sh[-1]}")
        if cs["tag"] == "non-finite":
            c.count(f"non-finite: real {real['cls']} / model {model['cls']} (not compared)")
            continue
        if _near_tie(cs):
            c.near_ties += 1
            c.count("near-tie:" + cs["tag"])
            continue
        bad = compare(c, cs, real, model, line)
        if bad:
            c.disagree(input={"means": np.asarray(cs["means"]).tolist(), "covariances": np.asarray(cs["covs"]).tolist(),
                              "degrees_of_freedom": np.asarray(cs["dofs"]).tolist(), "tag": cs["tag"]},
                       impl=real["cls"], model=model["cls"], what=bad, kind="tpcn")
        if real["cls"] == "ok" and cs["tag"].startswith(("spd", "reshape-", "asym")):
            c.sample({"tag": cs["tag"], "op": line[:300], "model": ans[:300],
                      "real_chol": np.asarray(real["ms"].chol_covariances).tolist()})
    _direct_chol(c, rng, drv, 60 if tier == "quick" else 600)
    return [c]


# ------------------------------------------------------------------ the property's own oracle for H_modes on the real class
def h_modes_violation(means, covs, dofs):
    """H_modes on the real class for one VALID input (finite, symmetric positive definite, consistent shapes):
    None, or what is wrong.  Thresholds: the backward error of a Cholesky factorisation is <= (d+1) u |L||L^T| <= 1e-15 max|Sigma|
    (independent of the conditioning) -> 1e-12; inv: |inv Sigma - I| <= c d u cond -> 1e-11 cond.  Cannot fire on a
    correct constructor."""
    from tempest.modes import ModeStatistics
    try:
        ms = ModeStatistics(means, covs, dofs)
    except Exception as ex:  # noqa
        return f"constructor raised {type(ex).__name__}: {ex} on a valid input"
    c3 = _covs3({"covs": covs})
    K, d = c3.shape[0], c3.shape[1]
    if (ms.K, ms.n_dim) != (K, d) or tuple(ms.means.shape) != (K, d) or tuple(ms.covariances.shape) != (K, d, d) \
            or tuple(ms.degrees_of_freedom.shape) != (K,) or tuple(ms.chol_covariances.shape) != (K, d, d) \
            or tuple(ms.inv_covariances.shape) != (K, d, d):
        return (f"shapes: K={ms.K} n_dim={ms.n_dim} means{ms.means.shape} cov{ms.covariances.shape} "
                f"dof{ms.degrees_of_freedom.shape} chol{ms.chol_covariances.shape} inv{ms.inv_covariances.shape}, expected K={K}, d={d}")
    for k in range(K):
        S, L, Si = c3[k], np.asarray(ms.chol_covariances[k]), np.asarray(ms.inv_covariances[k])
        sc = float(np.abs(S).max())
        if np.abs(np.triu(L, 1)).max(initial=0.0) != 0.0:
            return f"mode {k}: chol_covariances is not lower-triangular (the proposal uses chol @ z)"
        if not np.all(np.diag(L) > 0):
            return f"mode {k}: chol_covariances has a non-positive diagonal entry"
        e = float(np.abs(L @ L.T - S).max())
        if not e <= 1e-12 * sc:
            return f"mode {k}: max|chol chol^T - Sigma| = {e:.3g} > {1e-12 * sc:.3g}: the proposal noise chol @ z does not have covariance Sigma"
        e = float(np.abs(Si @ S - np.eye(d)).max())
        if not e <= REL * _cond(S):
            return f"mode {k}: max|inv_cov Sigma - I| = {e:.3g} > {REL * _cond(S):.3g}: the quadratic form is not the Mahalanobis form of Sigma"
    return None


def invalid_accepted(means, covs, dofs):
    """inputs whose shapes do not fit MUST NOT yield an object (theorem C03_init_ok_shape: a constructed object has one d x d
    factor and inverse per mode).  None, or what is wrong."""
    from tempest.modes import ModeStatistics
    try:
        ms = ModeStatistics(means, covs, dofs)
    except (ValueError, np.linalg.LinAlgError):
        return None
    except Exception as ex:  # noqa
        return f"constructor raised {type(ex).__name__} (neither ValueError nor LinAlgError): {ex}"
    K, d = ms.K, ms.n_dim
    got = (tuple(np.shape(ms.chol_covariances)), tuple(np.shape(ms.inv_covariances)), tuple(np.shape(ms.degrees_of_freedom)))
    if got != ((K, d, d), (K, d, d), (K,)):
        return (f"an object with K={K}, n_dim={d} was constructed whose per-mode statistics do not fit: chol{got[0]} inv{got[1]} "
                f"dof{got[2]} (a walker of some mode has no factor / inverse / dof of its own)")
    return None


def _oracle_inputs(tier):
    rng = common.rng_for("C03.modes-oracle")
    out = []
    for i in range(60 if tier == "quick" else 400):
        d = rng.choice([1, 2, 2, 3, 4, 5])
        K = rng.randint(1, 3)
        means = np.array([[rng.uniform(0, 1) for _ in range(d)] for _ in range(K)])
        covs = np.array([_spd(rng, d, _scale(rng)) for _ in range(K)])
        dofs = np.array([rng.choice([1.0, 2.5, 30.0]) for _ in range(K)])
        form = "full"
        if K == 1 and i % 3 == 0:
            means, covs, dofs, form = means[0], covs[0], float(dofs[0]), "reshaped"
        out.append(("valid-" + form, means, covs, dofs))
    for i in range(12):
        d = rng.choice([1, 2, 3])
        K = rng.randint(1, 2)
        means = np.zeros((K, d))
        which = i % 4
        covs = np.array([_spd(rng, d, 0.3) for _ in range(K)])
        dofs = np.full(K, 3.0)
        if which == 0:
            covs = np.array([_spd(rng, d, 0.3) for _ in range(K + 1)])
        elif which == 1:
            dofs = np.full(K + 1, 3.0)
        elif which == 2:
            covs = np.array([_spd(rng, d + 1, 0.3) for _ in range(K)])
        else:
            dofs = np.full((K, 1), 3.0)
        out.append(("invalid", means, covs, dofs))
    return out


def search(tier, hints):
    """exact deterministic oracle: H_modes on the real `ModeStatistics` (the hypothesis of C03_tpcn_interior / C03_dot_nonneg /
    C03_cn_exponent_is_noise_norm that Props/C03Modes.lean proves of the model)"""
    found = []
    for kind, means, covs, dofs in _oracle_inputs(tier):
        bad = h_modes_violation(means, covs, dofs) if kind.startswith("valid") else invalid_accepted(means, covs, dofs)
        if bad:
            found.append({"oracle": "c03ms", "what": "H_modes fails on the real ModeStatistics: " + bad, "case": kind,
                          "means": np.asarray(means).tolist(), "covariances": np.asarray(covs).tolist(),
                          "degrees_of_freedom": np.asarray(dofs).tolist()})
            if len(found) >= 3:
                break
    return found


def replay(f):
    means, covs, dofs = np.array(f["means"]), np.array(f["covariances"]), np.array(f["degrees_of_freedom"])
    bad = h_modes_violation(means, covs, dofs) if f.get("case", "valid").startswith("valid") else invalid_accepted(means, covs, dofs)
    return {"fails": bad is not None, "detail": bad or "H_modes holds on this input"}
