"""C04 — importance weights follow the balance-heuristic mixture formula.

Real code: tempest.state_manager.StateManager.compute_logw_and_logz (also reached through
Sampler.posterior / Sampler.evidence).  Model: lean/TempestVerif/Model/Weights.lean, run at Float.
"""
import contextlib
import io
import math
import warnings
from decimal import Decimal, localcontext, MAX_EMAX, MIN_EMIN

import numpy as np

from . import common
from .common import Corr, f2hex, hex2f, flist, parse_list

ID = "C04"
LEAN_MODULES = ["TempestVerif.Props.C04", "TempestVerif.Props.C04Round", "TempestVerif.Props.C04RoundQ", "TempestVerif.Props.C04Keys",
                "TempestVerif.Props.C04Merge", "TempestVerif.Props.C04Post", "TempestVerif.Props.C04Sites", "TempestVerif.Props.C04Source"]
RULE = ("suite weights-T: generated histories, T in 1..12 iterations (every value), batch sizes n_t in 1..40 (unequal unless T=1 or a deliberate "
        "equal-size case), beta_t unsorted in [0,1] incl. repeated 0 and 1, z_t uniform in +-50 or +-1e5, log-likelihoods at scales 10 / 1e3 / 1e6 "
        "(both signs) with clusters of equal and 1-ulp-apart values, target beta in {0, 1, interior}; 20% of the histories hand integral beta_t / z_t / beta "
        "over as Python ints; each history is committed to a REAL StateManager through set_current + commit_current_to_history and "
        "compute_logw_and_logz(beta, normalize in {False, True}) is compared with the Lean model evaluated at Float, tolerance |d| <= 1e-9*(1+scale), "
        "scale = largest magnitude among the intermediates (|beta*l|, |beta_t*l|, |z_t|, |b|) of that particle (raw weights) or of the whole history "
        "(normalised weights, logz); equal-size histories are additionally read back through compute_results()['logw']; the empty history is matched "
        "structurally (([], -inf) vs ([], none)). Suite degenerate-T (outside the statement, n_t = 0): histories with empty batches and with all batches "
        "empty (Python logz = NaN vs model none). Suite sampler-T: short real Sampler runs, posterior(return_logw=True, trim_importance_weights=False), "
        "evidence() and three further compute_logw_and_logz targets on the live state vs the model on the exported history. "
        "Non-trivial = T >= 2 with unequal batch sizes or distinct beta_t. Second pass: weights-T also draws targets outside [0,1] (negative, > 1), "
        "temperatures repeated at NON-adjacent positions with different z_t / sizes, and magnitudes 1e15 / 1e100 / 1e300. "
        "Suite keys-T: the three per-key history lists (beta, logz, logl arrays) generated INDEPENDENTLY (aligned; one logz for many betas; one beta for "
        "many logz; no beta; no logl array; fewer / more logl arrays than betas; other length mismatches; empty arrays), written into a real StateManager "
        "with update_from_dict, compute_logw_and_logz compared with the key-level Lean model (Model.WeightsKeys.logwK) — value within tolerance, or the SAME "
        "exception class (ValueError / IndexError); non-trivial = lists not aligned. Suite ops-T: random call sequences on one real StateManager "
        "(set_current of beta / logz / logl incl. None, commit_current_to_history, update_from_dict, to_dict/from_dict and save_state/load_state round trips into a new manager, "
        "compute_results, compute_logw_and_logz; every second sequence issues its set_current calls as one update_current) against "
        "Model.WeightsKeys.runOps: every observation (returned arrays, 'logw' missing from the results dictionary, exception) must agree — this is the cache "
        "(_results_dict / _invalidate_cache) and the commit rule (None values skipped key by key); a second family loads ANOTHER history of the SAME shape (same T and batch sizes, or same T and N) into the "
        "same manager — by update_from_dict or by load_state of a checkpoint file — after weights / results were computed; non-trivial = a results() call after a state change "
        "that follows an earlier results() call. Suite nonfinite-T (outside the statement): histories with -inf / +inf / nan / 1e308 entries in logl and "
        "z_t (incl. the all -inf warm-up batch with z = -inf of finding F8, unreachable from the sampler since /repo 959029e) — model at Float vs numpy, NaN and infinities matched structurally. Suite resume-T: "
        "a real Sampler run checkpointed with save_every and RESUMED BY A SAMPLER WITH ANOTHER n_particles (the stored batches then differ in size); "
        "posterior(return_logw=True) in 4 option combinations, evidence() and the live state vs the model on the exported history; rows of trimmed / "
        "resampled calls must be (logl, logw) pairs of the untrimmed arrays. Suite ieee-H: the rounding hypothesis H-IEEE of the finiteness theorems "
        "sampled on this platform's numpy (+, -, * against exact rationals; exp on [-745, 0], log on [1/2, 3] and on integers against 60-digit references).")
MODELLED = ["np.logaddexp is modelled in numpy's max-shifted form with log(1+exp t) for log1p(exp t) and log 2 for the constant LOGE2 "
            "(equal over the reals; float difference <= a few ulp, absorbed by the tolerance; in the rounded-arithmetic theorems log1p(e) lies "
            "inside the range proved for log(rnd(1+e)), so the bounds hold a fortiori but the modelled expression is not the libm call)",
            "np.logaddexp.reduce is modelled as a left fold from the first element",
            "np.exp / np.log / float64 + - * are the ScT operations: exact reals in Props.C04, an arbitrary rounding function obeying the standard "
            "model (|rnd x - x| <= u|x| + eta for |x| <= Omega, unconstrained above) in Props.C04Round, IEEE doubles in the correspondence. That IEEE "
            "binary64 with numpy's libm satisfies that standard model with u = 2^-52 is the residual assumption of the finiteness clause",
            "int -> float conversion of n_t, N (np.log of an int64) is taken to be exact (true below 2^53)",
            "how _history is assembled (set_current / commit_current_to_history / get_history) is not in this model: it is C17's StateMgr model; here "
            "the tie goes through the public API on the real object",
            "histories with non-finite z_t or logL are outside the statement: generated only in suite nonfinite-T (Float model vs numpy, no theorem); "
            "empty batches only in suites degenerate-T / keys-T",
            "key-level model (Model.WeightsKeys): numpy broadcasting of the (T,) beta / mixture-weight arrays against the (Z,) logz array is modelled for "
            "1-D shapes (equal, or one of them 1); zero columns (one beta, no logz) is the value `outside` (numpy: B = -inf by the ufunc identity)",
            "compute_results: np.array(list of arrays) is taken to raise exactly when the arrays differ in length (`ragged`); only the keys beta / logz / "
            "logl are in the model, the other history keys are left empty in suite ops-T",
            "Sampler level (Props.C04Post): the composed model is Model.ClosedLoop (C10) + Model.Posterior (C12); trim_weights / systematic_resample / the "
            "gather tables are C20's / C06's / G5's, tied by those properties' suites; here the tie is resume-T and sampler-T"]
ASSUMPTIONS = ["every committed iteration carries beta, logz and a 1-D logl array (what execute_iteration commits); a commit that leaves logz None "
               "misaligns the per-key lists and is outside the statement",
               "T >= 1 and every n_t >= 1 (hypothesis WF of the theorems = the statement's quantifier)",
               "H-IEEE (finiteness in floating point): IEEE binary64 + - * and numpy's exp / log satisfy |rnd x - x| <= 2^-52 |x| + 2^-1074; sampled every run by "
               "suite ieee-H, not proved",
               "every committed batch stores as many records (u, x) as log-likelihoods (PoolAligned: proved invariant of the composed model, observed by C12's P16)"]

TOL = 1e-9


def translators():
    """G13: the text of compute_logw_and_logz / compute_results, every call site of the weight function, the cache discipline of
    StateManager — regenerated from the source into Gen/WeightSites.lean; Props/C04Sites.lean holds the obligations about them"""
    from translate import g13_wsites
    # G13b (same module): the ARITHMETIC of compute_logw_and_logz / compute_posterior, the tests, the return tree, the literal
    # targets of the call sites compiled to terms over `ScT α` (Gen/WeightSrc.lean); Props/C04Source.lean proves by `rfl` that
    # Model.Weights / Model.WeightsKeys / Model.Posterior(X) unfold to exactly those terms
    return [g13_wsites.generate(), g13_wsites.generate_src()]


# ------------------------------------------------------------------ real code
def _commit(hist, ints=False):
    """hist = [(beta_t, logz_t, [logl...]), ...] -> a real StateManager populated through its public API.
    ints=True hands integral beta_t / logz_t over as Python ints (what `beta = 0` style callers do)."""
    from tempest.state_manager import StateManager
    sm = StateManager(n_dim=1)
    for t, (b, z, ls) in enumerate(hist):
        n = len(ls)
        sm.set_current("u", np.full((n, 1), 0.5))
        sm.set_current("x", np.zeros((n, 1)))
        sm.set_current("logl", np.array(ls, dtype=float))
        sm.set_current("beta", int(b) if ints and float(b).is_integer() else float(b))
        sm.set_current("logz", int(z) if ints and float(z).is_integer() and abs(z) < 2 ** 53 else float(z))
        sm.set_current("iter", t)
        sm.commit_current_to_history()
    return sm


def _impl(hist, beta, normalize, ints=False):
    sm = _commit(hist, ints)
    with warnings.catch_warnings():
        warnings.simplefilter("ignore")
        b = int(beta) if ints and float(beta).is_integer() else float(beta)
        logw, logz = sm.compute_logw_and_logz(b, normalize=bool(normalize))
    return [float(x) for x in np.asarray(logw).ravel()], float(logz)


def _impl_results(hist):
    """compute_results()['logw'] (beta = 1, normalised) on a real StateManager; equal batch sizes only
    (get_history of a ragged key cannot be stacked by numpy)"""
    sm = _commit(hist)
    with warnings.catch_warnings():
        warnings.simplefilter("ignore")
        r = sm.compute_results()
        _, logz = sm.compute_logw_and_logz(1.0)
    return [float(x) for x in np.asarray(r["logw"]).ravel()], float(logz)


# ------------------------------------------------------------------ model (driver) side
def _enc_hist(hist):
    if not hist:
        return "-"
    return ";".join(f"{f2hex(b)}:{f2hex(z)}:{flist(ls, f2hex)}" for b, z, ls in hist)


def _op(hist, beta, normalize):
    return f"logw.F beta={f2hex(beta)} norm={1 if normalize else 0} h={_enc_hist(hist)}"


def _parse_ans(ans):
    toks = ans.split(" ")
    if len(toks) != 2:
        return None
    try:
        w = parse_list(toks[0], hex2f)
        z = None if toks[1] == "none" else hex2f(toks[1])
    except ValueError:
        return None
    return w, z


def _hist_json(hist):
    return [[f2hex(b), f2hex(z), [f2hex(x) for x in ls]] for b, z, ls in hist]


def _hist_from_json(j):
    return [(hex2f(b), hex2f(z), [hex2f(x) for x in ls]) for b, z, ls in j]


def _scales(hist, beta):
    """per-particle magnitude of the intermediates of the statement's formula, and the global maximum"""
    n = [len(ls) for _, _, ls in hist]
    N = sum(n)
    out = []
    for _, _, ls in hist:
        for l in ls:
            s = abs(beta * l)
            for (bt, zt, _), nt in zip(hist, n):
                if nt == 0:
                    continue
                s = max(s, abs(l * bt), abs(zt), abs(l * bt - zt + math.log(nt) - math.log(N)))
            out.append(s)
    return out, (max(out) if out else 0.0)


def _nontrivial(hist):
    return len(hist) >= 2 and (len({len(ls) for _, _, ls in hist}) > 1 or len({b for b, _, _ in hist}) > 1)


# ------------------------------------------------------------------ generators
def _gen_logl(rng, n, scale):
    """n log-likelihoods at the given scale, with clusters of equal / 1-ulp-apart / 1e-9-apart values"""
    style = rng.random()
    centres = [rng.uniform(-scale, scale) for _ in range(rng.randint(1, 4))]
    if rng.random() < 0.3:
        centres.append(rng.choice([scale, -scale]))
    out = []
    for _ in range(n):
        k = rng.random()
        if style < 0.35 or k < 0.3:
            out.append(rng.uniform(-scale, scale))
        else:
            c = rng.choice(centres)
            j = rng.random()
            if j < 0.3:
                out.append(c)
            elif j < 0.55:
                out.append(math.nextafter(c, rng.choice([math.inf, -math.inf])))
            elif j < 0.8:
                out.append(c + rng.uniform(-1, 1) * 1e-9 * max(1.0, abs(c)))
            else:
                out.append(c + rng.gauss(0, 1))
    return out


def _gen_history(rng, max_T=12, max_n=40):
    T = rng.choice([1, 2, 2, 3, 3, 4, 5, 6, 7, 8, 9, 10, 11, 12])
    T = min(T, max_T)
    k = rng.random()
    if k < 0.08:
        sizes = [rng.randint(1, max_n)] * T              # deliberately equal
    else:
        sizes = [rng.randint(1, max_n) for _ in range(T)]
        if rng.random() < 0.3:
            sizes[rng.randrange(T)] = 1
        if T >= 2 and len(set(sizes)) == 1:
            sizes[0] = sizes[0] % max_n + 1
    # temperatures
    k = rng.random()
    if k < 0.1:
        betas = [0.0] * T
    elif k < 0.15:
        betas = [1.0] * T
    else:
        betas = []
        for _ in range(T):
            j = rng.random()
            if j < 0.2:
                betas.append(0.0)
            elif j < 0.4:
                betas.append(1.0)
            elif j < 0.5 and betas:
                betas.append(rng.choice(betas))
            elif j < 0.6:
                betas.append(10.0 ** rng.uniform(-8, -1))
            else:
                betas.append(rng.random())
        if rng.random() < 0.3:
            betas.sort()
        if T >= 3 and rng.random() < 0.25:
            # the same temperature at NON-adjacent positions (seeded change C04c merged equal-beta columns assuming adjacency)
            i = rng.randrange(T - 2)
            j = rng.randrange(i + 2, T)
            betas[j] = betas[i]
            if betas[i + 1] == betas[i]:
                betas[i + 1] = (betas[i] + 0.37) % 1.0
    zmode = rng.random()
    scale = rng.choice([10.0, 10.0, 1e3, 1e6, 1e6])
    if rng.random() < 0.1:
        scale = rng.choice([1e15, 1e100, 1e300])        # "finite log-likelihoods of ANY magnitude"
    hist = []
    for t in range(T):
        if zmode < 0.5:
            z = rng.uniform(-50, 50)
        elif zmode < 0.8:
            z = rng.uniform(-1e5, 1e5) if scale <= 1e6 else rng.uniform(-scale, scale)
        elif zmode < 0.9:
            z = 0.0
        else:
            z = betas[t] * rng.uniform(-scale, scale) / 2 + rng.uniform(-5, 5)   # roughly self-consistent evidences
        hist.append((betas[t], z, _gen_logl(rng, sizes[t], scale)))
    j = rng.random()
    beta = 0.0 if j < 0.25 else 1.0 if j < 0.6 else rng.random() if j < 0.9 else rng.choice(betas)
    if rng.random() < 0.06 and scale <= 1e6:
        beta = rng.choice([-1.0, -0.25, 1.5, 2.0, 7.0])      # requested temperature outside [0, 1]
    return hist, beta


# ------------------------------------------------------------------ correspondence
def _compare(c, hist, beta, normalize, impl, ans, extra=None):
    """compare one evaluation; returns True when it agrees"""
    iw, iz = impl
    parsed = _parse_ans(ans)
    info = dict(hist=_hist_json(hist), beta=beta, beta_hex=f2hex(beta), normalize=bool(normalize), **(extra or {}))
    if parsed is None:
        c.disagree(impl=[[f2hex(x) for x in iw], repr(iz)], model=ans, **info)
        return False
    mw, mz = parsed
    if not hist:
        ok = (len(iw) == 0 and iz == -math.inf and mw == [] and mz is None)
        if not ok:
            c.disagree(impl=[[f2hex(x) for x in iw], repr(iz)], model=ans, **info)
        return ok
    if sum(len(ls) for _, _, ls in hist) == 0:
        # every stored batch empty: Python gives (array([]), nan) [-inf - (-inf)], the model ([], none)
        ok = (len(iw) == 0 and math.isnan(iz) and mw == [] and mz is None)
        if not ok:
            c.disagree(impl=[[f2hex(x) for x in iw], repr(iz)], model=ans, **info)
        return ok
    per, glob = _scales(hist, beta)
    if len(mw) != len(iw) or mz is None:
        c.disagree(impl=[len(iw), repr(iz)], model=[len(mw), repr(mz)], **info)
        return False
    worst = None
    for s, (a, b) in enumerate(zip(iw, mw)):
        sc = glob if normalize else per[s]
        if not (math.isfinite(a) and math.isfinite(b) and abs(a - b) <= TOL * (1 + sc)):
            worst = ("logw", s, a, b, sc)
            break
    if worst is None and not (math.isfinite(iz) and math.isfinite(mz) and abs(iz - mz) <= TOL * (1 + glob)):
        worst = ("logz", -1, iz, mz, glob)
    if worst is not None:
        c.disagree(what=f"{worst[0]}[{worst[1]}]: impl {worst[2]!r} model {worst[3]!r} scale {worst[4]:.3g}",
                   impl=[repr(worst[2])], model=[repr(worst[3])], **info)
        return False
    return True


def _corr_generated(tier, drv):
    n = 900 if tier == "quick" else 20000
    rng = common.rng_for("C04.gen")
    c = Corr("weights-T", "toleranced Float (1e-9*(1+scale))")
    lines, cases = [], []
    # the empty history
    for nrm in (False, True):
        lines.append(_op([], 1.0, nrm))
        cases.append(([], 1.0, nrm, _impl([], 1.0, nrm)))
        c.case(("empty", nrm), False)
        c.count("empty_history")
    for _ in range(n):
        hist, beta = _gen_history(rng)
        nt = _nontrivial(hist)
        sizes = [len(ls) for _, _, ls in hist]
        ints = rng.random() < 0.2
        for nrm in (False, True):
            lines.append(_op(hist, beta, nrm))
            cases.append((hist, beta, nrm, _impl(hist, beta, nrm, ints)))
            c.count("evaluations_normalize" if nrm else "evaluations_raw")
        if ints:
            c.count("integral_values_passed_as_int")
        if len(set(sizes)) == 1:
            # the cached-results path: compute_results()["logw"] is the beta=1 normalised weight array
            lines.append(_op(hist, 1.0, True))
            cases.append((hist, 1.0, True, _impl_results(hist)))
            c.count("evaluations_via_compute_results")
        c.case((_hist_json(hist), f2hex(beta)), nt)
        c.count(f"T={len(hist)}")
        c.count("N<=20" if sum(sizes) <= 20 else "N<=100" if sum(sizes) <= 100 else "N>100")
        c.count("sizes_unequal" if len(set(sizes)) > 1 else "sizes_equal")
        c.count("betas_distinct" if len({b for b, _, _ in hist}) > 1 else "betas_all_equal")
        c.count("beta=0" if beta == 0 else "beta=1" if beta == 1 else "beta_interior" if 0 < beta < 1 else "beta_outside_[0,1]")
        bl = [b for b, _, _ in hist]
        if any(bl[i] == bl[j] and any(bl[k] != bl[i] for k in range(i + 1, j)) for i in range(len(bl)) for j in range(i + 2, len(bl))):
            c.count("equal_betas_non_adjacent")
        mx = max(abs(x) for _, _, ls in hist for x in ls)
        c.count("|logl|>1e14" if mx > 1e14 else "|logl|>1e5" if mx > 1e5 else "|logl|>100" if mx > 100 else "|logl|<=100")
        c.count("|z|>1e3" if max(abs(z) for _, z, _ in hist) > 1e3 else "|z|<=1e3")
    res = drv.batch(lines)
    for (hist, beta, nrm, impl), line, ans in zip(cases, lines, res):
        _compare(c, hist, beta, nrm, impl, ans)
        if hist and len(hist) <= 3 and sum(len(ls) for _, _, ls in hist) <= 5:
            c.sample({"history(beta_t,logz_t,logl)": [[b, z, ls] for b, z, ls in hist], "beta": beta, "normalize": nrm,
                      "impl_logw": impl[0], "impl_logz": impl[1], "model": ans})
    return c


def _corr_degenerate(tier, drv):
    """outside the statement (n_t >= 1), but the model claims to mirror the code there too: histories with empty
    batches (weight-zero components via log 0 = -inf) and histories whose batches are all empty (logz = NaN)"""
    n = 80 if tier == "quick" else 1500
    rng = common.rng_for("C04.degenerate")
    c = Corr("degenerate-T", "toleranced Float (1e-9*(1+scale)); NaN/-inf evidence matched structurally")
    lines, cases = [], []
    for i in range(n):
        hist, beta = _gen_history(rng, max_T=6, max_n=8)
        hist = [list(b) for b in hist]
        if i % 8 == 0:
            for b in hist:
                b[2] = []
            c.count("all_batches_empty")
        else:
            k = rng.randrange(len(hist) + 1)
            hist.insert(k, [rng.random(), rng.uniform(-5, 5), []])
            if rng.random() < 0.3:
                hist.insert(rng.randrange(len(hist) + 1), [0.0, 0.0, []])
            c.count("first_batch_empty" if not hist[0][2] else "inner_batch_empty")
        hist = [tuple(b) for b in hist]
        for nrm in (False, True):
            lines.append(_op(hist, beta, nrm))
            cases.append((hist, beta, nrm, _impl(hist, beta, nrm)))
        c.case((_hist_json(hist), f2hex(beta)), False)
    res = drv.batch(lines)
    for (hist, beta, nrm, impl), ans in zip(cases, res):
        _compare(c, hist, beta, nrm, impl, ans)
        c.count("evaluations")
    return c


def _quiet():
    return contextlib.redirect_stdout(io.StringIO())


def _sampler_runs(tier):
    from .witnesses import _mk_sampler
    specs = [dict(seed=2, n_dim=2, n_particles=32, n_total=128, off=0.0),
             dict(seed=5, n_dim=1, n_particles=16, n_total=64, off=1000.0),
             dict(seed=7, n_dim=3, n_particles=24, n_total=96, off=-250000.0),
             dict(seed=11, n_dim=2, n_particles=20, n_total=60, off=37.5)]
    if tier != "quick":
        specs += [dict(seed=100 + i, n_dim=1 + i % 3, n_particles=16 + 8 * (i % 4), n_total=64 + 32 * (i % 3),
                       off=[0.0, 1e4, -1e6, 3.0][i % 4]) for i in range(20)]
    for sp in specs:
        off = sp["off"]

        def like(x, off=off):
            return off - 0.5 * float(np.sum(x ** 2))
        with _quiet(), warnings.catch_warnings():
            warnings.simplefilter("ignore")
            np.random.seed(sp["seed"])
            s = _mk_sampler(clustering=False, n_dim=sp["n_dim"], n_particles=sp["n_particles"], log_likelihood=like)
            s.run(n_total=sp["n_total"], progress=False)
            out = s.posterior(return_logw=True, trim_importance_weights=False)
            ev = s.evidence()
        st = s.state
        T = st.get_history_length()
        betas = [float(b) for b in np.asarray(st.get_history("beta")).ravel()]
        zs = [float(z) for z in np.asarray(st.get_history("logz")).ravel()]
        hist = [(betas[t], zs[t], [float(x) for x in st.get_history("logl", index=t)]) for t in range(T)]
        yield sp, s, hist, [float(x) for x in out[-1]], float(ev[0]), [float(x) for x in out[2]]


def _corr_sampler(tier, drv):
    c = Corr("sampler-T", "toleranced Float (1e-9*(1+scale))")
    lines, cases = [], []
    try:
        for sp, s, hist, logw, logz, logl in _sampler_runs(tier):
            flat = [x for _, _, ls in hist for x in ls]
            if flat != logl:
                c.disagree(what="posterior() logl is not the flat stored history", spec=sp)
            # posterior()/evidence() of the finished run: beta = 1, normalised
            lines.append(_op(hist, 1.0, True))
            cases.append((hist, 1.0, True, (logw, logz), {"via": "Sampler.posterior/evidence", "spec": sp}))
            # the reweighting step's view: other targets on the same real state object
            for beta, nrm in ((0.0, True), (0.5, False), (hist[len(hist) // 2][0], True)):
                with warnings.catch_warnings():
                    warnings.simplefilter("ignore")
                    w, z = s.state.compute_logw_and_logz(beta, normalize=nrm)
                lines.append(_op(hist, beta, nrm))
                cases.append((hist, beta, nrm, ([float(x) for x in w], float(z)), {"via": "sampler.state", "spec": sp}))
            c.case((_hist_json(hist),), _nontrivial(hist))
            c.count(f"T={len(hist)}")
            c.count("runs")
    except Exception as e:  # the sampler itself failing is not this property's business
        c.error = f"real Sampler run failed: {type(e).__name__}: {e}"
        return c
    res = drv.batch(lines)
    for (hist, beta, nrm, impl, extra), ans in zip(cases, res):
        _compare(c, hist, beta, nrm, impl, ans, extra={"via": extra["via"]})
        c.count("evaluations")
    if cases:
        hist, beta, nrm, impl, extra = cases[0]
        c.sample({"spec": extra["spec"], "T": len(hist), "betas": [b for b, _, _ in hist], "logz_t": [z for _, z, _ in hist],
                  "evidence()": impl[1], "model": res[0].split(" ")[-1], "model_logz": hex2f(res[0].split(" ")[-1])})
    return c


# ------------------------------------------------------------------ second pass: key-level lists, call sequences, non-finite values
def _enc_list(xs):
    return flist(xs, f2hex)


def _enc_arrays(ls):
    return "~" if not ls else "/".join(_enc_list(a) for a in ls)


def _sm_from_keys(kb, kz, kl):
    from tempest.state_manager import StateManager
    sm = StateManager(n_dim=1)
    sm.update_from_dict({"_history": {"beta": list(kb), "logz": list(kz), "logl": [np.array(a, dtype=float) for a in kl]}})
    return sm


def _call_logw(sm, beta, nrm):
    """-> ('ok', logw list, logz) or (exception class name,)"""
    with warnings.catch_warnings():
        warnings.simplefilter("ignore")
        try:
            w, z = sm.compute_logw_and_logz(float(beta), normalize=bool(nrm))
        except (ValueError, IndexError) as e:
            return (type(e).__name__,)
    return ("ok", [float(x) for x in np.asarray(w).ravel()], float(z))


def _same_num(a, b, tol):
    if math.isnan(a) or math.isnan(b):
        return math.isnan(a) and math.isnan(b)
    if math.isinf(a) or math.isinf(b):
        return a == b
    return abs(a - b) <= tol


def _match_out(impl, ans, sep, tol, allow_nonfinite=False):
    """impl = result of _call_logw; ans = the model's answer string (fields separated by `sep`)"""
    if ans in ("ValueError", "IndexError"):
        return impl == (ans,)
    if ans == "outside":
        # zero mixture columns: numpy reduces over an empty axis to -inf, so every log-weight is +inf
        # (normalised: inf - inf = NaN)
        return impl[0] == "ok" and all(x == math.inf or math.isnan(x) for x in impl[1])
    toks = ans.split(sep)
    if len(toks) != 3 or toks[0] != "ok" or impl[0] != "ok":
        return False
    try:
        mw = parse_list(toks[1], hex2f)
        mz = None if toks[2] == "none" else hex2f(toks[2])
    except ValueError:
        return False
    iw, iz = impl[1], impl[2]
    if len(mw) != len(iw):
        return False
    if mz is None:
        # Python: -inf for no stored beta, NaN when no particle is stored
        if not (iz == -math.inf or math.isnan(iz)):
            return False
    elif allow_nonfinite:
        if not _same_num(iz, mz, tol):
            return False
    elif not (math.isfinite(iz) and math.isfinite(mz) and abs(iz - mz) <= tol):
        return False
    for a, b in zip(iw, mw):
        if allow_nonfinite:
            if not _same_num(a, b, tol):
                return False
        elif not (math.isfinite(a) and math.isfinite(b) and abs(a - b) <= tol):
            return False
    return True


def _keys_scale(kb, kz, kl, beta):
    m = 1.0
    for a in kl:
        for l in a:
            m = max(m, abs(beta * l))
            for b in kb:
                m = max(m, abs(b * l))
    for z in kz:
        m = max(m, abs(z))
    return m + math.log(1 + sum(len(a) for a in kl))


def _gen_keys(rng):
    """three per-key lists, generated independently; returns (kind, kb, kz, kl)"""
    hist, beta = _gen_history(rng, max_T=5, max_n=6)
    # magnitudes clipped to the statement's range: the huge scales are weights-T's business
    hist = [(b, max(-1e5, min(1e5, z)), [max(-1e6, min(1e6, l)) for l in ls]) for b, z, ls in hist]
    kb = [b for b, _, _ in hist]
    kz = [z for _, z, _ in hist]
    kl = [ls for _, _, ls in hist]
    T = len(kb)
    kind = rng.choice(["aligned", "aligned", "one_logz", "one_beta", "no_beta", "no_logl", "fewer_logl", "more_logl",
                       "logz_mismatch", "no_logz", "empty_arrays", "first_arrays_empty"])
    if kind == "one_logz":
        kz = kz[:1]
    elif kind == "one_beta":
        kb, kl = kb[:1], kl[:1]
        kz = kz + [rng.uniform(-5, 5) for _ in range(rng.randint(0, 3))]
    elif kind == "no_beta":
        kb = []
        if rng.random() < 0.5:
            kz = []
        if rng.random() < 0.3:
            kl = []
    elif kind == "no_logl":
        kl = []
    elif kind == "fewer_logl":
        kl = kl[:rng.randrange(T)] if T > 1 else []
    elif kind == "more_logl":
        kl = kl + [_gen_logl(rng, rng.randint(1, 4), 10.0) for _ in range(rng.randint(1, 2))]
    elif kind == "logz_mismatch":
        k = rng.choice([n for n in range(0, T + 3) if n != T])
        kz = (kz + [rng.uniform(-5, 5) for _ in range(3)])[:k]
    elif kind == "no_logz":
        kz = []
    elif kind == "empty_arrays":
        kl = [[] for _ in kl]
    elif kind == "first_arrays_empty":
        kl = [[] for _ in kl] + [_gen_logl(rng, rng.randint(1, 3), 10.0)]
    return kind, kb, kz, kl, beta


def _corr_keys(tier, drv):
    n = 700 if tier == "quick" else 15000
    rng = common.rng_for("C04.keys")
    c = Corr("keys-T", "toleranced Float (1e-9*(1+scale)); exception classes and non-finite values matched exactly")
    lines, cases = [], []
    for _ in range(n):
        kind, kb, kz, kl, beta = _gen_keys(rng)
        sm = _sm_from_keys(kb, kz, kl)
        for nrm in (False, True):
            lines.append(f"c04k.F beta={f2hex(beta)} norm={1 if nrm else 0} kb={_enc_list(kb)} kz={_enc_list(kz)} kl={_enc_arrays(kl)}")
            cases.append((kind, kb, kz, kl, beta, nrm, _call_logw(sm, beta, nrm)))
        aligned = len(kb) == len(kz) == len(kl)
        c.case(([f2hex(x) for x in kb], [f2hex(x) for x in kz], [[f2hex(x) for x in a] for a in kl], f2hex(beta)), not aligned)
        c.count(f"kind={kind}")
        c.count(f"lengths(T,Z,K)={'aligned' if aligned else 'T=Z' if len(kb) == len(kz) else 'Z=1' if len(kz) == 1 else 'T=1' if len(kb) == 1 else 'other'}")
    res = drv.batch(lines)
    for (kind, kb, kz, kl, beta, nrm, impl), ans in zip(cases, res):
        tol = TOL * (1 + _keys_scale(kb, kz, kl, beta))
        c.count("model=" + (ans.split(" ")[0] if ans else "?"))
        # all stored arrays counted empty => log(0) - log(0): NaN columns; matched structurally
        if not _match_out(impl, ans, " ", tol, allow_nonfinite=True):
            c.disagree(kind=kind, beta=beta, normalize=nrm, keys={"beta": kb, "logz": kz, "logl": kl},
                       impl=[impl[0]] + ([repr(impl[2]), impl[1][:6]] if impl[0] == "ok" else []), model=ans[:200])
        if len(kb) <= 2 and sum(len(a) for a in kl) <= 4 and kind not in ("aligned",):
            c.sample({"kind": kind, "beta_list": kb, "logz_list": kz, "logl_arrays": kl, "beta": beta, "normalize": nrm,
                      "impl": impl[0] if impl[0] != "ok" else {"logw": impl[1], "logz": repr(impl[2])}, "model": ans[:120]})
    return c


def _load_keys(sm, kb, kz, kl, how):
    """replace the three history lists of the manager `sm` IN PLACE: through update_from_dict, or through a checkpoint file
    written by another manager and read with load_state (the current values in the file are sm's own, so only the history changes)"""
    import os
    import shutil
    import tempfile
    from tempest.state_manager import StateManager
    hist = {"beta": list(kb), "logz": list(kz), "logl": [np.array(a, dtype=float) for a in kl]}
    if how == "update_from_dict":
        sm.update_from_dict({"_history": hist})
        return
    other = StateManager(n_dim=1)
    other.update_from_dict({"_history": hist, "_current": sm.to_dict()["_current"]})
    d = tempfile.mkdtemp(prefix="tv04l_")
    try:
        with _quiet():
            other.save_state(os.path.join(d, "o.state"))
            sm.load_state(os.path.join(d, "o.state"))
    finally:
        shutil.rmtree(d, ignore_errors=True)


def _same_shape_history(rng, hist):
    """another history with the same number of iterations and the same batch sizes: other beta_t, z_t, log-likelihoods"""
    return [(rng.choice([0.0, 1.0, rng.random()]), rng.uniform(-5, 5), [rng.uniform(-10, 10) for _ in ls]) for _, _, ls in hist]


def _gen_replace_ops(rng):
    """weights / results computed, then ANOTHER history of the SAME shape (or the same total size with other batch sizes) loaded into
    the same manager, then computed again — a memo keyed on the shape of the history must not survive the replacement"""
    T = rng.randint(1, 4)
    n = rng.randint(1, 4)
    sizes = [n] * T if rng.random() < 0.6 else [rng.randint(1, 4) for _ in range(T)]
    h1 = [(rng.choice([0.0, 1.0, rng.random()]), rng.uniform(-5, 5), [rng.uniform(-10, 10) for _ in range(k)]) for k in sizes]
    ops = []
    for b, z, ls in h1:
        ops += [("sb", b), ("sz", z), ("sl", ls), ("c", None)]
    cur = h1
    for _ in range(rng.randint(1, 3)):
        ops.append(rng.choice([("w", (rng.choice([0.0, 1.0, rng.random()]), rng.random() < 0.5)), ("r", None)]))
        if rng.random() < 0.3:
            ops.append(("w", (rng.random(), False)))
        nxt = _same_shape_history(rng, cur)
        if rng.random() < 0.25 and len(nxt) >= 2 and len(nxt[0][2]) >= 2:
            # same T and same total N, other split
            nxt[-1] = (nxt[-1][0], nxt[-1][1], nxt[-1][2] + [nxt[0][2][-1]])
            nxt[0] = (nxt[0][0], nxt[0][1], nxt[0][2][:-1])
        ops.append(("u", ([b for b, _, _ in nxt], [z for _, z, _ in nxt], [ls for _, _, ls in nxt],
                          rng.choice(["update_from_dict", "load_state", "load_state"]))))
        cur = nxt
        ops.append(("w", (rng.choice([0.0, 1.0, rng.random()]), rng.random() < 0.5)))
        if rng.random() < 0.5:
            ops.append(("r", None))
    return ops


def _gen_ops(rng):
    """a call sequence: list of (token for the model, python thunk description)"""
    ops = []
    n = rng.randint(5, 28)
    size_pool = [rng.randint(1, 4)]
    if rng.random() < 0.45:
        size_pool.append(rng.randint(1, 4))       # ragged histories: compute_results raises
    for _ in range(n):
        k = rng.random()
        if k < 0.42:
            # one (possibly incomplete) iteration
            b = None if rng.random() < 0.08 else rng.choice([0.0, 1.0, rng.random()])
            z = None if rng.random() < 0.12 else rng.uniform(-5, 5)
            ls = None if rng.random() < 0.08 else [rng.uniform(-10, 10) for _ in range(rng.choice(size_pool))]
            sets = [("sb", b), ("sz", z), ("sl", ls)]
            rng.shuffle(sets)
            if rng.random() < 0.2:
                sets = sets[:rng.randint(0, 2)]      # leave the other current values as they are
            ops += sets
            ops.append(("c", None))
        elif k < 0.62:
            ops.append(("r", None))
        elif k < 0.80:
            ops.append(("w", (rng.choice([0.0, 1.0, rng.random()]), rng.random() < 0.5)))
        elif k < 0.88:
            ops.append(("c", None))                 # a commit without touching the current values
        elif k < 0.92:
            _, kb, kz, kl, _ = _gen_keys(rng)
            ops.append(("u", (kb, kz, kl, rng.choice(["update_from_dict", "load_state"]))))
        elif k < 0.96:
            ops.append(("x", rng.choice(["dict", "file"])))     # to_dict/from_dict or save_state/load_state into a NEW manager
        else:
            ops.append(("sl", [rng.uniform(-3, 3) for _ in range(rng.choice(size_pool))]))   # set_current alone must drop the cache
    if not any(o[0] == "r" for o in ops):
        ops.append(("r", None))
    return ops


def _enc_op(op):
    k, v = op
    if k in ("c", "r"):
        return k
    if k == "x":
        return "x"
    if k in ("sb", "sz"):
        return f"{k}:{'N' if v is None else f2hex(v)}"
    if k == "sl":
        return f"sl:{'N' if v is None else _enc_list(v)}"
    if k == "w":
        return f"w:{f2hex(v[0])}:{1 if v[1] else 0}"
    if k == "u":
        return f"u:{_enc_list(v[0])}|{_enc_list(v[1])}|{_enc_arrays(v[2])}"
    raise ValueError(k)


def _run_ops_real(ops, use_update=False):
    """apply the call sequence to a real StateManager (replaced by its copy at a round trip); returns the observations.
    use_update: consecutive set_current calls are issued as ONE update_current({...}) call (what the sampler's steps do)"""
    import os
    import tempfile
    from tempest.state_manager import StateManager
    sm = StateManager(n_dim=1)
    obs = []
    pending = {}

    def flush():
        if pending:
            sm.update_current(dict(pending))
            pending.clear()
    for k, v in ops:
        if k in ("sb", "sz", "sl"):
            key = {"sb": "beta", "sz": "logz", "sl": "logl"}[k]
            val = (None if v is None else np.array(v, dtype=float)) if k == "sl" else v
            if use_update:
                pending[key] = val
            else:
                sm.set_current(key, val)
            continue
        flush()
        if k == "c":
            sm.commit_current_to_history()
        elif k == "u":
            _load_keys(sm, v[0], v[1], v[2], v[3] if len(v) > 3 else "update_from_dict")
        elif k == "x":
            if v == "dict":
                sm = StateManager.from_dict(sm.to_dict())
            else:
                d = tempfile.mkdtemp(prefix="tv04s_")
                try:
                    with _quiet():
                        sm.save_state(os.path.join(d, "s.state"))
                        sm2 = StateManager(n_dim=1)
                        sm2.load_state(os.path.join(d, "s.state"))
                    sm = sm2
                finally:
                    import shutil
                    shutil.rmtree(d, ignore_errors=True)
        elif k == "w":
            obs.append(("W", _call_logw(sm, v[0], v[1])))
        elif k == "r":
            with warnings.catch_warnings():
                warnings.simplefilter("ignore")
                try:
                    r = sm.compute_results()
                except (ValueError, IndexError) as e:
                    obs.append(("R", "raised", type(e).__name__))
                    continue
            if "logw" not in r:
                obs.append(("R", "nologw", sorted(r.keys())))
            else:
                obs.append(("R", [float(x) for x in np.asarray(r["logw"]).ravel()]))
    return obs


def _corr_ops(tier, drv):
    n = 350 if tier == "quick" else 8000
    rng = common.rng_for("C04.ops")
    c = Corr("ops-T", "toleranced Float (1e-9*(1+scale)); which call raises / returns what matched exactly")
    seqs = [_gen_ops(rng) for _ in range(n)]
    n_rep = 120 if tier == "quick" else 3000
    seqs += [_gen_replace_ops(rng) for _ in range(n_rep)]
    # the finding's call sequence (two batches of different size, results() twice) and its repaired-world twin are ordinary cases
    seqs.append([("sb", 0.0), ("sz", 0.0), ("sl", [0.0]), ("c", None), ("sb", 1.0), ("sl", [0.0, 0.0]), ("c", None), ("r", None), ("r", None),
                 ("w", (1.0, True))])
    lines = ["c04ops.F ops=" + ";".join(_enc_op(o) for o in ops) for ops in seqs]
    res = drv.batch(lines)
    for i, (ops, ans) in enumerate(zip(seqs, res)):
        real = _run_ops_real(ops, use_update=(i % 2 == 1))
        c.count("set_via_update_current" if i % 2 == 1 else "set_via_set_current")
        model = [] if ans == "-" else ans.split(";")
        kinds = [o[0] for o in ops]
        first_r = kinds.index("r") if "r" in kinds else len(kinds)
        nontriv = any(k == "r" for k in kinds[first_r + 1:]) and any(k in ("c", "u", "x", "sb", "sz", "sl") for k in kinds[first_r + 1:])
        c.case([_enc_op(o) for o in ops], nontriv)
        c.count("results_calls", kinds.count("r"))
        c.count("weights_calls", kinds.count("w"))
        c.count("commits", kinds.count("c"))
        c.count("loads", kinds.count("u"))
        c.count("loads_via_load_state_file", sum(1 for o in ops if o[0] == "u" and len(o[1]) > 3 and o[1][3] == "load_state"))
        if n <= i < n + n_rep:
            c.count("same_shape_replacement_sequences")
        c.count("round_trips(to_dict/from_dict, save_state/load_state)", kinds.count("x"))
        ok = len(real) == len(model)
        why = "number of observations"
        if ok:
            for ob, m in zip(real, model):
                if ob[0] == "R":
                    if ob[1] == "raised":
                        good = m == "R:raised"
                        c.count("results_raised")
                    elif ob[1] == "nologw":
                        good = m == "R:nologw"
                        c.count("results_without_logw(finding)")
                    elif m == "R:outside":
                        c.count("results_outside")
                        good = all(math.isnan(x) for x in ob[1])
                    else:
                        c.count("results_with_logw")
                        good = m.startswith("R:") and m not in ("R:raised", "R:nologw")
                        if good:
                            try:
                                mw = parse_list(m[2:], hex2f)
                            except ValueError:
                                mw = None
                            good = mw is not None and len(mw) == len(ob[1]) and all(_same_num(a, b, TOL * 50) for a, b in zip(ob[1], mw))
                else:
                    good = m.startswith("W:") and _match_out(ob[1], m[2:], "_", TOL * 50, allow_nonfinite=True)
                    c.count("weights_" + ob[1][0])
                if not good:
                    ok = False
                    why = f"observation {ob[:2]!r} vs model {m[:80]!r}"
                    break
        if not ok:
            c.disagree(what=why, ops=[_enc_op(o) for o in ops][:40], impl=[(o[0], o[1] if isinstance(o[1], str) else "values") for o in real][:12],
                       model=[m[:24] for m in model][:12])
        if len(ops) <= 9:
            c.sample({"ops": [(k, v) for k, v in ops], "real": [o[:2] for o in real], "model": [m[:60] for m in model]})
    return c


def _corr_nonfinite(tier, drv):
    n = 400 if tier == "quick" else 10000
    rng = common.rng_for("C04.nonfinite")
    c = Corr("nonfinite-T", "Float model vs numpy; NaN / +-inf matched structurally, finite values within 1e-9*(1+|value|)")
    inf, nan = math.inf, math.nan
    specials = [-inf, -inf, inf, nan, 0.0, -0.0, 1e308, -1e308, 5e-324]
    cases = [([(0.0, -inf, [-inf] * 4)], 1.0, "all_inf_batch(F8,unreachable_since_959029e)"),
             ([(0.0, -inf, [-inf] * 4), (0.0, 0.0, [-1.0, -2.0, -0.5, -3.0])], 1.0, "all_inf_batch_then_finite_batch"),
             ([(0.0, 0.0, [-1.0, -inf]), (1.0, -0.5, [-0.3])], 1.0, "stored_minus_inf_logl"),
             ([(0.5, 0.0, [-1.0, -inf]), (1.0, -0.5, [-0.3])], 1.0, "stored_minus_inf_logl_beta>0")]
    for _ in range(n):
        T = rng.randint(1, 4)
        hist = []
        for _t in range(T):
            b = rng.choice([0.0, 1.0, rng.random()])
            z = rng.choice([rng.uniform(-5, 5)] * 4 + specials)
            ls = [rng.choice([rng.uniform(-10, 10)] * 3 + specials) for _ in range(rng.randint(1, 4))]
            hist.append((b, z, ls))
        cases.append((hist, rng.choice([0.0, 1.0, rng.random()]), "generated"))
    lines = [_op(h, b, nrm) for h, b, _ in cases for nrm in (False, True)]
    res = drv.batch(lines)
    k = 0
    for hist, beta, tag in cases:
        flat = [x for _, _, ls in hist for x in ls] + [z for _, z, _ in hist]
        c.case((_hist_json(hist), f2hex(beta)), any(not math.isfinite(x) for x in flat))
        c.count("has_nan" if any(math.isnan(x) for x in flat) else "has_inf" if any(math.isinf(x) for x in flat) else "finite_extreme")
        if tag != "generated":
            c.count(tag)
        for nrm in (False, True):
            iw, iz = _impl(hist, beta, nrm)
            parsed = _parse_ans(res[k])
            k += 1
            good = parsed is not None and parsed[1] is not None and len(parsed[0]) == len(iw) and \
                all(_same_num(a, b, TOL * (1 + abs(a))) for a, b in zip(iw, parsed[0])) and _same_num(iz, parsed[1], TOL * (1 + abs(iz)))
            c.count("output_all_finite" if all(map(math.isfinite, iw)) and math.isfinite(iz) else
                    "output_has_nan" if any(map(math.isnan, iw)) or math.isnan(iz) else "output_has_inf")
            if not good:
                c.disagree(hist=_hist_json(hist), readable=[[b, repr(z), [repr(x) for x in ls]] for b, z, ls in hist], beta=beta, normalize=nrm,
                           impl=[[repr(x) for x in iw][:8], repr(iz)], model=res[k - 1][:200])
            if tag != "generated" and not nrm:
                c.sample({"case": tag, "history": [[b, repr(z), [repr(x) for x in ls]] for b, z, ls in hist], "beta": beta,
                          "impl_logw": [repr(x) for x in iw], "impl_logz": repr(iz)})
    return c


# ------------------------------------------------------------------ second pass: a run resumed by a sampler with another n_particles
def _resumed_runs(tier):
    import os
    import shutil
    import tempfile
    from tempest import Sampler
    specs = [dict(seed=3, n1=16, n2=24, n_a=48, n_b=96, kernel="rwm", off=0.0),
             dict(seed=8, n1=20, n2=12, n_a=40, n_b=72, kernel="tpcn", off=500.0)]
    if tier != "quick":
        specs += [dict(seed=20 + i, n1=12 + 4 * (i % 3), n2=10 + 6 * ((i + 1) % 3), n_a=36 + 12 * (i % 2), n_b=80 + 16 * (i % 3),
                       kernel=["rwm", "tpcn"][i % 2], off=[0.0, -3e4, 1e6][i % 3]) for i in range(8)]
    for sp in specs:
        d = tempfile.mkdtemp(prefix="tv04_")
        try:
            off = sp["off"]

            def mk(n, off=off, d=d, kernel=sp["kernel"]):
                return Sampler(lambda u: 8.0 * u - 4.0, lambda x: off - 1.5 * float(np.sum((x - 0.5) ** 2)), 2, n_particles=n,
                               clustering=False, sample=kernel, output_dir=d, n_steps=1, n_max_steps=2)
            with _quiet(), warnings.catch_warnings():
                warnings.simplefilter("ignore")
                np.random.seed(sp["seed"])
                mk(sp["n1"]).run(n_total=sp["n_a"], progress=False, save_every=2)
                cks = sorted((f for f in os.listdir(d) if f.endswith(".state") and "final" not in f),
                             key=lambda f: int(f.split("_")[-1].split(".")[0]))
                s2 = mk(sp["n2"])
                s2.run(n_total=sp["n_b"], progress=False, resume_state_path=os.path.join(d, cks[len(cks) // 2]))
            yield sp, s2
        finally:
            shutil.rmtree(d, ignore_errors=True)


def _export_hist(st):
    T = st.get_history_length()
    betas = [float(b) for b in np.asarray(st.get_history("beta")).ravel()]
    zs = [float(z) for z in np.asarray(st.get_history("logz")).ravel()]
    return [(betas[t], zs[t], [float(x) for x in st.get_history("logl", index=t)]) for t in range(T)]


def _corr_resume(tier, drv):
    c = Corr("resume-T", "toleranced Float (1e-9*(1+scale)); rows of trimmed / resampled calls matched exactly against the untrimmed arrays")
    lines, cases = [], []
    try:
        for sp, s in _resumed_runs(tier):
            hist = _export_hist(s.state)
            sizes = [len(ls) for _, _, ls in hist]
            c.case((_hist_json(hist),), len(set(sizes)) > 1)
            c.count("runs")
            c.count("batch_sizes_differ" if len(set(sizes)) > 1 else "batch_sizes_equal")
            c.count(f"sizes={sorted(set(sizes))}")
            with _quiet(), warnings.catch_warnings():
                warnings.simplefilter("ignore")
                plain = s.posterior(return_logw=True, trim_importance_weights=False)
                ev = s.evidence()
                live = s.state.compute_logw_and_logz(1.0)
            x0, w0, l0, lw0 = plain
            flat = [x for _, _, ls in hist for x in ls]
            if [float(v) for v in l0] != flat:
                c.disagree(what="posterior() logl is not the flat stored history", spec=sp)
            if not np.allclose(np.asarray(w0), np.exp(np.asarray(lw0)), rtol=1e-9, atol=0):
                c.disagree(what="posterior() weights are not exp(logw)", spec=sp)
            if f2hex(float(ev[0])) != f2hex(float(live[1])):
                c.disagree(what=f"evidence() {ev[0]!r} is not compute_logw_and_logz(1.0)[1] = {live[1]!r} of the final history", spec=sp)
            lines.append(_op(hist, 1.0, True))
            cases.append((hist, 1.0, True, ([float(v) for v in lw0], float(ev[0])), {"via": "resumed Sampler.posterior/evidence", "spec": sp}))
            for beta, nrm in ((0.0, False), (0.37, True)):
                with warnings.catch_warnings():
                    warnings.simplefilter("ignore")
                    w, z = s.state.compute_logw_and_logz(beta, normalize=nrm)
                lines.append(_op(hist, beta, nrm))
                cases.append((hist, beta, nrm, ([float(v) for v in w], float(z)), {"via": "resumed sampler.state", "spec": sp}))
            # trimmed / resampled calls: every returned (x, logl, logw) row is a row of the untrimmed arrays (theorem C04_posterior_rows)
            rows = {}
            for xi, li, wi in zip(np.asarray(x0), l0, lw0):
                rows.setdefault((tuple(float(v) for v in np.atleast_1d(xi)), float(li)), set()).add(float(wi))
            for trim, res_ in ((True, False), (False, True), (True, True)):
                with _quiet(), warnings.catch_warnings():
                    warnings.simplefilter("ignore")
                    out = s.posterior(return_logw=True, trim_importance_weights=trim, resample=res_)
                c.count(f"posterior(trim={trim},resample={res_})")
                bad = [k for k, (xi, li, wi) in enumerate(zip(np.asarray(out[0]), out[2], out[3]))
                       if float(wi) not in rows.get((tuple(float(v) for v in np.atleast_1d(xi)), float(li)), ())]
                if bad or not (len(out[0]) == len(out[1]) == len(out[2]) == len(out[3]) > 0):
                    c.disagree(what=f"posterior(trim={trim}, resample={res_}): row {bad[:1]} is not an (x, logl, logw) row of the stored history", spec=sp)
    except Exception as e:  # the sampler itself failing is not this property's business
        c.error = f"resumed Sampler run failed: {type(e).__name__}: {e}"
        return c
    res = drv.batch(lines)
    for (hist, beta, nrm, impl, extra), ans in zip(cases, res):
        _compare(c, hist, beta, nrm, impl, ans, extra={"via": extra["via"], "spec": extra["spec"]})
        c.count("evaluations")
    if cases:
        hist, beta, nrm, impl, extra = cases[0]
        c.sample({"spec": extra["spec"], "batch_sizes": [len(ls) for _, _, ls in hist], "betas": [b for b, _, _ in hist],
                  "evidence()": impl[1], "model_logz": hex2f(res[0].split(" ")[-1])})
    return c


# ------------------------------------------------------------------ second pass: the rounding hypothesis of the finiteness theorems
def _corr_ieee(tier):
    """H-IEEE (Lemmas/Rounded.lean `RoundModel rnd u eta Omega` with u = 2^-52, eta = 2^-1074): |rnd x - x| <= u|x| + eta for the
    primitive operations of the function, sampled on this platform's numpy.  Not a model-vs-code comparison: a check of the
    hypothesis under which `C04_rounded_finite` speaks about doubles."""
    from fractions import Fraction
    n = 1500 if tier == "quick" else 30000
    rng = common.rng_for("C04.ieee")
    c = Corr("ieee-H", "hypothesis check: numpy float64 vs exact rationals (+ - *) / 60-digit references (exp, log); bound 2^-52|x| + 2^-1074")
    U = Fraction(1, 2 ** 52)
    ETA = Fraction(1, 2 ** 1074)

    def rnd_ok(got, exact):
        return math.isfinite(got) and abs(Fraction(got) - exact) <= U * abs(exact) + ETA

    def dec_frac(d):
        return Fraction(d)
    with localcontext() as ctx:
        ctx.prec = 70
        ctx.Emax = MAX_EMAX
        ctx.Emin = MIN_EMIN
        for _ in range(n):
            sc = rng.choice([1.0, 10.0, 1e3, 1e6, 1e15, 1e100])
            a = rng.uniform(-sc, sc)
            b = rng.choice([rng.random(), rng.uniform(-sc, sc), 1.0, 0.0])
            for name, got, exact in (("add", float(np.float64(a) + np.float64(b)), Fraction(a) + Fraction(b)),
                                     ("sub", float(np.float64(a) - np.float64(b)), Fraction(a) - Fraction(b)),
                                     ("mul", float(np.float64(a) * np.float64(b)), Fraction(a) * Fraction(b))):
                c.count(name)
                if not rnd_ok(got, exact):
                    c.disagree(op=name, a=f2hex(a), b=f2hex(b), impl=repr(got), model="outside 2^-52|x| + 2^-1074")
            t = -abs(rng.choice([rng.uniform(0, 1), rng.uniform(0, 40), rng.uniform(0, 745), 10.0 ** rng.uniform(-300, 0)]))
            got = float(np.exp(np.float64(t)))
            c.count("exp")
            if not rnd_ok(got, dec_frac(Decimal(t).exp())):
                c.disagree(op="exp", a=f2hex(t), impl=repr(got), model="outside 2^-52|x| + 2^-1074")
            sarg = rng.choice([rng.uniform(0.5, 3.0), 1.0 + rng.uniform(-1, 1) * 10.0 ** rng.uniform(-16, -1), float(rng.randint(1, 10 ** 9)),
                               float(rng.randint(1, 60))])
            got = float(np.log(np.float64(sarg)))
            c.count("log")
            if not rnd_ok(got, dec_frac(Decimal(sarg).ln())):
                c.disagree(op="log", a=f2hex(sarg), impl=repr(got), model="outside 2^-52|x| + 2^-1074")
            c.case((f2hex(a), f2hex(b), f2hex(t), f2hex(sarg)), True)
    return c


def correspond(tier):
    drv = common.Driver()
    return [_corr_generated(tier, drv), _corr_degenerate(tier, drv), _corr_sampler(tier, drv), _corr_keys(tier, drv), _corr_ops(tier, drv),
            _corr_nonfinite(tier, drv), _corr_resume(tier, drv), _corr_ieee(tier)]


# ------------------------------------------------------------------ property oracle on the real code
PREC = 60


def _D(x):
    return Decimal(float(x))


def _ref(hist, beta):
    """60-digit reference of the statement: raw logw per particle, logz, normalised logw"""
    with localcontext() as ctx:
        ctx.prec = PREC
        ctx.Emax = MAX_EMAX
        ctx.Emin = MIN_EMIN
        for tr in list(ctx.traps):
            ctx.traps[tr] = False
        n = [len(ls) for _, _, ls in hist]
        N = sum(n)
        lw = [(Decimal(nt) / Decimal(N)).ln() for nt in n]
        B = _D(beta)
        raw = []
        cut = Decimal(-200)

        def lse(args):
            m = max(args)
            tot = Decimal(0)
            for a in args:
                d = a - m
                if d > cut:
                    tot += d.exp()
            return m + tot.ln()
        for _, _, ls in hist:
            for l in ls:
                L = _D(l)
                args = [_D(bt) * L - _D(zt) + w for (bt, zt, _), w in zip(hist, lw)]
                raw.append(B * L - lse(args))
        tot = lse(raw)
        logz = tot - Decimal(N).ln()
        norm = [r - tot for r in raw]
        return [float(r) for r in raw], float(logz), [float(x) for x in norm], raw, logz


def oracle(hist, beta, checks=("formula", "sum", "perm", "shift", "finite", "uniform"), shift_c=None, perm=None):
    """the property evaluated on the real code; returns a description of the violation, or None"""
    if not hist:
        w, z = _impl([], beta, True)
        if w or z != -math.inf:
            return f"empty history returned ({w}, {z!r}), want ([], -inf)"
        return None
    per, glob = _scales(hist, beta)
    rw, rz = _impl(hist, beta, False)
    nw, nz = _impl(hist, beta, True)
    N = sum(len(ls) for _, _, ls in hist)
    if len(rw) != N or len(nw) != N:
        return f"{len(rw)}/{len(nw)} log-weights returned for {N} stored particles"
    if "finite" in checks:
        bad = [i for i, x in enumerate(rw + nw) if not math.isfinite(x)]
        if bad or not math.isfinite(rz) or not math.isfinite(nz):
            return f"non-finite output for finite inputs (first bad index {bad[:1]}, logz {rz!r})"
    if "formula" in checks:
        ref_raw, ref_z, ref_norm, _, _ = _ref(hist, beta)
        for s in range(N):
            if not abs(rw[s] - ref_raw[s]) <= TOL * (1 + per[s]):
                return (f"formula: particle {s}: unnormalised logw {rw[s]!r}, statement's formula gives {ref_raw[s]!r} "
                        f"(scale {per[s]:.3g})")
        for z, nm in ((rz, "normalize=False"), (nz, "normalize=True")):
            if not abs(z - ref_z) <= TOL * (1 + glob):
                return f"evidence: logz ({nm}) {z!r}, log of mean unnormalised weight is {ref_z!r} (scale {glob:.3g})"
        for s in range(N):
            if not abs(nw[s] - ref_norm[s]) <= TOL * (1 + glob):
                return f"formula: particle {s}: normalised logw {nw[s]!r}, reference {ref_norm[s]!r} (scale {glob:.3g})"
    if "sum" in checks:
        tot = math.fsum(math.exp(x) for x in nw)
        if not abs(tot - 1.0) <= TOL * (1 + glob):
            return f"sum: normalised weights sum to {tot!r} (scale {glob:.3g})"
    if "perm" in checks and len(hist) >= 2:
        order = perm if perm is not None else list(reversed(range(len(hist))))
        h2 = [hist[i] for i in order]
        rw2, rz2 = _impl(h2, beta, False)
        nw2, _ = _impl(h2, beta, True)
        off = [0]
        for _, _, ls in hist:
            off.append(off[-1] + len(ls))
        pos = 0
        for i in order:
            for k in range(len(hist[i][2])):
                s = off[i] + k
                if not abs(rw2[pos] - rw[s]) <= TOL * (1 + per[s]):
                    return (f"permutation {order}: particle {k} of iteration {i} has unnormalised logw {rw[s]!r} in the stored "
                            f"order and {rw2[pos]!r} after re-ordering the iterations")
                if not abs(nw2[pos] - nw[s]) <= TOL * (1 + glob):
                    return (f"permutation {order}: particle {k} of iteration {i} has normalised logw {nw[s]!r} / {nw2[pos]!r}")
                pos += 1
        if not abs(rz2 - rz) <= TOL * (1 + glob):
            return f"permutation {order}: logz {rz!r} became {rz2!r}"
    if "shift" in checks:
        c = shift_c if shift_c is not None else 1000.0
        h3 = [(b, z + b * c, [l + c for l in ls]) for b, z, ls in hist]
        _, g3 = _scales(h3, beta)
        sc = max(glob, g3, abs(c))
        rw3, rz3 = _impl(h3, beta, False)
        nw3, _ = _impl(h3, beta, True)
        for s in range(N):
            if not abs(rw3[s] - (rw[s] + beta * c)) <= TOL * (1 + sc):
                return (f"shift c={c!r}: particle {s}: unnormalised logw {rw[s]!r} -> {rw3[s]!r}, expected change beta*c={beta * c!r}")
            if not abs(nw3[s] - nw[s]) <= TOL * (1 + sc):
                return f"shift c={c!r}: particle {s}: normalised logw changed {nw[s]!r} -> {nw3[s]!r}"
        if not abs(rz3 - (rz + beta * c)) <= TOL * (1 + sc):
            return f"shift c={c!r}: logz {rz!r} -> {rz3!r}, expected change beta*c={beta * c!r}"
    if "uniform" in checks and beta == 0 and all(b == 0 for b, _, _ in hist):
        if max(nw) - min(nw) > TOL * (1 + glob) or not abs(nw[0] + math.log(N)) <= TOL * (1 + glob):
            return f"uniform: beta=0 and all beta_t=0 but normalised log-weights range over [{min(nw)!r}, {max(nw)!r}] (want -log N = {-math.log(N)!r})"
    return None


def _fixed_candidates():
    big = 1e6
    return [
        ([(0.0, 0.0, [-1.0, -2.0]), (1.0, -0.5, [-0.3])], 1.0),
        ([(0.0, 0.0, [5.0, -7.0]), (0.0, 3.0, [1e6])], 0.0),
        ([(0.0, 0.0, [-big, big, 0.0]), (0.5, 7.0, [big]), (1.0, -1e5, [-big, big - 1, big])], 1.0),
        ([(1.0, 1e5, [big] * 3), (0.0, -1e5, [-big])], 0.5),
        ([(0.25, 2.0, [1.0, 2.0, 3.0, 4.0, 5.0])], 1.0),
        ([(1.0, -3.0, [0.5]), (0.0, 0.0, [0.1, 0.2, 0.3, 0.4, 0.5, 0.6, 0.7]), (0.5, -1.0, [0.9, 1.1])], 0.3),
        # the same temperature stored at non-adjacent positions, with different evidence values and sizes (C04_mix_by_level)
        ([(0.0, 0.0, [-1.0, -2.0]), (1.0, -0.5, [-0.3]), (0.3, 0.25, [2.0, 5.0, 7.0]), (1.0, 3.0, [0.0, 1.0])], 1.0),
        ([(1.0, 2.0, [0.5, 1.5]), (0.0, 0.0, [0.25]), (1.0, -1.0, [1.0]), (0.0, 1.0, [3.0, -2.0, 0.5])], 0.5),
        # requested temperature outside [0, 1]
        ([(0.0, 0.0, [-1.0, -2.0]), (1.0, -0.5, [-0.3, 0.4, 1.0])], 2.0),
        ([(0.0, 0.0, [-1.0, -2.0]), (0.5, -0.5, [-0.3, 0.4, 1.0])], -1.0),
        # any magnitude
        ([(0.0, 0.0, [-1e300, 1e300]), (1.0, 1e299, [3e299, -7e299, 1e300])], 1.0),
    ]


def oracle_cache(hist):
    """compute_results()['logw'] must be the weights of the history AS IT IS NOW: a results() call, further commits / a bare
    set_current, then results() again — compared bit for bit with a fresh compute_logw_and_logz(1.0) on the same object (exact;
    cannot fire on correct code).  Needs equal batch sizes (compute_results stacks the per-iteration arrays)."""
    from tempest.state_manager import StateManager
    if len(hist) < 2 or len({len(ls) for _, _, ls in hist}) != 1:
        return None
    sm = StateManager(n_dim=1)
    with warnings.catch_warnings():
        warnings.simplefilter("ignore")
        for t, (b, z, ls) in enumerate(hist):
            sm.set_current("logl", np.array(ls, dtype=float))
            sm.set_current("beta", float(b))
            sm.set_current("logz", float(z))
            sm.compute_results()                 # fills the cache for the history BEFORE this commit
            sm.commit_current_to_history()
            r = sm.compute_results()
            w, _ = sm.compute_logw_and_logz(1.0)
            if "logw" not in r or [f2hex(float(x)) for x in r["logw"]] != [f2hex(float(x)) for x in w]:
                return (f"cache: after committing iteration {t + 1} of {len(hist)}, compute_results()['logw'] "
                        f"({'missing' if 'logw' not in r else str(len(r['logw'])) + ' values'}) is not compute_logw_and_logz(1.0)[0] "
                        f"({len(w)} values) of the current history")
        n0 = len(sm.compute_results()["logw"])
        sm.update_from_dict(sm.to_dict())
        if len(sm.compute_results()["logw"]) != n0:
            return "cache: compute_results() changed after an update_from_dict(to_dict()) round trip"
        # loading another (shorter) history must drop the cached weights
        d = sm.to_dict()
        d["_history"] = {k: v[:-1] for k, v in d["_history"].items()}
        sm.update_from_dict(d)
        r = sm.compute_results()
        w, _ = sm.compute_logw_and_logz(1.0)
        if "logw" not in r or [f2hex(float(x)) for x in r["logw"]] != [f2hex(float(x)) for x in w]:
            return (f"cache: after update_from_dict of a history with {len(hist) - 1} iterations compute_results()['logw'] still has "
                    f"{len(r.get('logw', []))} values; compute_logw_and_logz(1.0)[0] has {len(w)}")
    return None


def oracle_replace(h1, h2, beta, how):
    """a manager that has already computed weights on history h1 gets its history REPLACED by h2 (same number of iterations and
    samples) through `how` in {update_from_dict, load_state, from_dict}; what it returns afterwards must be the statement's formula
    on the history it NOW holds (60-digit reference; cannot fire on correct code)"""
    from tempest.state_manager import StateManager
    sm = _commit(h1)
    with warnings.catch_warnings():
        warnings.simplefilter("ignore")
        sm.compute_logw_and_logz(beta, normalize=False)
        sm.compute_logw_and_logz(1.0)
        kb, kz, kl = [b for b, _, _ in h2], [z for _, z, _ in h2], [ls for _, _, ls in h2]
        if how == "from_dict":
            d = sm.to_dict()
            d["_history"].update({"beta": kb, "logz": kz, "logl": [np.array(a, dtype=float) for a in kl]})
            sm = StateManager.from_dict(d)
        else:
            _load_keys(sm, kb, kz, kl, how)
        held = _export_hist(sm)
        rw, rz = sm.compute_logw_and_logz(beta, normalize=False)
        nw, nz = sm.compute_logw_and_logz(beta, normalize=True)
    if [(b, z, ls) for b, z, ls in held] != [(float(b), float(z), [float(x) for x in ls]) for b, z, ls in h2]:
        return f"replace via {how}: the manager does not hold the loaded history"
    per, glob = _scales(h2, beta)
    ref_raw, ref_z, ref_norm, _, _ = _ref(h2, beta)
    rw, nw = [float(x) for x in rw], [float(x) for x in nw]
    if len(rw) != len(ref_raw):
        return f"replace via {how}: {len(rw)} log-weights for {len(ref_raw)} stored particles"
    for i in range(len(rw)):
        if not abs(rw[i] - ref_raw[i]) <= TOL * (1 + per[i]):
            return (f"history replaced via {how} after weights had been computed on another history of the same shape: particle {i} of the "
                    f"history now stored has unnormalised logw {rw[i]!r}, the statement's formula on the stored history gives {ref_raw[i]!r}")
        if not abs(nw[i] - ref_norm[i]) <= TOL * (1 + glob):
            return (f"history replaced via {how}: particle {i}: normalised logw {nw[i]!r}, formula on the stored history {ref_norm[i]!r}")
    for z in (float(rz), float(nz)):
        if not abs(z - ref_z) <= TOL * (1 + glob):
            return f"history replaced via {how}: logz {z!r}, log of the mean unnormalised weight of the stored history is {ref_z!r}"
    return None


def oracle_sampler(resumed=False):
    """Sampler.posterior(return_logw=True) / evidence() against the 60-digit reference of the statement on the exported history"""
    runs = _resumed_runs("quick") if resumed else ((sp, s) for sp, s, *_ in _sampler_runs("quick"))
    for sp, s in runs:
        hist = _export_hist(s.state)
        with _quiet(), warnings.catch_warnings():
            warnings.simplefilter("ignore")
            out = s.posterior(return_logw=True, trim_importance_weights=False)
            ev = s.evidence()
        lw = [float(x) for x in out[-1]]
        N = sum(len(ls) for _, _, ls in hist)
        _, glob = _scales(hist, 1.0)
        _, ref_z, ref_norm, _, _ = _ref(hist, 1.0)
        what = None
        if len(lw) != N:
            what = f"posterior(return_logw=True) returned {len(lw)} log-weights for {N} stored particles"
        else:
            for i in range(N):
                if not abs(lw[i] - ref_norm[i]) <= TOL * (1 + glob):
                    what = f"posterior(return_logw=True): logw[{i}] = {lw[i]!r}, the statement's normalised log-weight at beta=1 is {ref_norm[i]!r}"
                    break
        if what is None and not abs(float(ev[0]) - ref_z) <= TOL * (1 + glob):
            what = f"evidence() = {ev[0]!r}, log of the mean unnormalised weight over the stored history is {ref_z!r}"
        if what is None and not np.allclose(np.asarray(out[1]), np.exp(np.asarray(lw)), rtol=1e-9, atol=1e-300):
            what = "posterior(): weights are not exp(logw)"
        if what is None:
            # trimmed / resampled calls: every returned (logl, logw) pair is the pair of a stored particle
            flat = [x for _, _, ls in hist for x in ls]
            pairs = {}
            for l, r in zip(flat, ref_norm):
                pairs.setdefault(l, []).append(r)
            for trim, res_ in ((True, False), (True, True), (False, True)):
                with _quiet(), warnings.catch_warnings():
                    warnings.simplefilter("ignore")
                    o2 = s.posterior(return_logw=True, trim_importance_weights=trim, resample=res_)
                if not (len(o2[0]) == len(o2[1]) == len(o2[2]) == len(o2[3])):
                    what = (f"posterior(return_logw=True, trim_importance_weights={trim}, resample={res_}) returned arrays of lengths "
                            f"{[len(a) for a in o2]}")
                    break
                bad = [k for k, (l, w) in enumerate(zip(o2[2], o2[3]))
                       if not any(abs(float(w) - r) <= TOL * (1 + glob) for r in pairs.get(float(l), ()))]
                if bad:
                    k = bad[0]
                    what = (f"posterior(return_logw=True, trim_importance_weights={trim}, resample={res_}): row {k} has logl {float(o2[2][k])!r} and "
                            f"logw {float(o2[3][k])!r}; the stored particle(s) with that log-likelihood have normalised log-weight {pairs.get(float(o2[2][k]))}")
                    break
        if what:
            return {"what": ("resumed run (other n_particles): " if resumed else "") + what, "sampler_spec": sp, "resumed": resumed,
                    "batch_sizes": [len(ls) for _, _, ls in hist]}
    return None


def _fail_record(msg, hist, beta, shift_c, perm):
    return {"what": msg, "hist": _hist_json(hist), "beta": beta, "beta_hex": f2hex(beta), "shift_c": shift_c, "perm": perm,
            "history_readable": [[b, z, ls] for b, z, ls in hist][:4]}


def search(tier, hints):
    found = []
    cands = []
    for h in hints:
        if "hist" in h and "beta_hex" in h:
            try:
                cands.append((_hist_from_json(h["hist"]), hex2f(h["beta_hex"])))
            except Exception:  # noqa
                pass
    hinted = cands[:10]
    rng = common.rng_for("C04.search")
    # readable inputs first (fixed + small generated), then the disagreeing inputs of the correspondence, then the full generator
    cands = _fixed_candidates() + [_gen_history(rng, max_T=4, max_n=6) for _ in range(60)] + hinted
    for i in range(400 if tier == "quick" else 5000):
        if i % 3:
            cands.append(_gen_history(rng, max_T=4, max_n=6))
        else:
            cands.append(_gen_history(rng))
    seen = set()
    for hist, beta in cands:
        k = common.digest((_hist_json(hist), f2hex(beta)))
        if k in seen:
            continue
        seen.add(k)
        shift_c = rng.choice([1.0, -3.5, 1000.0, -1e5, 1e6])
        perm = list(range(len(hist)))
        rng.shuffle(perm)
        if perm == sorted(perm):
            perm.reverse()
        try:
            msg = oracle(hist, beta, shift_c=shift_c, perm=perm)
        except Exception as e:  # noqa
            msg = f"raised {type(e).__name__}: {e}"
        if msg:
            found.append(_fail_record(msg, hist, beta, shift_c, perm))
            if len(found) >= 5:
                break
    # prefer the smallest failing history as the reported one
    found.sort(key=lambda f: sum(len(b[2]) for b in f["hist"]) + len(f["hist"]))
    if not found:
        # the cache of compute_results (equal batch sizes), then the Sampler-level observation points
        crng = common.rng_for("C04.search.cache")
        for _ in range(40):
            T, n = crng.randint(2, 5), crng.randint(1, 5)
            hist = [(crng.choice([0.0, 1.0, crng.random()]), crng.uniform(-5, 5), [crng.uniform(-10, 10) for _ in range(n)]) for _ in range(T)]
            try:
                msg = oracle_cache(hist)
            except Exception as e:  # noqa
                msg = f"cache: raised {type(e).__name__}: {e}"
            if msg:
                found.append({"what": msg, "hist": _hist_json(hist), "beta": 1.0, "beta_hex": f2hex(1.0), "cache": True,
                              "history_readable": [[b, z, ls] for b, z, ls in hist]})
                break
    if not found:
        # a history replaced wholesale (update_from_dict / load_state into the same manager / from_dict) after weights were computed
        rrng = common.rng_for("C04.search.replace")
        for k in range(60 if tier == "quick" else 600):
            T, n = rrng.randint(1, 4), rrng.randint(1, 4)
            h1 = [(rrng.choice([0.0, 1.0, rrng.random()]), rrng.uniform(-5, 5), [rrng.uniform(-10, 10) for _ in range(n)]) for _ in range(T)]
            h2 = _same_shape_history(rrng, h1)
            how = ["load_state", "update_from_dict", "from_dict"][k % 3]
            beta = rrng.choice([0.0, 1.0, rrng.random()])
            try:
                msg = oracle_replace(h1, h2, beta, how)
            except Exception as e:  # noqa
                msg = f"replace via {how}: raised {type(e).__name__}: {e}"
            if msg:
                found.append({"what": msg, "hist": _hist_json(h2), "previous_hist": _hist_json(h1), "beta": beta, "beta_hex": f2hex(beta),
                              "replace": how, "history_readable": [[b, z, ls] for b, z, ls in h2],
                              "previous_history_readable": [[b, z, ls] for b, z, ls in h1]})
                break
    if not found:
        for resumed in (False, True):
            try:
                f = oracle_sampler(resumed)
            except Exception as e:  # noqa
                f = {"what": f"{'resumed ' if resumed else ''}Sampler run raised {type(e).__name__}: {e}", "resumed": resumed, "sampler": True}
            if f:
                f["sampler"] = True
                found.append(f)
                break
    return found


def replay(obj):
    f = obj.get("failing_input", obj)
    if "witness" in f.get("replay", {}):
        from . import witnesses
        return witnesses.ALL[f["replay"]["witness"]]()
    if f.get("sampler"):
        try:
            r = oracle_sampler(bool(f.get("resumed")))
        except Exception as e:  # noqa
            r = {"what": f"raised {type(e).__name__}: {e}"}
        return {"fails": r is not None, "detail": r["what"] if r else None}
    hist = _hist_from_json(f["hist"])
    beta = hex2f(f["beta_hex"])
    if f.get("replace"):
        try:
            msg = oracle_replace(_hist_from_json(f["previous_hist"]), hist, beta, f["replace"])
        except Exception as e:  # noqa
            msg = f"raised {type(e).__name__}: {e}"
        return {"fails": msg is not None, "detail": msg}
    if f.get("cache"):
        try:
            msg = oracle_cache(hist)
        except Exception as e:  # noqa
            msg = f"cache: raised {type(e).__name__}: {e}"
        return {"fails": msg is not None, "detail": msg}
    try:
        msg = oracle(hist, beta, shift_c=f.get("shift_c"), perm=f.get("perm"))
    except Exception as e:  # noqa
        msg = f"raised {type(e).__name__}: {e}"
    return {"fails": msg is not None, "detail": msg}
