"""C04 — importance weights follow the balance-heuristic mixture formula.

Real code: tempest.state_manager.StateManager.compute_logw_and_logz (also reached through
Sampler.posterior / Sampler.evidence).  Model: lean/TempestVerif/Model/Weights.lean, run at Float.
"""
import contextlib
import io
import math
import warnings
from decimal import Decimal, localcontext, MAX_EMAX, MIN_EMIN

import numpy as np

from . import common
from .common import Corr, f2hex, hex2f, flist, parse_list

ID = "C04"
LEAN_MODULES = ["TempestVerif.Props.C04", "TempestVerif.Props.C04Round"]
RULE = ("suite weights-T: generated histories, T in 1..12 iterations (every value), batch sizes n_t in 1..40 (unequal unless T=1 or a deliberate "
        "equal-size case), beta_t unsorted in [0,1] incl. repeated 0 and 1, z_t uniform in +-50 or +-1e5, log-likelihoods at scales 10 / 1e3 / 1e6 "
        "(both signs) with clusters of equal and 1-ulp-apart values, target beta in {0, 1, interior}; 20% of the histories hand integral beta_t / z_t / beta "
        "over as Python ints; each history is committed to a REAL StateManager through set_current + commit_current_to_history and "
        "compute_logw_and_logz(beta, normalize in {False, True}) is compared with the Lean model evaluated at Float, tolerance |d| <= 1e-9*(1+scale), "
        "scale = largest magnitude among the intermediates (|beta*l|, |beta_t*l|, |z_t|, |b|) of that particle (raw weights) or of the whole history "
        "(normalised weights, logz); equal-size histories are additionally read back through compute_results()['logw']; the empty history is matched "
        "structurally (([], -inf) vs ([], none)). Suite degenerate-T (outside the statement, n_t = 0): histories with empty batches and with all batches "
        "empty (Python logz = NaN vs model none). Suite sampler-T: short real Sampler runs, posterior(return_logw=True, trim_importance_weights=False), "
        "evidence() and three further compute_logw_and_logz targets on the live state vs the model on the exported history. "
        "Non-trivial = T >= 2 with unequal batch sizes or distinct beta_t.")
MODELLED = ["np.logaddexp is modelled in numpy's max-shifted form with log(1+exp t) for log1p(exp t) and log 2 for the constant LOGE2 "
            "(equal over the reals; float difference <= a few ulp, absorbed by the tolerance; in the rounded-arithmetic theorems log1p(e) lies "
            "inside the range proved for log(rnd(1+e)), so the bounds hold a fortiori but the modelled expression is not the libm call)",
            "np.logaddexp.reduce is modelled as a left fold from the first element",
            "np.exp / np.log / float64 + - * are the ScT operations: exact reals in Props.C04, an arbitrary rounding function obeying the standard "
            "model (|rnd x - x| <= u|x| + eta for |x| <= Omega, unconstrained above) in Props.C04Round, IEEE doubles in the correspondence. That IEEE "
            "binary64 with numpy's libm satisfies that standard model with u = 2^-52 is the residual assumption of the finiteness clause",
            "int -> float conversion of n_t, N (np.log of an int64) is taken to be exact (true below 2^53)",
            "how _history is assembled (set_current / commit_current_to_history / get_history) is not in this model: it is C17's StateMgr model; here "
            "the tie goes through the public API on the real object",
            "histories with non-finite z_t or logL are outside the statement and not generated; empty batches only in suite degenerate-T"]
ASSUMPTIONS = ["every committed iteration carries beta, logz and a 1-D logl array (what execute_iteration commits); a commit that leaves logz None "
               "misaligns the per-key lists and is outside the statement",
               "T >= 1 and every n_t >= 1 (hypothesis WF of the theorems = the statement's quantifier)"]

TOL = 1e-9


# ------------------------------------------------------------------ real code
def _commit(hist, ints=False):
    """hist = [(beta_t, logz_t, [logl...]), ...] -> a real StateManager populated through its public API.
    ints=True hands integral beta_t / logz_t over as Python ints (what `beta = 0` style callers do)."""
    from tempest.state_manager import StateManager
    sm = StateManager(n_dim=1)
    for t, (b, z, ls) in enumerate(hist):
        n = len(ls)
        sm.set_current("u", np.full((n, 1), 0.5))
        sm.set_current("x", np.zeros((n, 1)))
        sm.set_current("logl", np.array(ls, dtype=float))
        sm.set_current("beta", int(b) if ints and float(b).is_integer() else float(b))
        sm.set_current("logz", int(z) if ints and float(z).is_integer() and abs(z) < 2 ** 53 else float(z))
        sm.set_current("iter", t)
        sm.commit_current_to_history()
    return sm


def _impl(hist, beta, normalize, ints=False):
    sm = _commit(hist, ints)
    with warnings.catch_warnings():
        warnings.simplefilter("ignore")
        b = int(beta) if ints and float(beta).is_integer() else float(beta)
        logw, logz = sm.compute_logw_and_logz(b, normalize=bool(normalize))
    return [float(x) for x in np.asarray(logw).ravel()], float(logz)


def _impl_results(hist):
    """compute_results()['logw'] (beta = 1, normalised) on a real StateManager; equal batch sizes only
    (get_history of a ragged key cannot be stacked by numpy)"""
    sm = _commit(hist)
    with warnings.catch_warnings():
        warnings.simplefilter("ignore")
        r = sm.compute_results()
        _, logz = sm.compute_logw_and_logz(1.0)
    return [float(x) for x in np.asarray(r["logw"]).ravel()], float(logz)


# ------------------------------------------------------------------ model (driver) side
def _enc_hist(hist):
    if not hist:
        return "-"
    return ";".join(f"{f2hex(b)}:{f2hex(z)}:{flist(ls, f2hex)}" for b, z, ls in hist)


def _op(hist, beta, normalize):
    return f"logw.F beta={f2hex(beta)} norm={1 if normalize else 0} h={_enc_hist(hist)}"


def _parse_ans(ans):
    toks = ans.split(" ")
    if len(toks) != 2:
        return None
    try:
        w = parse_list(toks[0], hex2f)
        z = None if toks[1] == "none" else hex2f(toks[1])
    except ValueError:
        return None
    return w, z


def _hist_json(hist):
    return [[f2hex(b), f2hex(z), [f2hex(x) for x in ls]] for b, z, ls in hist]


def _hist_from_json(j):
    return [(hex2f(b), hex2f(z), [hex2f(x) for x in ls]) for b, z, ls in j]


def _scales(hist, beta):
    """per-particle magnitude of the intermediates of the statement's formula, and the global maximum"""
    n = [len(ls) for _, _, ls in hist]
    N = sum(n)
    out = []
    for _, _, ls in hist:
        for l in ls:
            s = abs(beta * l)
            for (bt, zt, _), nt in zip(hist, n):
                if nt == 0:
                    continue
                s = max(s, abs(l * bt), abs(zt), abs(l * bt - zt + math.log(nt) - math.log(N)))
            out.append(s)
    return out, (max(out) if out else 0.0)


def _nontrivial(hist):
    return len(hist) >= 2 and (len({len(ls) for _, _, ls in hist}) > 1 or len({b for b, _, _ in hist}) > 1)


# ------------------------------------------------------------------ generators
def _gen_logl(rng, n, scale):
    """n log-likelihoods at the given scale, with clusters of equal / 1-ulp-apart / 1e-9-apart values"""
    style = rng.random()
    centres = [rng.uniform(-scale, scale) for _ in range(rng.randint(1, 4))]
    if rng.random() < 0.3:
        centres.append(rng.choice([scale, -scale]))
    out = []
    for _ in range(n):
        k = rng.random()
        if style < 0.35 or k < 0.3:
            out.append(rng.uniform(-scale, scale))
        else:
            c = rng.choice(centres)
            j = rng.random()
            if j < 0.3:
                out.append(c)
            elif j < 0.55:
                out.append(math.nextafter(c, rng.choice([math.inf, -math.inf])))
            elif j < 0.8:
                out.append(c + rng.uniform(-1, 1) * 1e-9 * max(1.0, abs(c)))
            else:
                out.append(c + rng.gauss(0, 1))
    return out


def _gen_history(rng, max_T=12, max_n=40):
    T = rng.choice([1, 2, 2, 3, 3, 4, 5, 6, 7, 8, 9, 10, 11, 12])
    T = min(T, max_T)
    k = rng.random()
    if k < 0.08:
        sizes = [rng.randint(1, max_n)] * T              # deliberately equal
    else:
        sizes = [rng.randint(1, max_n) for _ in range(T)]
        if rng.random() < 0.3:
            sizes[rng.randrange(T)] = 1
        if T >= 2 and len(set(sizes)) == 1:
            sizes[0] = sizes[0] % max_n + 1
    # temperatures
    k = rng.random()
    if k < 0.1:
        betas = [0.0] * T
    elif k < 0.15:
        betas = [1.0] * T
    else:
        betas = []
        for _ in range(T):
            j = rng.random()
            if j < 0.2:
                betas.append(0.0)
            elif j < 0.4:
                betas.append(1.0)
            elif j < 0.5 and betas:
                betas.append(rng.choice(betas))
            elif j < 0.6:
                betas.append(10.0 ** rng.uniform(-8, -1))
            else:
                betas.append(rng.random())
        if rng.random() < 0.3:
            betas.sort()
    zmode = rng.random()
    scale = rng.choice([10.0, 10.0, 1e3, 1e6, 1e6])
    hist = []
    for t in range(T):
        if zmode < 0.5:
            z = rng.uniform(-50, 50)
        elif zmode < 0.8:
            z = rng.uniform(-1e5, 1e5)
        elif zmode < 0.9:
            z = 0.0
        else:
            z = betas[t] * rng.uniform(-scale, scale) / 2 + rng.uniform(-5, 5)   # roughly self-consistent evidences
        hist.append((betas[t], z, _gen_logl(rng, sizes[t], scale)))
    j = rng.random()
    beta = 0.0 if j < 0.25 else 1.0 if j < 0.6 else rng.random() if j < 0.9 else rng.choice(betas)
    return hist, beta


# ------------------------------------------------------------------ correspondence
def _compare(c, hist, beta, normalize, impl, ans, extra=None):
    """compare one evaluation; returns True when it agrees"""
    iw, iz = impl
    parsed = _parse_ans(ans)
    info = dict(hist=_hist_json(hist), beta=beta, beta_hex=f2hex(beta), normalize=bool(normalize), **(extra or {}))
    if parsed is None:
        c.disagree(impl=[[f2hex(x) for x in iw], repr(iz)], model=ans, **info)
        return False
    mw, mz = parsed
    if not hist:
        ok = (len(iw) == 0 and iz == -math.inf and mw == [] and mz is None)
        if not ok:
            c.disagree(impl=[[f2hex(x) for x in iw], repr(iz)], model=ans, **info)
        return ok
    if sum(len(ls) for _, _, ls in hist) == 0:
        # every stored batch empty: Python gives (array([]), nan) [-inf - (-inf)], the model ([], none)
        ok = (len(iw) == 0 and math.isnan(iz) and mw == [] and mz is None)
        if not ok:
            c.disagree(impl=[[f2hex(x) for x in iw], repr(iz)], model=ans, **info)
        return ok
    per, glob = _scales(hist, beta)
    if len(mw) != len(iw) or mz is None:
        c.disagree(impl=[len(iw), repr(iz)], model=[len(mw), repr(mz)], **info)
        return False
    worst = None
    for s, (a, b) in enumerate(zip(iw, mw)):
        sc = glob if normalize else per[s]
        if not (math.isfinite(a) and math.isfinite(b) and abs(a - b) <= TOL * (1 + sc)):
            worst = ("logw", s, a, b, sc)
            break
    if worst is None and not (math.isfinite(iz) and math.isfinite(mz) and abs(iz - mz) <= TOL * (1 + glob)):
        worst = ("logz", -1, iz, mz, glob)
    if worst is not None:
        c.disagree(what=f"{worst[0]}[{worst[1]}]: impl {worst[2]!r} model {worst[3]!r} scale {worst[4]:.3g}",
                   impl=[repr(worst[2])], model=[repr(worst[3])], **info)
        return False
    return True


def _corr_generated(tier, drv):
    n = 900 if tier == "quick" else 20000
    rng = common.rng_for("C04.gen")
    c = Corr("weights-T", "toleranced Float (1e-9*(1+scale))")
    lines, cases = [], []
    # the empty history
    for nrm in (False, True):
        lines.append(_op([], 1.0, nrm))
        cases.append(([], 1.0, nrm, _impl([], 1.0, nrm)))
        c.case(("empty", nrm), False)
        c.count("empty_history")
    for _ in range(n):
        hist, beta = _gen_history(rng)
        nt = _nontrivial(hist)
        sizes = [len(ls) for _, _, ls in hist]
        ints = rng.random() < 0.2
        for nrm in (False, True):
            lines.append(_op(hist, beta, nrm))
            cases.append((hist, beta, nrm, _impl(hist, beta, nrm, ints)))
            c.count("evaluations_normalize" if nrm else "evaluations_raw")
        if ints:
            c.count("integral_values_passed_as_int")
        if len(set(sizes)) == 1:
            # the cached-results path: compute_results()["logw"] is the beta=1 normalised weight array
            lines.append(_op(hist, 1.0, True))
            cases.append((hist, 1.0, True, _impl_results(hist)))
            c.count("evaluations_via_compute_results")
        c.case((_hist_json(hist), f2hex(beta)), nt)
        c.count(f"T={len(hist)}")
        c.count("N<=20" if sum(sizes) <= 20 else "N<=100" if sum(sizes) <= 100 else "N>100")
        c.count("sizes_unequal" if len(set(sizes)) > 1 else "sizes_equal")
        c.count("betas_distinct" if len({b for b, _, _ in hist}) > 1 else "betas_all_equal")
        c.count("beta=0" if beta == 0 else "beta=1" if beta == 1 else "beta_interior")
        mx = max(abs(x) for _, _, ls in hist for x in ls)
        c.count("|logl|>1e5" if mx > 1e5 else "|logl|>100" if mx > 100 else "|logl|<=100")
        c.count("|z|>1e3" if max(abs(z) for _, z, _ in hist) > 1e3 else "|z|<=1e3")
    res = drv.batch(lines)
    for (hist, beta, nrm, impl), line, ans in zip(cases, lines, res):
        _compare(c, hist, beta, nrm, impl, ans)
        if hist and len(hist) <= 3 and sum(len(ls) for _, _, ls in hist) <= 5:
            c.sample({"history(beta_t,logz_t,logl)": [[b, z, ls] for b, z, ls in hist], "beta": beta, "normalize": nrm,
                      "impl_logw": impl[0], "impl_logz": impl[1], "model": ans})
    return c


def _corr_degenerate(tier, drv):
    """outside the statement (n_t >= 1), but the model claims to mirror the code there too: histories with empty
    batches (weight-zero components via log 0 = -inf) and histories whose batches are all empty (logz = NaN)"""
    n = 80 if tier == "quick" else 1500
    rng = common.rng_for("C04.degenerate")
    c = Corr("degenerate-T", "toleranced Float (1e-9*(1+scale)); NaN/-inf evidence matched structurally")
    lines, cases = [], []
    for i in range(n):
        hist, beta = _gen_history(rng, max_T=6, max_n=8)
        hist = [list(b) for b in hist]
        if i % 8 == 0:
            for b in hist:
                b[2] = []
            c.count("all_batches_empty")
        else:
            k = rng.randrange(len(hist) + 1)
            hist.insert(k, [rng.random(), rng.uniform(-5, 5), []])
            if rng.random() < 0.3:
                hist.insert(rng.randrange(len(hist) + 1), [0.0, 0.0, []])
            c.count("first_batch_empty" if not hist[0][2] else "inner_batch_empty")
        hist = [tuple(b) for b in hist]
        for nrm in (False, True):
            lines.append(_op(hist, beta, nrm))
            cases.append((hist, beta, nrm, _impl(hist, beta, nrm)))
        c.case((_hist_json(hist), f2hex(beta)), False)
    res = drv.batch(lines)
    for (hist, beta, nrm, impl), ans in zip(cases, res):
        _compare(c, hist, beta, nrm, impl, ans)
        c.count("evaluations")
    return c


def _quiet():
    return contextlib.redirect_stdout(io.StringIO())


def _sampler_runs(tier):
    from .witnesses import _mk_sampler
    specs = [dict(seed=2, n_dim=2, n_particles=32, n_total=128, off=0.0),
             dict(seed=5, n_dim=1, n_particles=16, n_total=64, off=1000.0),
             dict(seed=7, n_dim=3, n_particles=24, n_total=96, off=-250000.0),
             dict(seed=11, n_dim=2, n_particles=20, n_total=60, off=37.5)]
    if tier != "quick":
        specs += [dict(seed=100 + i, n_dim=1 + i % 3, n_particles=16 + 8 * (i % 4), n_total=64 + 32 * (i % 3),
                       off=[0.0, 1e4, -1e6, 3.0][i % 4]) for i in range(20)]
    for sp in specs:
        off = sp["off"]

        def like(x, off=off):
            return off - 0.5 * float(np.sum(x ** 2))
        with _quiet(), warnings.catch_warnings():
            warnings.simplefilter("ignore")
            np.random.seed(sp["seed"])
            s = _mk_sampler(clustering=False, n_dim=sp["n_dim"], n_particles=sp["n_particles"], log_likelihood=like)
            s.run(n_total=sp["n_total"], progress=False)
            out = s.posterior(return_logw=True, trim_importance_weights=False)
            ev = s.evidence()
        st = s.state
        T = st.get_history_length()
        betas = [float(b) for b in np.asarray(st.get_history("beta")).ravel()]
        zs = [float(z) for z in np.asarray(st.get_history("logz")).ravel()]
        hist = [(betas[t], zs[t], [float(x) for x in st.get_history("logl", index=t)]) for t in range(T)]
        yield sp, s, hist, [float(x) for x in out[-1]], float(ev[0]), [float(x) for x in out[2]]


def _corr_sampler(tier, drv):
    c = Corr("sampler-T", "toleranced Float (1e-9*(1+scale))")
    lines, cases = [], []
    try:
        for sp, s, hist, logw, logz, logl in _sampler_runs(tier):
            flat = [x for _, _, ls in hist for x in ls]
            if flat != logl:
                c.disagree(what="posterior() logl is not the flat stored history", spec=sp)
            # posterior()/evidence() of the finished run: beta = 1, normalised
            lines.append(_op(hist, 1.0, True))
            cases.append((hist, 1.0, True, (logw, logz), {"via": "Sampler.posterior/evidence", "spec": sp}))
            # the reweighting step's view: other targets on the same real state object
            for beta, nrm in ((0.0, True), (0.5, False), (hist[len(hist) // 2][0], True)):
                with warnings.catch_warnings():
                    warnings.simplefilter("ignore")
                    w, z = s.state.compute_logw_and_logz(beta, normalize=nrm)
                lines.append(_op(hist, beta, nrm))
                cases.append((hist, beta, nrm, ([float(x) for x in w], float(z)), {"via": "sampler.state", "spec": sp}))
            c.case((_hist_json(hist),), _nontrivial(hist))
            c.count(f"T={len(hist)}")
            c.count("runs")
    except Exception as e:  # the sampler itself failing is not this property's business
        c.error = f"real Sampler run failed: {type(e).__name__}: {e}"
        return c
    res = drv.batch(lines)
    for (hist, beta, nrm, impl, extra), ans in zip(cases, res):
        _compare(c, hist, beta, nrm, impl, ans, extra={"via": extra["via"]})
        c.count("evaluations")
    if cases:
        hist, beta, nrm, impl, extra = cases[0]
        c.sample({"spec": extra["spec"], "T": len(hist), "betas": [b for b, _, _ in hist], "logz_t": [z for _, z, _ in hist],
                  "evidence()": impl[1], "model": res[0].split(" ")[-1], "model_logz": hex2f(res[0].split(" ")[-1])})
    return c


def correspond(tier):
    drv = common.Driver()
    return [_corr_generated(tier, drv), _corr_degenerate(tier, drv), _corr_sampler(tier, drv)]


# ------------------------------------------------------------------ property oracle on the real code
PREC = 60


def _D(x):
    return Decimal(float(x))


def _ref(hist, beta):
    """60-digit reference of the statement: raw logw per particle, logz, normalised logw"""
    with localcontext() as ctx:
        ctx.prec = PREC
        ctx.Emax = MAX_EMAX
        ctx.Emin = MIN_EMIN
        for tr in list(ctx.traps):
            ctx.traps[tr] = False
        n = [len(ls) for _, _, ls in hist]
        N = sum(n)
        lw = [(Decimal(nt) / Decimal(N)).ln() for nt in n]
        B = _D(beta)
        raw = []
        cut = Decimal(-200)

        def lse(args):
            m = max(args)
            tot = Decimal(0)
            for a in args:
                d = a - m
                if d > cut:
                    tot += d.exp()
            return m + tot.ln()
        for _, _, ls in hist:
            for l in ls:
                L = _D(l)
                args = [_D(bt) * L - _D(zt) + w for (bt, zt, _), w in zip(hist, lw)]
                raw.append(B * L - lse(args))
        tot = lse(raw)
        logz = tot - Decimal(N).ln()
        norm = [r - tot for r in raw]
        return [float(r) for r in raw], float(logz), [float(x) for x in norm], raw, logz


def oracle(hist, beta, checks=("formula", "sum", "perm", "shift", "finite", "uniform"), shift_c=None, perm=None):
    """the property evaluated on the real code; returns a description of the violation, or None"""
    if not hist:
        w, z = _impl([], beta, True)
        if w or z != -math.inf:
            return f"empty history returned ({w}, {z!r}), want ([], -inf)"
        return None
    per, glob = _scales(hist, beta)
    rw, rz = _impl(hist, beta, False)
    nw, nz = _impl(hist, beta, True)
    N = sum(len(ls) for _, _, ls in hist)
    if len(rw) != N or len(nw) != N:
        return f"{len(rw)}/{len(nw)} log-weights returned for {N} stored particles"
    if "finite" in checks:
        bad = [i for i, x in enumerate(rw + nw) if not math.isfinite(x)]
        if bad or not math.isfinite(rz) or not math.isfinite(nz):
            return f"non-finite output for finite inputs (first bad index {bad[:1]}, logz {rz!r})"
    if "formula" in checks:
        ref_raw, ref_z, ref_norm, _, _ = _ref(hist, beta)
        for s in range(N):
            if not abs(rw[s] - ref_raw[s]) <= TOL * (1 + per[s]):
                return (f"formula: particle {s}: unnormalised logw {rw[s]!r}, statement's formula gives {ref_raw[s]!r} "
                        f"(scale {per[s]:.3g})")
        for z, nm in ((rz, "normalize=False"), (nz, "normalize=True")):
            if not abs(z - ref_z) <= TOL * (1 + glob):
                return f"evidence: logz ({nm}) {z!r}, log of mean unnormalised weight is {ref_z!r} (scale {glob:.3g})"
        for s in range(N):
            if not abs(nw[s] - ref_norm[s]) <= TOL * (1 + glob):
                return f"formula: particle {s}: normalised logw {nw[s]!r}, reference {ref_norm[s]!r} (scale {glob:.3g})"
    if "sum" in checks:
        tot = math.fsum(math.exp(x) for x in nw)
        if not abs(tot - 1.0) <= TOL * (1 + glob):
            return f"sum: normalised weights sum to {tot!r} (scale {glob:.3g})"
    if "perm" in checks and len(hist) >= 2:
        order = perm if perm is not None else list(reversed(range(len(hist))))
        h2 = [hist[i] for i in order]
        rw2, rz2 = _impl(h2, beta, False)
        nw2, _ = _impl(h2, beta, True)
        off = [0]
        for _, _, ls in hist:
            off.append(off[-1] + len(ls))
        pos = 0
        for i in order:
            for k in range(len(hist[i][2])):
                s = off[i] + k
                if not abs(rw2[pos] - rw[s]) <= TOL * (1 + per[s]):
                    return (f"permutation {order}: particle {k} of iteration {i} has unnormalised logw {rw[s]!r} in the stored "
                            f"order and {rw2[pos]!r} after re-ordering the iterations")
                if not abs(nw2[pos] - nw[s]) <= TOL * (1 + glob):
                    return (f"permutation {order}: particle {k} of iteration {i} has normalised logw {nw[s]!r} / {nw2[pos]!r}")
                pos += 1
        if not abs(rz2 - rz) <= TOL * (1 + glob):
            return f"permutation {order}: logz {rz!r} became {rz2!r}"
    if "shift" in checks:
        c = shift_c if shift_c is not None else 1000.0
        h3 = [(b, z + b * c, [l + c for l in ls]) for b, z, ls in hist]
        _, g3 = _scales(h3, beta)
        sc = max(glob, g3, abs(c))
        rw3, rz3 = _impl(h3, beta, False)
        nw3, _ = _impl(h3, beta, True)
        for s in range(N):
            if not abs(rw3[s] - (rw[s] + beta * c)) <= TOL * (1 + sc):
                return (f"shift c={c!r}: particle {s}: unnormalised logw {rw[s]!r} -> {rw3[s]!r}, expected change beta*c={beta * c!r}")
            if not abs(nw3[s] - nw[s]) <= TOL * (1 + sc):
                return f"shift c={c!r}: particle {s}: normalised logw changed {nw[s]!r} -> {nw3[s]!r}"
        if not abs(rz3 - (rz + beta * c)) <= TOL * (1 + sc):
            return f"shift c={c!r}: logz {rz!r} -> {rz3!r}, expected change beta*c={beta * c!r}"
    if "uniform" in checks and beta == 0 and all(b == 0 for b, _, _ in hist):
        if max(nw) - min(nw) > TOL * (1 + glob) or not abs(nw[0] + math.log(N)) <= TOL * (1 + glob):
            return f"uniform: beta=0 and all beta_t=0 but normalised log-weights range over [{min(nw)!r}, {max(nw)!r}] (want -log N = {-math.log(N)!r})"
    return None


def _fixed_candidates():
    big = 1e6
    return [
        ([(0.0, 0.0, [-1.0, -2.0]), (1.0, -0.5, [-0.3])], 1.0),
        ([(0.0, 0.0, [5.0, -7.0]), (0.0, 3.0, [1e6])], 0.0),
        ([(0.0, 0.0, [-big, big, 0.0]), (0.5, 7.0, [big]), (1.0, -1e5, [-big, big - 1, big])], 1.0),
        ([(1.0, 1e5, [big] * 3), (0.0, -1e5, [-big])], 0.5),
        ([(0.25, 2.0, [1.0, 2.0, 3.0, 4.0, 5.0])], 1.0),
        ([(1.0, -3.0, [0.5]), (0.0, 0.0, [0.1, 0.2, 0.3, 0.4, 0.5, 0.6, 0.7]), (0.5, -1.0, [0.9, 1.1])], 0.3),
    ]


def _fail_record(msg, hist, beta, shift_c, perm):
    return {"what": msg, "hist": _hist_json(hist), "beta": beta, "beta_hex": f2hex(beta), "shift_c": shift_c, "perm": perm,
            "history_readable": [[b, z, ls] for b, z, ls in hist][:4]}


def search(tier, hints):
    found = []
    cands = []
    for h in hints:
        if "hist" in h and "beta_hex" in h:
            try:
                cands.append((_hist_from_json(h["hist"]), hex2f(h["beta_hex"])))
            except Exception:  # noqa
                pass
    hinted = cands[:10]
    rng = common.rng_for("C04.search")
    # readable inputs first (fixed + small generated), then the disagreeing inputs of the correspondence, then the full generator
    cands = _fixed_candidates() + [_gen_history(rng, max_T=4, max_n=6) for _ in range(60)] + hinted
    for i in range(400 if tier == "quick" else 5000):
        if i % 3:
            cands.append(_gen_history(rng, max_T=4, max_n=6))
        else:
            cands.append(_gen_history(rng))
    seen = set()
    for hist, beta in cands:
        k = common.digest((_hist_json(hist), f2hex(beta)))
        if k in seen:
            continue
        seen.add(k)
        shift_c = rng.choice([1.0, -3.5, 1000.0, -1e5, 1e6])
        perm = list(range(len(hist)))
        rng.shuffle(perm)
        if perm == sorted(perm):
            perm.reverse()
        try:
            msg = oracle(hist, beta, shift_c=shift_c, perm=perm)
        except Exception as e:  # noqa
            msg = f"raised {type(e).__name__}: {e}"
        if msg:
            found.append(_fail_record(msg, hist, beta, shift_c, perm))
            if len(found) >= 5:
                break
    # prefer the smallest failing history as the reported one
    found.sort(key=lambda f: sum(len(b[2]) for b in f["hist"]) + len(f["hist"]))
    return found


def replay(obj):
    f = obj.get("failing_input", obj)
    if "witness" in f.get("replay", {}):
        from . import witnesses
        return witnesses.ALL[f["replay"]["witness"]]()
    hist = _hist_from_json(f["hist"])
    beta = hex2f(f["beta_hex"])
    try:
        msg = oracle(hist, beta, shift_c=f.get("shift_c"), perm=f.get("perm"))
    except Exception as e:  # noqa
        msg = f"raised {type(e).__name__}: {e}"
    return {"fails": msg is not None, "detail": msg}
