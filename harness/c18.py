"""C18 — invalid configurations are rejected when the sampler is constructed; valid ones run to completion."""
import concurrent.futures
import contextlib
import inspect
import io
import itertools
import multiprocessing
import os
import random
import re
import shutil
import tempfile
import time
import traceback
import warnings
from fractions import Fraction
from pathlib import Path

import numpy as np

from . import common
from . import c18_path
from .common import Corr, frac2s

ID = "C18"
LEAN_MODULES = ["TempestVerif.Props.C18", "TempestVerif.Props.C18Path"]
RULE = ("regime X (exact, no arithmetic): configurations over the value universe V of Model/ConfigSpec.lean "
        "(int, float incl. inf/nan, bool, str, None, list, callable, Path, object()) — (a) one option at a time, every option x "
        "every pool value (0, 1, -1, True, 1.0, '1', None, [], [d], [-1], [0,0], nested/unhashable lists, ...), (b) pairs of "
        "simultaneous violations, (c) random multi-option configs, (d) the periodic x reflective grid for n_dim in {1,2,3,True} — "
        "go through the REAL tempest.Sampler(...) (and SamplerConfig(...)) with a COUNTING likelihood and through the model "
        "driver evaluating the rule table regenerated from /repo. Compared: outcome class (accept / rejected by the "
        "configuration checks / other exception type), the ordered list of error lines against the generated message "
        "templates, the stored defaults (n_particles, n_steps, n_max_steps, output_dir, output_label), the clusterer wiring "
        "(max_iterations, min_points, threshold) and ZERO likelihood calls. Non-trivial = at least one option differs from "
        "the default valid configuration. Suite covering-array-runs: every row of the pairwise (quick) / 3-wise (thorough) "
        "covering array of the option lattice — the array itself is checked in Lean — is constructed and run on the real "
        "sampler; it must finish with 1-beta < 1e-4 and ESS >= n_total. "
        "DOWNSTREAM of the validation (harness/c18_path.py): suite ctx-semantics-X — every context tag of the use-site table "
        "regenerated from /repo (G8) x every pool value, the model's semantics of that context vs Python/numpy/the real boundary "
        "functions executing it; suite glue-runs — accepted configurations (documented-valid one-factor variations, every kind of "
        "value acceptance does not exclude — bools as counts, inf/nan targets, cluster_every 0/None, odd pools, seeds, dtypes, "
        "non-callable wrapped likelihood — and random pairs): the model's prediction for a complete run (total / certainly "
        "raises <kinds>) vs the real Sampler(...).run(n_total=32); suite name-dispatch — Resampler.run and mcmc.parallel_mcmc "
        "called directly with accepted and non-accepted names; suite foreign-values — numpy scalars, tuples, sets, ranges, arrays "
        "as option values, oracle only: rejected at construction or accepted and run() completes.")
MODELLED = ["Python's semantics of isinstance / <= / `in` / set() / all() / float() on the value universe V is written by hand in "
            "Model/ConfigSpec.lean (cross-checked here on every pool value); values outside V (numpy arrays, tuples, user classes "
            "with custom __eq__/__le__) are not covered",
            "strings are restricted to the pool below (digit-only strings are the only float()-parsable ones in it)",
            "'every valid combination runs to completion' is established by EXECUTION of the covering array only "
            "(numerical robustness is not provable in the model); the array's coverage is proved in Lean",
            "FunctionWrapper is always callable, so a non-callable log_likelihood is NOT rejected by Sampler(...) "
            "(it is by SamplerConfig(...)); not one of the constraints listed in the statement — reported as a note",
            "downstream of the validation the model is a TABLE of syntactic use sites of option values (regenerated: G8) with a "
            "hand-written semantics per context (Model/CtorPath.lean, tied by ctx-semantics-X); values computed FROM options are "
            "followed only into `int(...)` and through the two clusterer keywords; control flow on run-time state is `unknown` "
            "except four facts (progress bar installed, warm-up then annealing both occur, first iteration, likelihood returns "
            "blobs)",
            "multiprocess.Pool(k) for an int pool k > 1 is not executed by ctx-semantics-X (modelled: defined for k >= 1)",
            "dtype strings: a finite list of good / bad ones; any other string is `unmodelled`"]
ASSUMPTIONS = ["glue theorems: the documented type of every option is the table `docTy` of Props/C18Path.lean (genuine ints for "
               "counts, finite positive targets, cluster_every >= 1, pool None | int | object with .map, random_state None or a "
               "32-bit unsigned int, blobs_dtype None or a listed dtype string, log_likelihood_kwargs None — the universe has no "
               "dict)",
               "every payload-free constructor of V denotes one fixed Python object (shared function, Path('p'), object(), one nan)",
               "since /repo b8d82fc a Python bool is not a dimension / particle count / boundary index and the two targets must "
               "be finite: ValidListed, valid_listed and the regenerated rules agree (the earlier assumptions 'bools are ints' and "
               "'nan is accepted' are gone); `True` is still a valid ess_ratio / volume_variation (the number 1)",
               "math.isfinite(n) for an int beyond the double range raises OverflowError in Python; the model answers True"]
TRUSTED_EXTRA = ["translate/g2_validate.py (AST → rule table); cross-checked dynamically by regime X",
                 "translate/g8_ctorpath.py (AST data flow → use-site table, dispatch chains); cross-checked dynamically by glue-runs / "
                 "name-dispatch"]

# Known finding registered for this property (known_findings.json, witness F24_degenerate_cluster_singular): a proposal mode
# fitted from too few distinct particles has a singular covariance and `ModeStatistics.__init__` (np.linalg.inv / cholesky,
# tempest/modes.py) raises LinAlgError — a few percent of the runs with n_particles <= 8.  Covering rows failing with exactly
# this signature are listed in evidence (stats.rows_matching_known_F24), not alarms — unless they become frequent
# (> KNOWN_MAX_FRACTION of the runs).  Exceptions raised inside tempest/student.py (the repaired F23 EM collapse) are NOT
# expected any more and are ordinary disagreements.
F24_ID = "F24_degenerate_cluster_singular"
KNOWN_MAX_FRACTION = 0.25

FIELDS = ["prior_transform", "log_likelihood", "n_dim", "n_particles", "ess_ratio", "volume_variation",
          "log_likelihood_args", "log_likelihood_kwargs", "vectorize", "blobs_dtype", "periodic", "reflective", "pool",
          "clustering", "normalize", "cluster_every", "split_threshold", "n_max_clusters",
          "sample", "n_steps", "n_max_steps", "resample", "output_dir", "output_label", "random_state"]
HEAD_FALLBACK = "Configuration validation failed:"
EARLY_FALLBACK = ["n_dim must be int, got {}"]


def translators():
    from translate import g2_validate
    from translate import g8_ctorpath
    out = [g2_validate.generate_rules(), g2_validate.generate_ctor()]
    out.append(g8_ctorpath.generate())
    out.append(generate_covering())
    return out


# =================================================================== the value universe
def I(n):
    return ("i", int(n))


def F(q):
    return ("f", q if isinstance(q, str) else Fraction(q))


def B(b):
    return ("b", bool(b))


def S(s):
    return ("s", s)


def L(*xs):
    return ("l", tuple(xs))


NONE, CALL, PATH, OTHER, NESTED = ("n",), ("c",), ("p",), ("o",), ("L",)


def _shared_callable(x):     # the one object `c` denotes outside the two function options
    return x


_OTHER = object()
_NAN = float("nan")
_PATH = Path("p")


def enc(v):
    k = v[0]
    if k == "i":
        return f"i:{v[1]}"
    if k == "f":
        return "f:" + (v[1] if isinstance(v[1], str) else frac2s(v[1]))
    if k == "b":
        return "b:1" if v[1] else "b:0"
    if k == "s":
        return "s:" + v[1]
    if k == "l":
        return "l:" + ",".join(enc(x) for x in v[1])
    return k           # n c p o L


def py(v):
    k = v[0]
    if k == "i":
        return v[1]
    if k == "f":
        if isinstance(v[1], str):
            return {"inf": float("inf"), "-inf": float("-inf"), "nan": _NAN}[v[1]]
        x = float(v[1])
        assert Fraction(x) == v[1], "float pool values must be exactly representable"
        return x
    if k == "b":
        return v[1]
    if k == "s":
        return v[1]
    if k == "n":
        return None
    if k == "l":
        return [py(x) for x in v[1]]
    if k == "L":
        return [0]
    if k == "c":
        return _shared_callable
    if k == "p":
        return _PATH
    if k == "o":
        return _OTHER
    raise ValueError(v)


def tok(obj):
    """token of a value read back from the real objects"""
    if obj is None:
        return "n"
    if isinstance(obj, bool):
        return "b:1" if obj else "b:0"
    if isinstance(obj, (int, np.integer)):
        return f"i:{int(obj)}"
    if isinstance(obj, (float, np.floating)):
        return "f:" + fv(float(obj))
    if isinstance(obj, str):
        return "s:" + obj
    if isinstance(obj, Path):
        return "p"
    if isinstance(obj, list):
        return "l:" + ",".join(tok(x) for x in obj)
    return "?" + type(obj).__name__


def fv(x):
    if x != x:
        return "nan"
    if x in (float("inf"), float("-inf")):
        return "inf" if x > 0 else "-inf"
    return frac2s(Fraction(x))


SCALARS = [I(0), I(1), I(-1), I(2), I(3), I(5), I(16), F(0), F(1), F(Fraction(-1, 2)), F(Fraction(5, 2)), F(2), F("inf"), F("-inf"),
           F("nan"), B(True), B(False), S(""), S("1"), S("0"), S("a"), S("ab"), S("tpcn"), S("rwm"), S("mult"), S("syst"), S("f8"),
           NONE, CALL, PATH, OTHER]
LISTS = [L(), L(I(0)), L(I(1)), L(I(2)), L(I(3)), L(I(-1)), L(I(0), I(0)), L(I(0), I(1)), L(I(1), I(2)), L(B(True)), L(B(False), I(2)),
         L(F(1)), L(F(Fraction(5, 2))), L(S("a")), L(NONE), L(NESTED), L(CALL), L(I(0), S("a")), L(S("a"), I(3)), L(I(0), NESTED),
         L(I(5), NESTED), L(F("nan")), L(I(1), F(1)), L(OTHER)]
POOL = SCALARS + LISTS

# values that violate the constraint of the given option (used for pairs of simultaneous violations)
INVALID = {
    "n_dim": [I(0), I(-1), F(1), S("1"), NONE, L(I(3)), B(False), B(True)],
    "n_particles": [I(0), I(-1), F(1), F(Fraction(5, 2)), B(False), B(True), S("1"), L()],
    "ess_ratio": [I(0), I(-1), F(Fraction(-1, 2)), F(0), B(False), S("1"), NONE, F("-inf"), F("inf"), F("nan")],
    "volume_variation": [I(0), F(Fraction(-1, 2)), B(False), S("1"), L(), CALL, F("inf"), F("nan")],
    "sample": [S("x"), S(""), I(1), NONE, S("mult")],
    "resample": [S("x"), S("tpcn"), I(0), NONE, L()],
    "vectorize+blobs": [(B(True), S("f8")), (I(1), I(0)), (S("a"), L())],
    "periodic": [L(I(3)), L(I(-1)), L(F(1)), L(S("a")), I(5), S("ab"), L(NESTED), L(B(True)), L(I(0), B(False))],
    "reflective": [L(I(3)), L(I(-1)), L(NONE), L(I(0), I(7)), F(1), L(NESTED)],
    "overlap": [(L(I(0), I(1)), L(I(1))), (L(I(0)), L(B(False))), (L(I(2)), L(I(2), I(0))), (L(F(1)), L(I(1)))],
    "prior_transform": [I(5), NONE, S("a")],
    "output_dir": [I(5), L(), CALL],
    "output_label": [I(5), PATH, L()],
    "n_steps": [S("a"), L(), CALL],
    "n_max_steps": [S("a"), OTHER],
    "split_threshold": [I(0), I(-1), F(Fraction(-1, 2)), B(False), S("a"), NONE],
    "n_max_clusters": [S("a"), L(), CALL],
}


# =================================================================== the real constructor
class Counter:
    def __init__(self):
        self.like = 0
        self.prior = 0


def _functions(counter):
    def prior(u):
        counter.prior += 1
        return 8.0 * u - 4.0

    def like(x):
        counter.like += 1
        return -0.5 * float(np.sum((np.asarray(x) - 0.5) ** 2)) * 3.0
    return prior, like


_TEMPLATES = None


def templates():
    """(head line, early-raise templates, rule templates) from the translator; fallbacks if it is unavailable"""
    global _TEMPLATES
    if _TEMPLATES is None:
        from translate import g2_validate
        try:
            t = g2_validate.extract_rules()
            early = [s[2] for s in t["pre"] if s[0] == "raiseIf"]
            _TEMPLATES = (t["head"], early, [tag for _, tag in t["rules"]], True)
        except Exception:  # noqa  (unavailable: compare classes and line counts only)
            _TEMPLATES = (HEAD_FALLBACK, EARLY_FALLBACK, [], False)
    return _TEMPLATES


def _tpl_re(t):
    return re.compile("".join(".*" if p == "{}" else re.escape(p) for p in re.split(r"(\{\})", t)), re.S)


def classify(exc):
    """real exception -> ('reject', [lines]) | ('raise', TypeName)"""
    head, early, _, _ = templates()
    if type(exc) is ValueError:
        msg = str(exc)
        if msg.startswith(head):
            body = msg[len(head):]
            lines = body.split("\n  - ")[1:] if body.startswith("\n  - ") else [body]
            return "reject", lines
        for t in early:
            if _tpl_re(t).fullmatch(msg):
                return "reject", [msg]
    return "raise", type(exc).__name__


def real_kwargs(cfg, counter):
    prior, like = _functions(counter)
    kw = {}
    for f, v in cfg.items():
        if f == "prior_transform" and v == CALL:
            kw[f] = prior
        elif f == "log_likelihood" and v == CALL:
            kw[f] = like
        else:
            kw[f] = py(v)
    return kw


def real_construct(cfg, level="sampler"):
    """-> dict(cls, lines|name, stored, like_calls, prior_calls)"""
    import tempest
    from tempest.config import SamplerConfig
    counter = Counter()
    kw = real_kwargs(cfg, counter)
    if level == "config":        # SamplerConfig directly: give every option explicitly (Sampler's own defaults)
        sig = inspect.signature(tempest.Sampler.__init__)
        for name, p in sig.parameters.items():
            if name != "self" and name not in kw and p.default is not inspect.Parameter.empty:
                kw[name] = p.default
    out = {}
    try:
        with warnings.catch_warnings(), contextlib.redirect_stdout(io.StringIO()):
            warnings.simplefilter("ignore")
            if level == "config":
                conf = SamplerConfig(**kw)
                clusterer = "skip"
            else:
                s = tempest.Sampler(**kw)
                conf = s._core.config
                clusterer = s._core.trainer.clusterer
        stored = (f"np={tok(conf.n_particles)} ns={tok(conf.n_steps)} nms={tok(conf.n_max_steps)} "
                  f"od={tok(conf.output_dir)} ol={tok(conf.output_label)}")
        if clusterer is None:
            stored += " mi=- mp=- th=-"
        elif clusterer != "skip":
            stored += f" mi={tok(clusterer.max_iterations)} mp={tok(clusterer.min_points)} th={fv(float(clusterer.threshold_modifier))}"
        out = {"cls": "accept", "stored": stored}
    except Exception as e:  # noqa
        k, d = classify(e)
        out = {"cls": k, "lines": d} if k == "reject" else {"cls": "raise", "name": d}
        out["message"] = str(e)[:300]
    out["like_calls"] = counter.like
    out["prior_calls"] = counter.prior
    return out


def op_line(cfg, level="sampler"):
    return ("cfg.construct " if level == "sampler" else "cfg.eval ") + " ".join(f"{f}={enc(cfg[f])}" for f in FIELDS if f in cfg)


def compare(real, ans):
    """model answer line vs real outcome -> None if they agree, else a description"""
    _, _, _, have_tpl = templates()
    if ans.startswith("accept"):
        if real["cls"] != "accept":
            return "model accepts, real: " + real["cls"]
        if ans != "accept " + real["stored"]:
            return f"stored values differ: real `{real['stored']}`"
        return None
    if ans.startswith("reject:"):
        if real["cls"] != "reject":
            return "model rejects, real: " + real["cls"] + (":" + real.get("name", "") if real["cls"] == "raise" else "")
        tags = ans[len("reject:"):].split("|")
        if len(tags) != len(real["lines"]):
            return f"{len(tags)} model errors vs {len(real['lines'])} real error lines"
        if have_tpl:
            for t, line in zip(tags, real["lines"]):
                if not _tpl_re(t).fullmatch(line):
                    return f"error line `{line[:80]}` does not match the rule `{t}`"
        return None
    if ans.startswith("raise:"):
        if real["cls"] != "raise" or real["name"] != ans[len("raise:"):]:
            return "model " + ans + ", real: " + real["cls"] + (":" + real.get("name", "") if real["cls"] == "raise" else "")
        return None
    return "model answered " + ans


BASE = {"prior_transform": CALL, "log_likelihood": CALL, "n_dim": I(3)}


def gen_cases(tier):
    """-> list of (kind, cfg) — deterministic given VERIF_SEED"""
    rng = common.rng_for("C18.cases")
    cases = [("base", dict(BASE))]
    # (a) one option at a time x every pool value
    for f in FIELDS:
        for v in POOL:
            c = dict(BASE)
            c[f] = v
            cases.append(("one-factor", c))
    for v in POOL:
        cases.append(("one-factor", dict(BASE, n_dim=v, n_particles=I(8))))
    # n_dim-dependent boundary of the index rules: [d-1] valid, [d] invalid, for d = 1, 2, True
    for d in (I(1), I(2), B(True), I(5)):
        dv = int(py(d))
        for f in ("periodic", "reflective"):
            for idx in (L(I(dv - 1)), L(I(dv)), L(I(0), I(dv)), L(I(-1)), L()):
                c = dict(BASE, n_dim=d)
                c[f] = idx
                cases.append(("index-boundary", c))
    # (b) pairs of simultaneous violations
    keys = sorted(INVALID)

    def apply(c, key, val):
        if key == "vectorize+blobs":
            c["vectorize"], c["blobs_dtype"] = val
        elif key == "overlap":
            c["periodic"], c["reflective"] = val
        else:
            c[key] = val
    pairs = [(a, b) for a, b in itertools.combinations(keys, 2)
             if not ({a, b} <= {"periodic", "reflective", "overlap"} and "overlap" in (a, b))]
    n_pairs = 700 if tier == "quick" else 6000
    for _ in range(n_pairs):
        a, b = rng.choice(pairs)
        c = dict(BASE)
        apply(c, a, rng.choice(INVALID[a]))
        apply(c, b, rng.choice(INVALID[b]))
        if rng.random() < 0.3:     # a third one
            k3 = rng.choice(keys)
            if k3 not in (a, b) and not ({k3, a, b} & {"overlap"} and {k3, a, b} & {"periodic", "reflective"}):
                apply(c, k3, rng.choice(INVALID[k3]))
        cases.append(("violation-pair", c))
    # (c) random multi-option configurations (mostly valid values with a few wild ones)
    valid_vals = {
        "n_dim": [I(1), I(2), I(3), I(5), B(True)], "n_particles": [NONE, I(1), I(8), I(16), B(True)],
        "ess_ratio": [F(2), I(1), F(Fraction(5, 2)), B(True), F("inf"), F("nan")],
        "volume_variation": [NONE, F(Fraction(1, 2)), I(1), B(True)],
        "vectorize": [B(False), B(True), I(0), L()], "blobs_dtype": [NONE, S("f8")],
        "periodic": [NONE, L(), L(I(0)), L(B(False)), S("")], "reflective": [NONE, L(), L(I(0)), L(I(1)), L(I(2))],
        "pool": [NONE, I(1), I(2), OTHER], "clustering": [B(True), B(False), I(0), S("a"), L()],
        "normalize": [B(True), B(False)], "cluster_every": [I(1), I(2), I(0), NONE],
        "split_threshold": [F(1), F(Fraction(1, 2)), I(2), B(True), S("1"), F("nan"), F("inf")],
        "n_max_clusters": [NONE, I(1), I(2), I(0), I(-1), F(Fraction(5, 2)), B(True)],
        "sample": [S("tpcn"), S("rwm")], "resample": [S("mult"), S("syst")],
        "n_steps": [NONE, I(1), I(0), I(-1), F(Fraction(5, 2)), B(True), F("nan"), F("inf")],
        "n_max_steps": [NONE, I(2), I(0), F(Fraction(1, 2)), B(False), F("-inf")],
        "output_dir": [NONE, S("a"), PATH], "output_label": [NONE, S("ab")], "random_state": [NONE, I(0), I(5)],
        "log_likelihood_args": [NONE, L()], "log_likelihood_kwargs": [NONE],
    }
    n_rand = 600 if tier == "quick" else 8000
    for _ in range(n_rand):
        c = dict(BASE)
        for f, vals in valid_vals.items():
            r = rng.random()
            if r < 0.35:
                c[f] = rng.choice(vals)
            elif r < 0.40:
                c[f] = rng.choice(POOL)
        cases.append(("random-multi", c))
    # (d) periodic x reflective grid
    grid_vals = [NONE, L(), L(I(0)), L(I(1)), L(I(2)), L(I(0), I(1)), L(I(0), I(0)), L(B(True)), L(B(False)), L(F(1)), L(S("a")),
                 L(NESTED), L(I(0), NESTED), S(""), S("ab"), S("b"), I(5), L(I(-1)), L(I(3)), L(CALL), L(F("nan")), L(NONE), L(PATH)]
    grid = list(itertools.product(grid_vals, grid_vals))
    if tier == "quick":
        grid = rng.sample(grid, 300)
    for p, r in grid:
        c = dict(BASE, n_dim=rng.choice([I(1), I(2), I(3), B(True)]), periodic=p, reflective=r)
        cases.append(("index-grid", c))
    return cases


def correspond(tier):
    drv = common.Driver()
    out = []
    cases = gen_cases(tier)
    for level in ("sampler", "config"):
        c = Corr("constructor-X" if level == "sampler" else "samplerconfig-X",
                 "exact: outcome class, ordered error lines vs generated templates, stored defaults, wiring, likelihood calls = 0")
        use = cases if level == "sampler" else [x for i, x in enumerate(cases) if i % 3 == 0 or x[0] in ("base",)]
        if level == "config":
            # the rule SamplerConfig checks but Sampler cannot reach: a non-callable log_likelihood
            for v in SCALARS:
                use = use + [("one-factor", dict(BASE, log_likelihood=v))]
        lines = [op_line(cfg, level) for _, cfg in use]
        try:
            answers = drv.batch(lines)
        except common.LeanError as e:
            c.error = str(e)[:500]
            out.append(c)
            continue
        for (kind, cfg), line, ans in zip(use, lines, answers):
            real = real_construct(cfg, level)
            c.case(sorted((f, enc(v)) for f, v in cfg.items()), cfg != BASE)
            c.count(kind)
            c.count("real:" + real["cls"] + (":" + real["name"] if real["cls"] == "raise" else ""))
            why = compare(real, ans)
            if why is None and real["like_calls"] != 0:
                why = f"{real['like_calls']} likelihood call(s) during construction"
            if why is None and real["prior_calls"] != 0:
                why = f"{real['prior_calls']} prior_transform call(s) during construction"
            if why is not None:
                c.disagree(input=line, why=why, impl=real, model=ans, cfg={f: enc(v) for f, v in cfg.items()}, level=level)
            elif real["cls"] != "accept":
                c.sample({"op": line, "model": ans, "real": real.get("message", "")[:160]}, cap=4)
        out.append(c)
    out.append(run_covering(tier, drv))
    out += c18_path.correspond(_self(), drv, tier)
    return out


def _self():
    import sys
    return sys.modules[__name__]


# =================================================================== covering array of the valid option lattice
class PoolLike:
    """a pool-like object: anything with .map"""

    def map(self, f, xs):
        return list(map(f, xs))

    def __reduce__(self):
        # like multiprocessing / multiprocess pools: a pool cannot be pickled, so anything that still
        # references it when the sampler is pickled (save_every) makes the save fail
        raise NotImplementedError("pool objects cannot be passed between processes or pickled")


def _target(x):
    return -0.5 * float(np.sum((x - 0.5) ** 2)) * 3.0


def _target_vec(X):
    return -0.5 * np.sum((X - 0.5) ** 2, axis=1) * 3.0


def _target_blob(x):
    return _target(x), float(x[0]) * 2.0 + 1.0


def _prior(u):
    return 8.0 * u - 4.0


# (name, [(label, value)]) — value semantics in row_kwargs
def factors(tier):
    # the same lattice in both tiers (quick: pairwise, thorough: 3-wise).  "every combination of valid option values runs to
    # completion" quantifies over run()'s own arguments too: save_every, resume_state_path, progress are factors like the
    # constructor options, and an integer pool of real worker processes is a value like any other
    pool = [("none", None), ("one", 1), ("two_procs", 2), ("poollike", "poollike")]
    return [
        ("kernel", [("tpcn", "tpcn"), ("rwm", "rwm")]),
        ("resample", [("mult", "mult"), ("syst", "syst")]),
        ("clustering", [("on", True), ("off", False)]),
        ("normalize", [("on", True), ("off", False)]),
        ("cluster_every", [("1", 1), ("2", 2), ("3", 3)]),
        ("n_max_clusters", [("none", None), ("1", 1), ("2", 2)]),
        ("split_threshold", [("1.0", 1.0), ("0.5", 0.5), ("2.0", 2.0)]),
        ("metric", [("ess2", ("ess", 2.0)), ("ess1", ("ess", 1.0)), ("volvar", ("vv", 0.5))]),
        ("steps", [("default", (None, None)), ("1_2", (1, 2)), ("2_default", (2, None))]),
        ("likelihood", [("scalar", "scalar"), ("vectorize", "vec"), ("blobs", "blobs")]),
        ("boundary", [("none", (None, None)), ("periodic0", ([0], None)), ("reflective0", (None, [0])), ("both", ([0], [1]))]),
        ("pool", pool),
        ("save_every", [("none", None), ("1", 1), ("2", 2)]),
        ("resume", [("fresh", False), ("from_checkpoint", True)]),
        ("progress", [("off", False), ("on", True)]),
        ("n_dim", [("2", 2), ("3", 3)]),
        ("n_particles", [("8", 8), ("16", 16)]),
    ]


def covering_array(levels, t):
    """greedy t-wise covering array (deterministic: fixed internal seed) -> list of rows (value indices)"""
    rng = random.Random(12345 + t)
    k = len(levels)
    need = set()
    for cols in itertools.combinations(range(k), t):
        for vals in itertools.product(*[range(levels[c]) for c in cols]):
            need.add((cols, vals))
    rows = []
    while need:
        best, best_gain = None, -1
        # candidates: seeded with one uncovered tuple, the rest filled greedily/randomly
        seeds = rng.sample(sorted(need), min(len(need), 12))
        for cols, vals in seeds:
            for _ in range(6):
                row = [None] * k
                for c, v in zip(cols, vals):
                    row[c] = v
                order = [c for c in range(k) if row[c] is None]
                rng.shuffle(order)
                for c in order:
                    cands = list(range(levels[c]))
                    rng.shuffle(cands)
                    bv, bg = cands[0], -1
                    for v in cands:
                        row[c] = v
                        fixed = [x for x in range(k) if row[x] is not None and x != c]
                        g = 0
                        for others in itertools.combinations(fixed, t - 1):
                            cc = tuple(sorted(others + (c,)))
                            if (cc, tuple(row[x] for x in cc)) in need:
                                g += 1
                        if g > bg:
                            bv, bg = v, g
                    row[c] = bv
                gain = sum(1 for cols2 in itertools.combinations(range(k), t)
                           if (cols2, tuple(row[x] for x in cols2)) in need)
                if gain > best_gain:
                    best, best_gain = list(row), gain
        rows.append(best)
        for cols2 in itertools.combinations(range(k), t):
            need.discard((cols2, tuple(best[x] for x in cols2)))
    return rows


# options whose EFFECT depends on each other (a pool is only used by a non-vectorised likelihood; a checkpoint pickles whatever
# the pool machinery left on the sampler; a resumed run starts from such a checkpoint): their full factorial is executed on top
# of the pairwise array, the remaining options filled in from a deterministic stream
BLOCK_FACTORS = ["pool", "save_every", "likelihood", "resume"]


def interaction_block(fs):
    names = [n for n, _ in fs]
    cols = [names.index(n) for n in BLOCK_FACTORS]
    levels = [len(vs) for _, vs in fs]
    rng = random.Random(424242)
    rows = []
    for combo in itertools.product(*[range(levels[c]) for c in cols]):
        row = [rng.randrange(levels[i]) for i in range(len(fs))]
        for c, v in zip(cols, combo):
            row[c] = v
        rows.append(row)
    return cols, rows


def covers(levels, rows, t):
    for cols in itertools.combinations(range(len(levels)), t):
        seen = {tuple(r[c] for c in cols) for r in rows}
        if len(seen) != int(np.prod([levels[c] for c in cols])):
            return False
    return True


_ARRAYS = {}


def arrays():
    """{'pair': (factors, rows), 'triple': (factors, rows)} — cached on disk next to the generated Lean file (the greedy
    3-wise construction takes a while); regenerated whenever the factor table changes"""
    if _ARRAYS:
        return _ARRAYS
    import json
    cache = os.path.join(common.LEAN, ".lake", "c18_covering_cache.json")
    fq, ft = factors("quick"), factors("thorough")
    key = common.digest([[(n, [l for l, _ in vs]) for n, vs in fq], [(n, [l for l, _ in vs]) for n, vs in ft], "v2"])
    data = None
    try:
        with open(cache) as fh:
            data = json.load(fh)
        if data.get("key") != key:
            data = None
    except Exception:  # noqa
        data = None
    if data is None:
        lq = [len(vs) for _, vs in fq]
        lt = [len(vs) for _, vs in ft]
        data = {"key": key, "pair": covering_array(lq, 2), "triple": covering_array(lt, 3)}
        os.makedirs(os.path.dirname(cache), exist_ok=True)
        with open(cache, "w") as fh:
            json.dump(data, fh)
    _ARRAYS["pair"] = (fq, data["pair"])
    _ARRAYS["triple"] = (ft, data["triple"])
    return _ARRAYS


def generate_covering():
    """writes Gen/Covering.lean (checked in Lean by C18_covering_array_ok); a 'translator' in the sense of main.py"""
    try:
        a = arrays()
        (fq, pair), (ft, triple) = a["pair"], a["triple"]
        ok3 = covers([len(v) for _, v in ft], triple, 3)
        if not ok3:
            return ("C18-covering", "broken", "generated 3-wise array does not cover (bug in the generator)")

        def fac(fs):
            return "[" + ", ".join('("%s", [%s])' % (n, ", ".join('"%s"' % l for l, _ in vs)) for n, vs in fs) + "]"

        def rows(rs):
            return "[\n" + ",\n".join("  [" + ", ".join(map(str, r)) + "]" for r in rs) + "\n]"
        text = "\n".join([
            "/- GENERATED by harness/c18.py (greedy covering arrays of the valid option lattice) — do not edit. -/",
            "namespace Gen.Covering", "",
            "/-- quick tier: option name, labels of its values -/",
            f"def pairFactors : List (String × List String) := {fac(fq)}", "",
            "/-- quick tier: the rows that are executed (value index per option) -/",
            f"def pairRows : List (List Nat) := {rows(pair)}", "",
            "/-- thorough tier -/",
            f"def tripleFactors : List (String × List String) := {fac(ft)}", "",
            f"def tripleRows : List (List Nat) := {rows(triple)}", "",
            "/-- interaction block (both tiers): the columns of the mutually dependent options and the executed rows -/",
            f"def blockCols : List Nat := [{', '.join(map(str, interaction_block(fq)[0]))}]", "",
            f"def blockRows : List (List Nat) := {rows(interaction_block(fq)[1])}", "",
            "end Gen.Covering", ""])
        changed = common.write_if_changed(os.path.join(common.GEN, "Covering.lean"), text)
        return ("C18-covering", "ok", f"{'re' if changed else ''}generated Gen/Covering.lean ({len(pair)} pairwise rows, "
                                      f"{len(triple)} 3-wise rows; 3-wise coverage re-checked in Python: {ok3})")
    except Exception as e:  # noqa
        return ("C18-covering", "broken", f"{type(e).__name__}: {e}")


def row_label(fs, row):
    return " ".join(f"{n}={vs[i][0]}" for (n, vs), i in zip(fs, row))


def row_values(fs, row):
    return {n: vs[i][1] for (n, vs), i in zip(fs, row)}


def row_model_cfg(vals):
    """the row as a configuration over V (for the model's `accept` prediction)"""
    def num(x):
        return NONE if x is None else (B(x) if isinstance(x, bool) else I(x) if isinstance(x, int) else F(Fraction(x)))
    per, refl = vals["boundary"]
    cfg = dict(BASE)
    cfg.update({
        "n_dim": I(vals["n_dim"]), "n_particles": I(vals["n_particles"]), "sample": S(vals["kernel"]), "resample": S(vals["resample"]),
        "clustering": B(vals["clustering"]), "normalize": B(vals["normalize"]), "cluster_every": I(vals["cluster_every"]),
        "n_max_clusters": num(vals["n_max_clusters"]), "split_threshold": num(vals["split_threshold"]),
        "n_steps": num(vals["steps"][0]), "n_max_steps": num(vals["steps"][1]),
        "vectorize": B(vals["likelihood"] == "vec"), "blobs_dtype": S("f8") if vals["likelihood"] == "blobs" else NONE,
        "periodic": NONE if per is None else L(*[I(i) for i in per]), "reflective": NONE if refl is None else L(*[I(i) for i in refl]),
        "pool": OTHER if vals["pool"] == "poollike" else num(vals["pool"]), "output_dir": S("tmp"),
    })
    if vals["metric"][0] == "vv":
        cfg["volume_variation"] = num(vals["metric"][1])
    else:
        cfg["ess_ratio"] = num(vals["metric"][1])
    return cfg


def run_row(args):
    """executed in a worker process: construct + run the real sampler for one row; returns a plain dict"""
    vals, seed, n_total = args
    import tempest
    from tempest.tools import effective_sample_size
    per, refl = vals["boundary"]
    mode = vals["likelihood"]
    kw = dict(n_particles=vals["n_particles"], sample=vals["kernel"], resample=vals["resample"], clustering=vals["clustering"],
              normalize=vals["normalize"], cluster_every=vals["cluster_every"], n_max_clusters=vals["n_max_clusters"],
              split_threshold=vals["split_threshold"], n_steps=vals["steps"][0], n_max_steps=vals["steps"][1],
              vectorize=(mode == "vec"), blobs_dtype=("f8" if mode == "blobs" else None), periodic=per, reflective=refl,
              pool=(PoolLike() if vals["pool"] == "poollike" else vals["pool"]))
    if vals["metric"][0] == "vv":
        kw["volume_variation"] = vals["metric"][1]
    else:
        kw["ess_ratio"] = vals["metric"][1]
    tmp = tempfile.mkdtemp(prefix="c18_")
    kw["output_dir"] = tmp
    like = {"scalar": _target, "vec": _target_vec, "blobs": _target_blob}[mode]
    t0 = time.time()
    res = {"seed": seed, "n_total": n_total}
    try:
        np.random.seed(seed)
        with warnings.catch_warnings(), contextlib.redirect_stdout(io.StringIO()), contextlib.redirect_stderr(io.StringIO()):
            warnings.simplefilter("ignore")
            resume_path = None
            if vals.get("resume"):
                # a first, shorter run of the same configuration writes checkpoints; the run under test continues from the
                # last periodic one (the pool, if any, is a fresh object: pools are never part of a checkpoint)
                kw0 = dict(kw, output_label="first")
                if vals["pool"] == "poollike":
                    kw0["pool"] = PoolLike()
                s0 = tempest.Sampler(_prior, like, vals["n_dim"], **kw0)
                s0.run(n_total=max(8, n_total // 3), progress=False, save_every=1)
                periodic = sorted((f for f in os.listdir(tmp) if f.startswith("first_") and f != "first_final.state"),
                                  key=lambda f: int(f[len("first_"):-len(".state")]))
                resume_path = os.path.join(tmp, periodic[-1] if periodic else "first_final.state")
            s = tempest.Sampler(_prior, like, vals["n_dim"], **kw)
            s.run(n_total=n_total, progress=bool(vals.get("progress")), save_every=vals["save_every"], resume_state_path=resume_path)
            st = s.state
            beta = float(st.get_current("beta"))
            logw, _ = st.compute_logw_and_logz(1.0)
            ess = float(effective_sample_size(np.exp(logw - np.max(logw))))
            iters = int(st.get_current("iter"))
            x, w, l = s.posterior()[:3]
        bad = []
        if not (1.0 - beta < 1e-4):
            bad.append(f"returned with beta={beta!r} (1-beta >= 1e-4)")
        if not (ess >= n_total):
            bad.append(f"returned with ESS {ess!r} < n_total {n_total}")
        if not (len(x) == len(w) == len(l) and np.all(np.isfinite(w)) and abs(float(np.sum(w)) - 1.0) < 1e-9):
            bad.append("posterior() arrays misaligned or weights not normalised")
        if vals["save_every"] is not None and not os.path.exists(os.path.join(tmp, "ps_final.state")):
            bad.append("save_every given but no final state file written")
        res.update(ok=not bad, what="; ".join(bad), beta=beta, ess=ess, iters=iters)
    except BaseException as e:  # noqa
        tb = traceback.extract_tb(e.__traceback__)
        where = f"{os.path.basename(tb[-1].filename)}:{tb[-1].lineno} in {tb[-1].name}" if tb else "?"
        res.update(ok=False, what=f"raised {type(e).__name__}: {str(e)[:200]} at {where}", exc=type(e).__name__,
                   files=sorted({os.path.basename(f.filename) for f in tb}),
                   frames=[f"{os.path.basename(f.filename)}:{f.name}" for f in tb])
    finally:
        shutil.rmtree(tmp, ignore_errors=True)
    res["time"] = round(time.time() - t0, 2)
    return res


def attribute(vals, res):
    """a failing row that reproduces a finding already recorded in known_findings.json is attributed to it instead of
    raising a C18 alarm; the signature is the exception type AND the frames of the traceback"""
    known = {e["witness"] for e in common.load_known().get("known", [])}
    files = res.get("files", [])
    frames = res.get("frames", [])
    if res.get("exc") == "LinAlgError" and F24_ID in known and "modes.py:__init__" in frames and "student.py" not in files:
        return F24_ID
    return None


def execute_rows(fs, rows, seeds, n_total, workers=16):
    jobs = [(row, row_values(fs, row), seed) for row in rows for seed in seeds]
    ctx = multiprocessing.get_context("fork")
    n = max(1, min(workers, (os.cpu_count() or 2), len(jobs)))
    with concurrent.futures.ProcessPoolExecutor(max_workers=n, mp_context=ctx) as ex:
        results = list(ex.map(run_row, [(v, s, n_total) for _, v, s in jobs]))
    return [(row, vals, res) for (row, vals, _), res in zip(jobs, results)]


def run_covering(tier, drv):
    c = Corr("covering-array-runs", "execution: model says `accept` for every row; the real sampler must construct, run to "
                                    "completion and meet the run postconditions")
    try:
        fs, rows = arrays()["pair" if tier == "quick" else "triple"]
    except Exception as e:  # noqa
        c.error = f"covering array unavailable: {type(e).__name__}: {e}"
        return c
    rng = common.rng_for("C18.rows")
    seeds = [rng.randrange(2 ** 31) for _ in range(2 if tier == "quick" else 1)]
    n_total = 48
    block = [r for r in interaction_block(fs)[1] if r not in rows]
    c.stats["interaction_block_rows"] = len(block)
    all_rows = rows + [r for r in interaction_block(fs)[1] if r not in rows]
    lines = [op_line(row_model_cfg(row_values(fs, r))) for r in all_rows]
    answers = drv.batch(lines)
    model_ok = {}
    for r, line, ans in zip(all_rows, lines, answers):
        model_ok[tuple(r)] = ans.startswith("accept")
        if not ans.startswith("accept"):
            c.disagree(input=line, why="a row of the valid option lattice is not accepted by the model", model=ans, row=row_label(fs, r))
    pending = []
    executed = execute_rows(fs, rows, seeds, n_total) + execute_rows(fs, block, seeds[:1], n_total)
    for row, vals, res in executed:
        label = row_label(fs, row)
        c.case([label, res["seed"]], True)
        c.count("rows_run")
        c.count("iterations", res.get("iters", 0) or 0)
        if res["ok"]:
            c.count("rows_ok")
            c.sample({"row": label, "seed": res["seed"], "beta": res["beta"], "ess": res["ess"], "iters": res["iters"]}, cap=2)
            continue
        kid = attribute(vals, res)
        if kid:
            c.count("rows_attributed:" + kid)
            pending.append({"row": label, "row_idx": list(row), "seed": res["seed"], "n_total": n_total, "what": res["what"],
                            "known_id": kid, "_dis": dict(input=label, why="valid configuration did not run to completion: " + res["what"],
                                                           model="accept", row=label, row_idx=list(row),
                                                           tier_array=("pair" if tier == "quick" else "triple"),
                                                           seed=res["seed"], n_total=n_total)})
            continue
        c.disagree(input=label, why="valid configuration did not run to completion: " + res["what"], model="accept",
                   row=label, row_idx=list(row), tier_array=("pair" if tier == "quick" else "triple"), seed=res["seed"], n_total=n_total)
    n_runs = max(1, c.stats.get("rows_run", 1))
    if len(pending) > KNOWN_MAX_FRACTION * n_runs:
        # no longer the occasional degenerate cluster: report the rows as ordinary disagreements
        for p in pending:
            c.disagree(**p["_dis"])
    for p in pending:
        p.pop("_dis", None)
    if pending:
        c.stats["rows_matching_known_F24"] = pending
    return c


# =================================================================== property oracle on the real code
def valid_listed(cfg):
    """the documented constraints of the statement, directly on the Python values (independent of the model)"""
    kw = {f: py(v) for f, v in cfg.items()}

    def is_int(x):
        return isinstance(x, int) and not isinstance(x, bool)      # a Python bool is not an integer dimension / count / index

    def is_num(x):
        return isinstance(x, (int, float))

    def pos_fin(x):
        return is_num(x) and x == x and 0 < x < float("inf")
    d = kw.get("n_dim")
    if not (is_int(d) and d > 0):
        return False, "n_dim is not a positive integer"
    n = kw.get("n_particles")
    if n is not None and not (is_int(n) and n > 0):
        return False, "n_particles is not a positive integer"
    e = kw.get("ess_ratio", 2.0)
    if not pos_fin(e):
        return False, "ess_ratio is not a positive finite number"
    vv = kw.get("volume_variation")
    if vv is not None and not pos_fin(vv):
        return False, "volume_variation is not a positive finite number"
    if kw.get("sample", "tpcn") not in ("tpcn", "rwm") or not isinstance(kw.get("sample", "tpcn"), str):
        return False, "unknown kernel"
    if kw.get("resample", "mult") not in ("mult", "syst") or not isinstance(kw.get("resample", "mult"), str):
        return False, "unknown resampler"
    if kw.get("vectorize", False) and kw.get("blobs_dtype") is not None:
        return False, "vectorised likelihood with blobs"
    idx = {}
    for f in ("periodic", "reflective"):
        v = kw.get(f)
        if v is None:
            continue
        if not isinstance(v, (list, str)):
            return False, f"{f} is not a list of indices"
        if not all(is_int(i) and 0 <= i < d for i in v):
            return False, f"{f} has an out-of-range or non-integer index"
        idx[f] = {int(i) for i in v}
    if len(idx) == 2 and idx["periodic"] & idx["reflective"]:
        return False, "periodic and reflective indices overlap"
    return True, ""


def oracle_invalid(cfg):
    """a configuration violating a documented constraint must raise at construction, before any likelihood call"""
    ok, why = valid_listed(cfg)
    if ok:
        return None
    real = real_construct(cfg, "sampler")
    if real["cls"] == "accept":
        return f"invalid configuration ({why}) was accepted by Sampler(...)"
    if real["like_calls"] != 0:
        return f"invalid configuration ({why}): {real['like_calls']} likelihood call(s) before the constructor raised"
    return None


def search(tier, hints):
    found = []

    def add(what, cfg=None, **kw):
        f = {"what": what}
        if cfg is not None:
            f["cfg"] = {k: enc(v) for k, v in cfg.items()}
        f.update(kw)
        found.append(f)
    # 1. disagreeing inputs first
    for h in hints:
        if len(found) >= 5:
            break
        if h.get("suite") == "covering-array-runs" and "row_idx" in h:
            fs, _ = arrays()[h["tier_array"]]
            vals = row_values(fs, h["row_idx"])
            res = run_row((vals, h["seed"], h["n_total"]))
            if not res["ok"] and (not attribute(vals, res) or h.get("why", "").startswith("valid configuration did not run")):
                add("valid configuration does not run to completion: " + res["what"], row=h["row"], row_idx=h["row_idx"],
                    tier_array=h["tier_array"], seed=h["seed"], n_total=h["n_total"])
        elif "cfg" in h:
            cfg = {k: parse_tok(v) for k, v in h["cfg"].items()}
            msg = oracle_invalid(cfg)
            if msg:
                add(msg, cfg)
            elif h.get("level") == "sampler" and h.get("impl", {}).get("cls") in ("reject", "raise") and valid_and_typed(cfg):
                add("valid configuration rejected at construction: " + h["impl"].get("message", "")[:200], cfg, spurious=True)
    # 1b. downstream obligations (glue runs, dispatch, foreign values)
    if len(found) < 5:
        try:
            c18_path.search(_self(), tier, hints, add, limit=5 - len(found))
        except Exception:  # noqa
            traceback.print_exc()
    # 2. the covering rows (constructor options x run() arguments) as the oracle for "valid => completes"
    if len(found) < 5:
        try:
            key = "pair" if tier == "quick" else "triple"
            fs, rows = arrays()[key]
            rng = common.rng_for("C18.search")
            seed = rng.randrange(2 ** 31)
            rows = interaction_block(fs)[1] + [r for r in rows if r not in interaction_block(fs)[1]]
            for row, vals, res in execute_rows(fs, rows, [seed], 48):
                if not res["ok"] and not attribute(vals, res):
                    add("valid configuration does not run to completion: " + res["what"], row=row_label(fs, row), row_idx=list(row),
                        tier_array=key, seed=seed, n_total=48)
                    if len(found) >= 5:
                        break
        except Exception:  # noqa
            traceback.print_exc()
    # 3. the one-factor invalid values and pairs, directly as the property oracle
    if len(found) < 5:
        for kind, cfg in gen_cases(tier):
            msg = oracle_invalid(cfg)
            if msg:
                add(msg, cfg)
                if len(found) >= 5:
                    break
    return found


def valid_and_typed(cfg):
    """valid by the listed constraints AND every other option at (a value of) its documented type"""
    ok, _ = valid_listed(cfg)
    if not ok:
        return False
    kw = {f: py(v) for f, v in cfg.items()}
    if not callable(kw.get("prior_transform")) or not callable(kw.get("log_likelihood")):
        return False
    for f in ("n_steps", "n_max_steps", "n_max_clusters"):
        if kw.get(f) is not None and not isinstance(kw[f], int):
            return False
    if not isinstance(kw.get("split_threshold", 1.0), (int, float)) or not kw.get("split_threshold", 1.0) > 0:
        return False
    if kw.get("output_dir") is not None and not isinstance(kw["output_dir"], (str, Path)):
        return False
    if kw.get("output_label") is not None and not isinstance(kw["output_label"], str):
        return False
    return True


def parse_tok(s):
    if s.startswith("l:"):
        body = s[2:]
        return ("l", tuple(parse_tok(x) for x in body.split(","))) if body else ("l", ())
    if s in ("n", "c", "p", "o", "L"):
        return (s,)
    k, _, r = s.partition(":")
    if k == "i":
        return I(int(r))
    if k == "f":
        return F(r if r in ("inf", "-inf", "nan") else Fraction(r))
    if k == "b":
        return B(r == "1")
    if k == "s":
        return S(r)
    raise ValueError(s)


def replay(obj):
    f = obj.get("failing_input", obj)
    if "witness" in f.get("replay", {}):
        from . import witnesses
        return witnesses.ALL[f["replay"]["witness"]]()
    if "glue" in f or "foreign" in f:
        return c18_path.replay(_self(), f)
    if "row_idx" in f:
        fs, _ = arrays()[f["tier_array"]]
        vals = row_values(fs, f["row_idx"])
        res = run_row((vals, f["seed"], f["n_total"]))
        return {"fails": not res["ok"], "detail": res.get("what") or f"ran: beta={res.get('beta')}, ess={res.get('ess')}"}
    cfg = {k: parse_tok(v) for k, v in f["cfg"].items()}
    if f.get("spurious"):
        real = real_construct(cfg, "sampler")
        return {"fails": real["cls"] != "accept", "detail": real.get("message", real["cls"])}
    msg = oracle_invalid(cfg)
    return {"fails": msg is not None, "detail": msg or "rejected at construction with zero likelihood calls"}
