"""C05 — temperature schedule monotone, bounded, ESS-controlled; what is recorded for an iteration refers to one temperature."""
import contextlib
import io
import math
import os
import warnings
from fractions import Fraction

import numpy as np

from . import common
from .common import Corr, f2hex, hex2f, frac2s, flist, parse_list

ID = "C05"
LEAN_MODULES = ["TempestVerif.Props.C05", "TempestVerif.Props.C05Warmup", "TempestVerif.Props.C05Pipeline",
                "TempestVerif.Props.C05Closed", "TempestVerif.Props.C05Resume", "TempestVerif.Props.C05Source",
                "TempestVerif.Props.C05Robust", "TempestVerif.Props.C05Ieee"]
RULE = ("(i) decision logic: a REAL Reweighter on a real StateManager whose _compute_metric_and_weights is replaced on the instance by a "
        "generated piecewise-constant table over beta (0..6 knots; ESS/metric entries placed around the target: decreasing, arbitrary/"
        "non-monotone, plateaus exactly at target), both modes, prev in {0, knots, grid points, 1}; regime Q: dyadic betas/values/"
        "tolerances (2^-k) so every float operation is exact, compared exactly with the Rat model; regime F: arbitrary doubles with the "
        "REAL constants of tempest.config (plus a few other tolerances), NaN/+-inf entries, compared bit-for-bit with the Float model; "
        "compared: beta, ess, logz written to state, which oracle call's weights came back, the argument of compute_logw_and_logz and the "
        "exact SEQUENCE of oracle calls. Non-trivial = at least one loop step of _find_beta_upper_limit/_find_beta_bisection or the "
        "first-iteration branch. (ii) the oracle: real _compute_metric_and_weights on generated histories (T in 1..8, n_t in 4..40, "
        "d in 1..3) vs an independent recomputation of the statement's formula, tolerance 1e-9 relative; non-trivial = T>=2. "
        "(iii) constants read from tempest.config (and regenerated into Gen/Constants.lean by translator G1, which discharges the "
        "tolerance hypothesis of the fuel theorems). (iv) short real Sampler runs (both modes): every oracle call of every iteration is "
        "recorded and replayed as a table into the Float model, which must reproduce beta, the call sequence, the weights' temperature "
        "and the Z argument bit-for-bit; non-trivial = the iteration made >= 1 loop step. (v) DIRECT calls of _find_beta_bisection "
        "(both update directions — the ESS-mode direction is dead code under run() — arbitrary brackets incl. bmin == bmax, inverted, "
        "midpoint exactly 1.0) and of _find_beta_upper_limit on the same tables, regimes Q and F; non-trivial = at least one halving. "
        "(vi) dep:pipeline-trace-replay: real ESS-mode Sampler runs (4 kernel x resampler combinations, d in 1..3, n in {8,16,24}) with "
        "all randomness observed, replayed by the Lean pipeline model (concrete oracle = C04 weights -> exp(logw-max) -> C20 ESS); "
        "compared here: beta, ESS, logz-after-reweighting per iteration (1e-9 / 1e-7), the size of every warm-up batch and beta_k = 0 for "
        "k < ess_ratio (k = ess_ratio is an exact ESS = target tie, decided by the last ulp in floating point); non-trivial = the run left beta = 0. "
        "(vii) dep:closed-loop-replay: instrumented whole runs (harness/c10cl.py: both kernels/resamplers, clustering on/off, volume-variation "
        "targets 0.5/0.1/0.05 and ESS mode) replayed by the closed-loop model cl.F (schedule in BOTH metric modes, trimming handed to the "
        "clusterer, resampled indices, accept masks, number of steps and iterations), plus C05 on the trace itself (n_particles prior draws per "
        "warm-up iteration, beta_k = 0 for k < ess_ratio in both modes, recorded ESS = ESS at the recorded beta, same weights to trainer and "
        "resampler); non-trivial = the run left beta = 0. (viii) resume-run: a seeded run with save_every=2 is completed, then continued three "
        "ways — run(resume_state_path=mid-run checkpoint) on a new sampler, load_state()+run() on a new sampler (the branch added in /repo aeb0399), "
        "a second run() with a larger n_total on the same sampler, and an EARLIER checkpoint loaded back into the SAME used sampler then run() / "
        "sample() calls (the step components are objects and have seen the whole schedule) — with the observers of (iv) on the continuation: first beta_prev == restored beta "
        "(bit-exact), history length and iter continue, every continued iteration replays bit-for-bit in the Float model, the schedule never "
        "decreases, and for path/load the resumed schedule equals the uninterrupted one bit-for-bit; non-trivial = the continuation ran >= 1 iteration. "
        "(x) late-history: the REAL Reweighter.run (two consecutive steps, a batch committed in between) on real StateManager histories that are "
        "steep in beta near the posterior and were stored at beta = 1 - delta, delta in {0.25..3} x BETA_TOLERANCE (inside the last tolerance "
        "window of the schedule, or just outside so that the first step moves into it), both modes; every oracle call observed and replayed "
        "bit-for-bit in the Float model; the decision generators (i) also place beta_prev strictly inside (1 - BETA_TOLERANCE, 1) with the ESS at "
        "1 below the target (8 % of the tables). The injected compute_logw_and_logz of (i) serves a genuine log-weight vector whose ESS is the "
        "table's ESS at that beta, so code that derives weights from it directly runs on the same table; an exception raised on the stubbed "
        "environment (other than the oracle's call budget) is a correspondence abort, never a failing input. "
        "(ix) translator G10 regenerates every decision expression, literal and the statement skeleton of reweight.py into Gen/ReweightSrc.lean; "
        "Props/C05Source.lean proves by rfl (for every scalar type, Float included) that Model.Reweight is built from them.")
MODELLED = ["numpy/IEEE: the model is executed at Float with the same operations in the same order (bit-exact regime); theorems are over exact reals",
            "Props/C05.lean: _compute_metric_and_weights, compute_logw_and_logz and np.isfinite are PARAMETERS (every function M, Z, fin); "
            "the weights array is a tag naming the beta it was computed for. Props/C05Pipeline.lean + C05Warmup.lean: ESS mode with the concrete "
            "C04/C20 oracle of Model.Pipeline (exp/log = Real.exp/Real.log), randomness and user functions on a universally quantified tape",
            "volume_variation (matrix algebra) is a parameter everywhere (third component of M); the trainer is opaque (its effect is on the tape)",
            "NaN / +-inf oracle values are covered by the Float correspondence only, not by the theorems",
            "Props/C05Closed.lean + C05Resume.lean: BOTH modes on the closed-loop model (Model.ClosedLoop): the ESS oracle is the concrete C04/C20 "
            "composition; what stays a parameter is the World (likelihood, prior draws, random stream, trainer/clusterer, proposal generator, the "
            "volume_variation function itself — its own properties are C20's)",
            "Props/C05Robust.lean + C05Ieee.lean: NaN answers and rounding of every temperature operation are modelled by FN r (reals + NaN, any "
            "monotone idempotent rounding with 1/2 representable and exact doubling); +-inf and overflow are not in that instance (an infinite "
            "oracle answer only meets np.isfinite — an arbitrary parameter — and comparisons with a finite target); termination (fuel) under rounding "
            "is covered by the Float suites only",
            "the literals and comparison operators of reweight.py are no longer hard-coded: Gen/ReweightSrc.lean (translator G10) + Props/C05Source.lean; "
            "the progress bar and the iter counter are not modelled"]
ASSUMPTIONS = ["H_fn: within one call of run() the oracle is a function of beta (the pool does not change during reweighting) — checked on the real "
               "runs of suite iv, where a beta answered twice differently is a disagreement",
               "volume-variation mode only: between two calls of Reweighter.run nobody but _finalize_iteration writes state['beta'], and the history is "
               "non-empty after the first commit (both PROVED for the ESS-mode pipeline model; checked on the real runs of suite iv)",
               "C05_pipeline_warmup: every warm-up iteration draws n_particles prior samples (checked on the real runs of suite vi)",
               "C05_dyn_ess_antitone / C05_upper_antitone only: the pool ESS is non-increasing in beta on [beta_prev, 1] (not assumed by any other theorem)",
               "C05_cl_warmup(_count): the world's prior draw returns n_particles records (checked on every instrumented run of suite vii)",
               "C05Closed/C05Resume theorems are about runs that stay inside the closed-loop model (runLoop = some …: no IndexError, no batch without a "
               "finite draw, the loop ends within the fuel) — the replay suite vii checks that the model does not leave its domain on the real runs"]

FUEL = 64
TOL = 1e-9


# ================================================================== helpers
def _quiet():
    return contextlib.redirect_stdout(io.StringIO())


def _dec(regime, s):
    if s is None or s == "-":
        return None
    return float(Fraction(s)) if regime == "Q" else hex2f(s)


def _canon(x):
    x = float(x)
    return "nan" if x != x else f2hex(x)


def _canon_tok(regime, tok):
    """canonical form of a scalar printed by the driver"""
    if regime == "Q":
        return _canon(float(Fraction(tok)))
    return _canon(hex2f(tok))


class TableOracle:
    """beta -> (weights tagged by the call number, ess_i, met_i) with i = #{knots <= beta}; records its calls"""

    def __init__(self, knots, ess, met, cap=600):
        self.knots, self.ess, self.met = knots, ess, met
        self.calls = []
        self.cap = cap

    def index(self, beta):
        return sum(1 for k in self.knots if k <= beta)

    def __call__(self, beta):
        self.calls.append(float(beta))
        if len(self.calls) > self.cap:
            raise RuntimeError("oracle call budget exceeded (loop does not terminate)")
        i = self.index(beta)
        j = len(self.calls)
        return np.array([1.0, float(j)]), self.ess[i], self.met[i]


def _logw_with_ess(e):
    """a log-weight vector whose weights exp(logw - max) have effective sample size e (to rounding): K ones and one entry f in
       [0, 1) with (K + f)^2 / (K + f^2) = e.  An ESS outside [1, 1e5] (or non-finite) cannot be the ESS of a weight vector of
       manageable size: a single weight (ESS 1) is served then, and the case cannot be judged through this route."""
    e = float(e)
    if not (math.isfinite(e) and 1.0 <= e <= 1e5):
        return np.zeros(1)
    k = int(math.floor(e))
    if e == k:
        return np.zeros(k)
    # (1 - e) f^2 + 2 k f + (k^2 - e k) = 0, root in [0, 1)
    a, b, c = 1.0 - e, 2.0 * k, float(k) * k - e * k
    disc = max(b * b - 4.0 * a * c, 0.0)
    f = (-b + math.sqrt(disc)) / (2.0 * a)
    if not (0.0 < f < 1.0):
        f = (-b - math.sqrt(disc)) / (2.0 * a)
    if not (0.0 < f < 1.0):
        return np.zeros(k)
    return np.log(np.array([1.0] * k + [f]))


def _run_table(case):
    """run the REAL Reweighter.run() on the table oracle of `case`; returns the observable effect"""
    from tempest.state_manager import StateManager
    from tempest.steps.reweight import Reweighter
    rg = case["regime"]
    prev = _dec(rg, case["prev"])
    ratio = _dec(rg, case["ratio"])
    n = int(case["n"])
    vv = _dec(rg, case["vv"])
    sm = StateManager(n_dim=1)
    if not case["empty"]:
        sm.set_current("u", np.full((3, 1), 0.5))
        sm.set_current("x", np.zeros((3, 1)))
        sm.set_current("logl", np.array([-1.0, -2.0, -3.0]))
        sm.set_current("beta", 0.0)
        sm.set_current("logz", 0.0)
        sm.set_current("iter", 0)
        sm.commit_current_to_history()
    sm.set_current("iter", 3)
    sm.set_current("beta", prev)
    sm.set_current("logz", -7.0)
    sm.set_current("ess", -1.0)
    rw = Reweighter(sm, None, n, ratio, vv, ESS_TOLERANCE=_dec(rg, case["tolE"]), BETA_TOLERANCE=_dec(rg, case["tolB"]))
    orc = TableOracle([_dec(rg, k) for k in case["knots"]], [_dec(rg, e) for e in case["ess"]],
                      [_dec(rg, m) for m in case["met"]])
    zcalls = []
    zweights = []      # (beta, normalised weights) of every log-weight vector the stub handed out

    def zfn(beta, normalize=True):
        # the second result is the evidence (here: beta itself, so that the recorded logz names the temperature it was computed
        # for); the FIRST result is a genuine log-weight vector whose ESS is the table's ESS at beta, so that code which derives
        # weights / ESS from compute_logw_and_logz directly — another evaluation route than _compute_metric_and_weights —
        # runs on the same table instead of crashing on a placeholder
        zcalls.append(float(beta))
        lw = _logw_with_ess(orc.ess[orc.index(beta)])
        w = np.exp(lw - np.max(lw))
        zweights.append((float(beta), w / np.sum(w)))
        return lw, float(beta)
    rw._compute_metric_and_weights = orc
    sm.compute_logw_and_logz = zfn
    try:
        with warnings.catch_warnings():
            warnings.simplefilter("ignore")
            w = rw.run()
    except Exception as e:  # noqa
        # only the oracle's own call budget says something about the code under test (a search loop that does not end);
        # anything else raised on the STUBBED environment is a correspondence abort: the real code took a route the
        # injection does not serve.  The property is then judged on real StateManager histories (oracle_history).
        budget = isinstance(e, RuntimeError) and "oracle call budget exceeded" in str(e)
        return {"error": f"{type(e).__name__}: {e}", "calls": list(orc.calls), "harness_abort": not budget}
    w = np.asarray(w, dtype=float)
    ztag = [b for b, wz in zweights if wz.shape == w.shape and bool(np.allclose(w, wz, rtol=1e-12, atol=0))]
    if not orc.calls and not zcalls:
        tag = f"U{len(w)}" if len(w) == n and bool(np.all(w == 1.0 / n)) else f"?{w.tolist()[:4]}"
    elif w.shape == (2,) and w[0] > 0 and orc.calls and abs(w[1] / w[0] - round(w[1] / w[0])) < 1e-6 \
            and 1 <= int(round(w[1] / w[0])) <= len(orc.calls) and abs(w.sum() - 1.0) < 1e-12 and not ztag:
        tag = _canon(orc.calls[int(round(w[1] / w[0])) - 1])
    elif ztag:
        tag = _canon(ztag[-1])           # weights derived from the log-weights served for that beta (the other route)
    else:
        tag = f"?{w.tolist()[:4]}"
    return {"beta": _canon(sm.get_current("beta")), "ess": _canon(sm.get_current("ess")), "logz": _canon(sm.get_current("logz")),
            "wtag": tag, "calls": [_canon(b) for b in orc.calls], "zcalls": [_canon(b) for b in zcalls],
            "iter": sm.get_current("iter"), "z_route": bool(ztag)}


def _line(case):
    vv = case["vv"] if case["vv"] is not None else "-"
    return (f"rw.{case['regime']} mode={case['mode']} empty={1 if case['empty'] else 0} prev={case['prev']} ratio={case['ratio']} "
            f"n={case['n']} vv={vv} tolE={case['tolE']} tolB={case['tolB']} fuel={FUEL} knots={flist(case['knots'], str)} "
            f"ess={flist(case['ess'], str)} met={flist(case['met'], str)}")


def _parse_model(regime, ans):
    t = ans.split(" ")
    if len(t) != 8:
        return None
    beta, branch, sub, wt, ess, logz, calls, zcalls = t
    cv = lambda s: _canon_tok(regime, s)  # noqa
    return {"beta": cv(beta), "branch": branch, "sub": sub, "wtag": wt if wt.startswith("U") else cv(wt), "ess": cv(ess),
            "logz": cv(logz), "calls": [cv(x) for x in parse_list(calls, str)], "zcalls": [cv(x) for x in parse_list(zcalls, str)]}


def _same(impl, model):
    return ("error" not in impl and model is not None
            and all(impl[k] == model[k] for k in ("beta", "ess", "logz", "wtag", "calls", "zcalls")))


# ================================================================== (i) decision logic: generators
def _gen_Q(rng):
    mode = rng.choice(["ess", "dyn"])
    n = rng.choice([4, 8, 16, 20, 32, 50, 64])
    ratio = Fraction(rng.choice([1, 2, 3, 4, 5, 6, 8]), rng.choice([1, 2, 4]))
    target = ratio * n
    tolB = Fraction(1, 2 ** rng.choice([2, 3, 4, 5, 6, 8, 10, 13, 14]))
    tolE = Fraction(1, 2 ** rng.choice([1, 3, 5, 7, 10]))
    grid = 2 ** rng.choice([2, 3, 4, 6, 8])
    K = rng.choice([0, 1, 2, 2, 3, 3, 4, 5, 6])
    knots = sorted({Fraction(rng.randint(0, grid), grid) for _ in range(K)})
    K = len(knots)
    j = rng.random()
    prev = Fraction(0) if j < 0.35 else Fraction(1) if j < 0.4 else rng.choice(knots) if (j < 0.6 and knots) \
        else Fraction(rng.randint(0, grid), grid)
    step = Fraction(rng.choice([1, 1, 2, 4, 8]), 4)
    style = rng.random()
    if style < 0.45:      # decreasing through the target
        start = rng.randint(0, 6)
        ess = [target + step * (start - 2 * i + rng.choice([0, 0, 1])) for i in range(K + 1)]
    elif style < 0.6:     # plateaus exactly at the target
        ess = [target + step * rng.choice([0, 0, 0, 1, -1, 3]) for _ in range(K + 1)]
    else:                 # arbitrary
        ess = [target + step * rng.randint(-5, 5) for _ in range(K + 1)]
    if K >= 1 and rng.random() < 0.6:     # make the bracket [prev, 1] straddle the target (plateau at target included)
        ess[-1] = target - step * rng.randint(1, 3)
        i = sum(1 for k in knots if k <= prev)
        if i < K:
            ess[i] = max(ess[i], target + step * rng.randint(0, 2))
    vv = Fraction(rng.randint(1, 16), 16)
    ms = rng.random()
    if ms < 0.5:          # increasing through vv
        start = rng.randint(-6, 1)
        met = [max(Fraction(0), vv + Fraction(start + 2 * i + rng.choice([0, 1]), 16)) for i in range(K + 1)]
    elif ms < 0.65:
        met = [vv + Fraction(rng.choice([0, 0, 1, -1]), 64) for _ in range(K + 1)]
    else:
        met = [max(Fraction(0), vv + Fraction(rng.randint(-8, 8), 16)) for _ in range(K + 1)]
    if rng.random() < 0.08:
        # the last BETA_TOLERANCE of the schedule: beta_prev strictly inside (1 - tolB, 1), the ESS at 1 below the target and
        # (mostly) the ESS at beta_prev not below it — a correct step may stay, or advance only to where ESS >= target
        if not knots or knots[-1] != 1:
            knots.append(Fraction(1))
            ess.append(ess[-1])
            met.append(met[-1])
            K = len(knots)
        prev = 1 - tolB / 2 ** rng.choice([1, 2, 3])
        ess[-1] = target - step * rng.randint(1, 3)
        if rng.random() < 0.8:
            ess[sum(1 for k in knots if k <= prev)] = target + step * rng.randint(0, 2)
    enc = frac2s
    return {"regime": "Q", "mode": mode, "empty": False, "prev": enc(prev), "ratio": enc(ratio), "n": n,
            "vv": enc(vv) if mode == "dyn" else None, "tolE": enc(tolE), "tolB": enc(tolB),
            "knots": [enc(k) for k in knots], "ess": [enc(e) for e in ess], "met": [enc(m) for m in met]}


def _consts():
    from tempest import config
    return float(config.BETA_TOLERANCE), float(config.ESS_TOLERANCE)


def _gen_F(rng, allow_nonfinite=True):
    tolB0, tolE0 = _consts()
    mode = rng.choice(["ess", "dyn"])
    n = rng.choice([4, 8, 16, 20, 32, 50, 64, 100, 256])
    ratio = rng.choice([0.5, 1.0, 2.0, 2.0, 1.7, 3.3, 0.1, 6.0])
    target = ratio * n
    j = rng.random()
    tolB = tolB0 if j < 0.8 else rng.choice([1e-3, 0.05, 1e-6, 0.3])
    tolE = tolE0 if j < 0.8 else rng.choice([0.05, 1e-3, 0.5])
    K = rng.choice([0, 1, 2, 2, 3, 3, 4, 5, 6, 7])
    knots = sorted({rng.random() if rng.random() < 0.7 else rng.randint(0, 64) / 64 for _ in range(K)})
    K = len(knots)
    j = rng.random()
    prev = 0.0 if j < 0.35 else 1.0 if j < 0.4 else rng.choice(knots) if (j < 0.55 and knots) else rng.random()
    vv = rng.choice([0.5, 0.1, 0.05, 1.0, rng.random()])

    def nonfin():
        return rng.choice([math.nan, math.inf, -math.inf])
    style = rng.random()
    if style < 0.45:
        hi = target * (1 + rng.random())
        ess = sorted([hi * rng.random() ** 0.5 + target * 0.3 * rng.random() for _ in range(K + 1)], reverse=True)
    elif style < 0.6:
        ess = [rng.choice([target, target, math.nextafter(target, math.inf), math.nextafter(target, 0.0), target * 1.5, target * 0.5])
               for _ in range(K + 1)]
    else:
        ess = [target * (1 + rng.gauss(0, 0.4)) for _ in range(K + 1)]
    if K >= 1 and rng.random() < 0.6:
        ess[-1] = target * rng.choice([0.2, 0.9, 0.999])
        i = sum(1 for k in knots if k <= prev)
        if i < K:
            ess[i] = max(ess[i], target * rng.choice([1.0, 1.001, 1.5]))
    ms = rng.random()
    if ms < 0.45:
        met = sorted([vv * 2 * rng.random() for _ in range(K + 1)])
    elif ms < 0.65:   # inside / at the edge of the relative tolerance band around vv
        met = [vv * (1 + rng.choice([0.0, 0.005, -0.005, tolE, -tolE, 0.0101, -0.0101, 0.02, -0.3, 0.3])) for _ in range(K + 1)]
    else:
        met = [abs(vv * (1 + rng.gauss(0, 0.6))) for _ in range(K + 1)]
    if allow_nonfinite:
        if rng.random() < 0.2:
            for i in range(K + 1):
                if rng.random() < 0.3:
                    met[i] = nonfin()
        if rng.random() < 0.08:
            for i in range(K + 1):
                if rng.random() < 0.3:
                    ess[i] = nonfin()
        if mode == "ess" and rng.random() < 0.06:
            # a NaN ESS at beta_prev: the only way into the ESS-mode call of _find_beta_bisection (dead code over the reals:
            # theorems C05_ess_bisection_unreachable / C05_ieee_ess_floor / C05_nan_ess_reaches_bisection)
            ess[sum(1 for k in knots if k <= prev)] = math.nan
    if rng.random() < 0.08:
        # the last BETA_TOLERANCE of the schedule (see _gen_Q)
        if not knots or knots[-1] != 1.0:
            knots.append(1.0)
            ess.append(ess[-1])
            met.append(met[-1])
            K = len(knots)
        prev = 1.0 - tolB * rng.choice([0.5, 0.25, 0.75, 0.999, 1e-3, rng.random()])
        if prev < 1.0:
            ess[-1] = target * rng.choice([0.2, 0.9, 0.999])
            if rng.random() < 0.8:
                ess[sum(1 for k in knots if k <= prev)] = target * rng.choice([1.0, 1.001, 1.5])
    enc = f2hex
    return {"regime": "F", "mode": mode, "empty": False, "prev": enc(prev), "ratio": enc(ratio), "n": n,
            "vv": enc(vv) if mode == "dyn" else None, "tolE": enc(tolE), "tolB": enc(tolB),
            "knots": [enc(k) for k in knots], "ess": [enc(e) for e in ess], "met": [enc(m) for m in met]}


def _first_iter_cases(regime, rng, k):
    out = []
    for _ in range(k):
        c = _gen_Q(rng) if regime == "Q" else _gen_F(rng)
        c["empty"] = True
        out.append(c)
    return out


def _corr_decision(tier, drv, regime):
    n = (1200 if regime == "Q" else 1600) if tier == "quick" else 25000
    rng = common.rng_for("C05.dec." + regime)
    c = Corr(f"decision-{regime}", {"Q": "exact-dyadic (Rat model)", "F": "bit-exact (Float model, real constants, NaN/inf)"}[regime])
    cases = [(_gen_Q(rng) if regime == "Q" else _gen_F(rng)) for _ in range(n)]
    cases += _first_iter_cases(regime, rng, 12 if tier == "quick" else 100)
    lines = [_line(cs) for cs in cases]
    res = drv.batch(lines)
    for cs, line, ans in zip(cases, lines, res):
        impl = _run_table(cs)
        model = _parse_model(regime, ans)
        if model is None:
            c.case(line, False)
            c.disagree(input=line, impl=impl, model=ans, case=cs)
            continue
        nontrivial = ("upLoop" in model["sub"] or "bis" in model["sub"] or model["branch"] == "firstIter")
        c.case(line, nontrivial)
        c.count("branch:" + model["branch"])
        for sb in model["sub"].split("+"):
            if sb != "-":
                c.count("sub:" + sb)
        c.count("mode:" + cs["mode"])
        c.count("oracle_calls", len(model["calls"]))
        if regime == "F" and any(_dec("F", x) != _dec("F", x) or abs(_dec("F", x)) == math.inf for x in cs["ess"] + cs["met"]):
            c.count("tables_with_nonfinite_entries")
        if model["beta"] != _canon_tok(regime, cs["prev"]) and model["branch"] != "firstIter":
            c.count("beta_advanced")
        if 0 < 1 - _dec(regime, cs["prev"]) < _dec(regime, cs["tolB"]):
            c.count("shape:beta_prev_within_BETA_TOLERANCE_of_1")
        if not _same(impl, model):
            c.disagree(input=line, impl=impl, model=model, case=cs)
        c.sample({"op": line, "impl": impl, "model": ans}, cap=2)
    return c


# ================================================================== (ii) the oracle itself
def _gen_history(rng, mode_dyn):
    """[(beta_t, logz_t, logl[n_t], u[n_t,d])], betas non-decreasing from 0 (what a run stores) or arbitrary"""
    T = rng.randint(1, 8)
    d = rng.randint(1, 3)
    scale = rng.choice([1.0, 10.0, 100.0, 1e3])
    if rng.random() < 0.7:
        betas = [0.0]
        for _ in range(T - 1):
            betas.append(min(1.0, betas[-1] + (0.0 if rng.random() < 0.3 else rng.random() * 0.4)))
    else:
        betas = [rng.choice([0.0, 1.0, rng.random()]) for _ in range(T)]
    hist = []
    for t in range(T):
        nt = rng.randint(max(4, d + 2), 40)
        ls = [-0.5 * scale * (rng.gauss(0, 1) ** 2 + rng.gauss(0, 1) ** 2) + rng.choice([0.0, 5.0]) for _ in range(nt)]
        if rng.random() < 0.2:
            ls[rng.randrange(nt)] = ls[0]
        z = betas[t] * rng.uniform(-scale, 0) + rng.uniform(-3, 3) if rng.random() < 0.7 else rng.uniform(-50, 50)
        u = [[rng.random() for _ in range(d)] for _ in range(nt)]
        hist.append((betas[t], z, ls, u))
    return hist, d


def _commit(hist, d):
    from tempest.state_manager import StateManager
    sm = StateManager(n_dim=d)
    for t, (b, z, ls, u) in enumerate(hist):
        ua = np.array(u, dtype=float).reshape(len(ls), d)
        sm.set_current("u", ua)
        sm.set_current("x", 10.0 * ua - 5.0)
        sm.set_current("logl", np.array(ls, dtype=float))
        sm.set_current("beta", float(b))
        sm.set_current("logz", float(z))
        sm.set_current("iter", t)
        sm.commit_current_to_history()
    return sm


def _ref_weights(betas, zs, batches, beta):
    """the statement's formula, recomputed independently:
       logw_s = beta*l_s - log sum_t (n_t/N) exp(beta_t*l_s - z_t);  w ∝ exp(logw - max);  ESS = 1/sum(w_norm^2);
       logz = log mean exp(logw)."""
    ns = [len(b) for b in batches]
    N = sum(ns)
    lmw = [math.log(nt) - math.log(N) for nt in ns]
    logw = []
    for ls in batches:
        for l in ls:
            args = [bt * l - zt + w for bt, zt, w in zip(betas, zs, lmw)]
            m = max(args)
            logw.append(beta * l - (m + math.log(math.fsum(math.exp(a - m) for a in args))))
    m = max(logw)
    e = [math.exp(x - m) for x in logw]
    s = math.fsum(e)
    wn = [x / s for x in e]
    ess = 1.0 / math.fsum(x * x for x in wn)
    logz = m + math.log(s) - math.log(N)
    return wn, ess, logz


def _hist_arrays(sm):
    betas = [float(b) for b in sm._history["beta"]]
    zs = [float(z) for z in sm._history["logz"]]
    batches = [[float(x) for x in np.asarray(ls).ravel()] for ls in sm._history["logl"]]
    return betas, zs, batches


def _weights_close(w_real, wn_ref):
    w_real = np.asarray(w_real, dtype=float)
    if w_real.shape != (len(wn_ref),):
        return f"weights have shape {w_real.shape}, expected ({len(wn_ref)},)"
    for i, (a, b) in enumerate(zip(w_real.tolist(), wn_ref)):
        if not (abs(a - b) <= TOL * b + 1e-300):
            return f"weight[{i}] = {a!r}, formula gives {b!r}"
    return None


def _corr_oracle(tier):
    from tempest.steps.reweight import Reweighter
    from tempest import tools
    n = 140 if tier == "quick" else 3000
    rng = common.rng_for("C05.oracle")
    c = Corr("oracle-T", "toleranced Float (1e-9 relative) vs independent recomputation of the statement's formula")
    for _ in range(n):
        dyn = rng.random() < 0.4
        hist, d = _gen_history(rng, dyn)
        sm = _commit(hist, d)
        vv = rng.choice([0.5, 0.1]) if dyn else None
        rw = Reweighter(sm, None, 16, 2.0, vv)
        betas, zs, batches = _hist_arrays(sm)
        qs = [0.0, 1.0, betas[-1], rng.random()]
        for q in qs:
            with warnings.catch_warnings():
                warnings.simplefilter("ignore")
                w, ess, met = rw._compute_metric_and_weights(q)
            wn, ess_ref, _ = _ref_weights(betas, zs, batches, q)
            key = ([[f2hex(b), f2hex(z), [f2hex(x) for x in ls]] for b, z, ls in zip(betas, zs, batches)], f2hex(q), dyn)
            c.case(key, len(hist) >= 2)
            c.count(f"T={len(hist)}")
            c.count("dyn" if dyn else "ess")
            w = np.asarray(w, dtype=float)
            msg = _weights_close(w / np.sum(w), wn)
            if msg is None and not (abs(float(ess) - ess_ref) <= TOL * ess_ref):
                msg = f"ESS {float(ess)!r}, formula gives {ess_ref!r}"
            if msg is None:
                if dyn:
                    with warnings.catch_warnings():
                        warnings.simplefilter("ignore")
                        want = tools.volume_variation(sm.get_history("u", flat=True), w / np.sum(w))
                    if _canon(met) != _canon(want):
                        msg = f"metric {float(met)!r} is not volume_variation(u_history, normalised weights) = {float(want)!r}"
                elif _canon(met) != _canon(ess):
                    msg = f"ESS mode: metric {float(met)!r} differs from ess {float(ess)!r}"
            if msg:
                c.disagree(input={"beta": q, "dyn": dyn}, impl=msg, model="formula",
                           hist=_hist_json(hist, d), q=f2hex(q), vv=vv)
            c.sample({"T": len(hist), "N": sum(len(b) for b in batches), "beta": q, "impl_ess": float(ess), "formula_ess": ess_ref,
                      "metric": float(met)}, cap=2)
    return c


def _hist_json(hist, d):
    return {"d": d, "batches": [[f2hex(b), f2hex(z), [f2hex(x) for x in ls], [[f2hex(y) for y in row] for row in u]]
                                for b, z, ls, u in hist]}


def _hist_from_json(j):
    return [(hex2f(b), hex2f(z), [hex2f(x) for x in ls], [[hex2f(y) for y in row] for row in u]) for b, z, ls, u in j["batches"]], j["d"]


# ================================================================== (iii) constants
def _corr_constants():
    from tempest import config
    c = Corr("constants", "exact")
    for name, want in (("BETA_TOLERANCE", 1e-4), ("ESS_TOLERANCE", 0.01)):
        got = getattr(config, name, None)
        c.case((name, repr(got)), True)
        if not (isinstance(got, float) and got == want):
            c.disagree(input=name, impl=repr(got), model=repr(want))
    # the sampler hands exactly these to its Reweighter
    from . import witnesses
    with _quiet():
        s = witnesses._mk_sampler(clustering=False)
    rw = s._core.reweighter
    c.case(("wired", repr(rw.BETA_TOLERANCE), repr(rw.ESS_TOLERANCE)), True)
    if not (rw.BETA_TOLERANCE == config.BETA_TOLERANCE and rw.ESS_TOLERANCE == config.ESS_TOLERANCE):
        c.disagree(input="SamplerCore -> Reweighter", impl=[repr(rw.BETA_TOLERANCE), repr(rw.ESS_TOLERANCE)],
                   model=[repr(config.BETA_TOLERANCE), repr(config.ESS_TOLERANCE)])
    c.sample({"BETA_TOLERANCE": config.BETA_TOLERANCE, "ESS_TOLERANCE": config.ESS_TOLERANCE})
    return c


# ================================================================== (iv) whole runs
RUN_CONFIGS_QUICK = [
    dict(seed=1, vv=None, n_particles=32, ess_ratio=2.0, n_total=96),
    dict(seed=2, vv=0.5, n_particles=32, ess_ratio=2.0, n_total=96),
    dict(seed=3, vv=0.1, n_particles=32, ess_ratio=2.0, n_total=96),
    dict(seed=4, vv=0.05, n_particles=24, ess_ratio=3.0, n_total=64),
    dict(seed=5, vv=None, n_particles=16, ess_ratio=1.0, n_total=64, resample="syst"),
    dict(seed=6, vv=0.2, n_particles=16, ess_ratio=4.0, n_total=64, n_dim=3),
    dict(seed=7, vv=None, n_particles=24, ess_ratio=0.5, n_total=64, like_scale=25.0),
    dict(seed=8, vv=0.02, n_particles=32, ess_ratio=2.0, n_total=64, like_scale=25.0),
]


def _same_weights(got, returned):
    """the array a later step receives is the one Reweighter.run returned, up to renormalisation rounding
       (tools.trim_weights divides its argument by its sum IN PLACE, which moves entries by a few ulp)"""
    got = np.asarray(got, dtype=float)
    return got.shape == returned.shape and bool(np.all(np.abs(got - returned) <= TOL * returned + 1e-300))


class _StopRun(Exception):
    """raised by the observer to truncate a long (slowly advancing) run: not an error"""


class _TimedOut(Exception):
    """a real run did not finish within its (very generous) time limit"""


CALL_BUDGET = 4000      # oracle calls within ONE Reweighter.run (a correct run makes at most ~50: two searches of <= 14 halvings)
RUN_SECONDS = 90        # wall-clock limit of one real run (a correct one takes about a second)


@contextlib.contextmanager
def _time_limit(seconds):
    import signal

    def handler(signum, frame):
        raise _TimedOut(f"the run did not finish within {seconds} s (a search loop of the reweighting step does not terminate?)")
    old = signal.signal(signal.SIGALRM, handler)
    signal.setitimer(signal.ITIMER_REAL, seconds)
    try:
        yield
    finally:
        signal.setitimer(signal.ITIMER_REAL, 0)
        signal.signal(signal.SIGALRM, old)


def _sampler_kwargs(cfg):
    scale = cfg.get("like_scale", 1.0)
    return dict(clustering=cfg.get("clustering", False), volume_variation=cfg["vv"], n_particles=cfg["n_particles"],
                ess_ratio=cfg["ess_ratio"], random_state=cfg["seed"], n_dim=cfg.get("n_dim", 2), resample=cfg.get("resample", "mult"),
                log_likelihood=lambda x: -0.5 * scale * float(np.sum(x ** 2)))


def _instrument(s, max_iter=40):
    """install the observers of suite (iv) on a live Sampler; returns the list that will receive one record per
       Reweighter.run: state before/after, every oracle call with its results, the Z calls made by run itself, the returned
       weights and what Trainer.run / Resampler.run received."""
    core = s._core
    rw, sm = core.reweighter, core.state
    its = []
    cur = {}
    depth = [0]
    orig_m = rw._compute_metric_and_weights
    orig_z = sm.compute_logw_and_logz
    orig_run = rw.run
    orig_train = core.trainer.run
    orig_res = core.resampler.run

    def m_spy(beta):
        depth[0] += 1
        try:
            r = orig_m(beta)
        finally:
            depth[0] -= 1
        if "calls" in cur:
            cur["calls"].append((float(beta), np.array(r[0], dtype=float, copy=True), float(r[1]), float(r[2])))
            if len(cur["calls"]) > CALL_BUDGET:
                raise RuntimeError(f"more than {CALL_BUDGET} oracle calls within one Reweighter.run (a search loop does not terminate)")
        return r

    def z_spy(*a, **k):
        r = orig_z(*a, **k)
        if "zcalls" in cur and depth[0] == 0 and cur.get("inside"):
            b = a[0] if a else k.get("beta_final", 1.0)
            cur["zcalls"].append((float(b), float(r[1])))
        return r

    def run_spy():
        if len(its) >= max_iter:
            raise _StopRun()
        cur.clear()
        cur.update(calls=[], zcalls=[], inside=True, prev=sm.get_current("beta"), hist_len=sm.get_history_length(),
                   hist=_hist_arrays(sm), iter_before=sm.get_current("iter"))
        w = orig_run()
        cur["inside"] = False
        cur.update(beta=sm.get_current("beta"), ess=sm.get_current("ess"), logz=sm.get_current("logz"),
                   iter_after=sm.get_current("iter"), weights=np.array(w, dtype=float, copy=True))
        its.append(dict(cur))
        return w

    def train_spy(weights):
        its[-1]["train_same"] = _same_weights(weights, its[-1]["weights"])
        its[-1]["beta_at_train"] = sm.get_current("beta")
        its[-1]["train_sum"] = float(np.sum(weights))
        return orig_train(weights)

    def res_spy(weights):
        its[-1]["res_same"] = _same_weights(weights, its[-1]["weights"])
        its[-1]["beta_at_resample"] = sm.get_current("beta")
        return orig_res(weights)
    rw._compute_metric_and_weights = m_spy
    sm.compute_logw_and_logz = z_spy
    rw.run = run_spy
    core.trainer.run = train_spy
    core.resampler.run = res_spy
    return its


def _run_quiet(fn):
    """run `fn()` silently; returns an error string or None (the observer's truncation is not an error)"""
    try:
        with _quiet(), warnings.catch_warnings(), _time_limit(RUN_SECONDS):
            warnings.simplefilter("ignore")
            fn()
    except _StopRun:
        return None
    except Exception as e:  # noqa
        return f"{type(e).__name__}: {e}"
    return None


def _record_run(cfg, max_iter=40):
    """one real Sampler run, observed"""
    from . import witnesses
    with _quiet():
        s = witnesses._mk_sampler(**_sampler_kwargs(cfg))
    its = _instrument(s, max_iter)
    err = _run_quiet(lambda: s.run(n_total=cfg["n_total"], progress=False))
    return its, err, s._core.reweighter


def _iter_case(it, cfg, rw):
    """table + model line replaying the oracle values the real iteration saw"""
    tab = {}
    for b, _, e, m in it["calls"]:
        if b in tab and (_canon(tab[b][0]) != _canon(e) or _canon(tab[b][1]) != _canon(m)):
            return None, f"oracle not a function of beta within one run(): beta={b!r} gave {(tab[b])} and {(e, m)}"
        tab[b] = (e, m)
    knots = sorted(tab)
    if knots:
        ess = [tab[knots[0]][0]] + [tab[k][0] for k in knots]
        met = [tab[knots[0]][1]] + [tab[k][1] for k in knots]
    else:
        ess, met = [0.0], [0.0]
    enc = f2hex
    vv = cfg["vv"]
    return {"regime": "F", "mode": "dyn" if vv is not None else "ess", "empty": it["hist_len"] == 0, "prev": enc(it["prev"]),
            "ratio": enc(rw.ess_ratio), "n": int(rw.n_particles), "vv": enc(vv) if vv is not None else None,
            "tolE": enc(rw.ESS_TOLERANCE), "tolB": enc(rw.BETA_TOLERANCE), "knots": [enc(k) for k in knots],
            "ess": [enc(e) for e in ess], "met": [enc(m) for m in met]}, None


def _compare_iterations(c, cfg, its, rw, drv, first_is_fresh=True):
    """replay every observed Reweighter.run of one real run in the Float model (table of the oracle values the real iteration
       saw) and compare; also the frame conditions between iterations and the hand-off to Trainer.run / Resampler.run"""
    lines, metas = [], []
    for k, it in enumerate(its):
        cs, msg = _iter_case(it, cfg, rw)
        if cs is None:
            c.case(("run", cfg, k), False)
            c.disagree(input=cfg, impl=msg, model="-", run_cfg=cfg, iteration=k)
            continue
        lines.append(_line(cs))
        metas.append((k, it, cs))
    res = drv.batch(lines)
    prev_beta = None
    for (k, it, cs), line, ans in zip(metas, lines, res):
        model = _parse_model("F", ans)
        calls = [_canon(b) for b, _, _, _ in it["calls"]]
        problems = []
        if model is None:
            problems.append(f"model answered {ans}")
        else:
            c.count("branch:" + model["branch"])
            for sb in model["sub"].split("+"):
                if sb != "-":
                    c.count("sub:" + sb)
            if model["beta"] != _canon(it["beta"]):
                problems.append(f"beta: impl {it['beta']!r} model {hex2f(model['beta']) if model['beta'] != 'nan' else 'nan'!r}")
            if model["calls"] != calls:
                problems.append(f"oracle call sequence differs: impl {len(calls)} calls, model {len(model['calls'])}")
            if model["ess"] != _canon(it["ess"]):
                problems.append(f"ess: impl {it['ess']!r} model {model['ess']}")
            if it["hist_len"] == 0:
                n = int(rw.n_particles)
                if not (model["wtag"] == f"U{n}" and it["weights"].shape == (n,) and bool(np.all(it["weights"] == 1.0 / n))):
                    problems.append("first iteration: weights are not uniform of length n_particles")
                if _canon(it["logz"]) != _canon(0.0) or it["zcalls"]:
                    problems.append(f"first iteration: logz {it['logz']!r}, Z calls {it['zcalls']}")
            else:
                same_as = {_canon(b) for b, w, _, _ in it["calls"] if w.shape == it["weights"].shape
                           and bool(np.array_equal(w / np.sum(w), it["weights"]))}
                if model["wtag"] not in same_as:
                    problems.append(f"returned weights are those computed at beta in {sorted(same_as)}, model says {model['wtag']}")
                if [_canon(b) for b, _ in it["zcalls"]] != model["zcalls"]:
                    problems.append(f"Z calls: impl {[b for b, _ in it['zcalls']]}, model {model['zcalls']}")
                elif it["zcalls"] and _canon(it["zcalls"][-1][1]) != _canon(it["logz"]):
                    problems.append("recorded logz is not the value compute_logw_and_logz returned for the recorded beta")
        if k == 0 and first_is_fresh and it["hist_len"] != 0:
            problems.append("a fresh run started with a non-empty history")
        if prev_beta is not None and _canon(prev_beta) != _canon(it["prev"]):
            problems.append(f"state['beta'] changed between iterations: {prev_beta!r} -> {it['prev']!r}")
        if it["iter_after"] != it["iter_before"] + 1:
            problems.append("iter not incremented by one")
        if not it.get("train_same", False) or not it.get("res_same", False):
            problems.append("Trainer.run / Resampler.run did not receive the array Reweighter.run returned")
        if _canon(it.get("beta_at_train")) != _canon(it["beta"]) or _canon(it.get("beta_at_resample")) != _canon(it["beta"]):
            problems.append("state['beta'] differs when training/resampling run")
        prev_beta = it["beta"]
        nontrivial = model is not None and ("upLoop" in model["sub"] or "bis" in model["sub"] or model["branch"] == "firstIter")
        c.case((cfg, k, line), nontrivial)
        c.count("iterations")
        c.count("oracle_calls", len(calls))
        if problems:
            c.disagree(input=line, impl="; ".join(problems), model=ans, run_cfg=cfg, iteration=k)


def _corr_runs(tier, drv):
    c = Corr("whole-run", "bit-exact (Float model fed the oracle values of the real run)")
    cfgs = list(RUN_CONFIGS_QUICK)
    if tier != "quick":
        rng = common.rng_for("C05.runs")
        for i in range(40):
            cfgs.append(dict(seed=100 + i, vv=rng.choice([None, 0.5, 0.2, 0.1, 0.05, 0.02]), n_particles=rng.choice([16, 24, 32, 48]),
                             ess_ratio=rng.choice([0.5, 1.0, 2.0, 3.0]), n_total=rng.choice([64, 128]),
                             like_scale=rng.choice([1.0, 5.0, 25.0]), n_dim=rng.choice([1, 2, 3])))
    for cfg in cfgs:
        its, err, rw = _record_run(cfg)
        if err:
            c.case(("run", cfg), False)
            c.disagree(input=cfg, impl=f"run raised {err}", model="-", run_cfg=cfg)
            if "_TimedOut" in err or "oracle calls within one Reweighter.run" in err:
                c.count("remaining_runs_skipped_after_a_non_terminating_run")
                break       # the tie is broken; the remaining runs would each wait for their time limit
            continue
        _compare_iterations(c, cfg, its, rw, drv)
        betas = [it["beta"] for it in its]
        c.count("mode:" + ("dyn" if cfg["vv"] is not None else "ess"))
        # VV-mode and ESS-mode warm-up (theorem C05_cl_warmup_count): beta_k = 0 for every k < ess_ratio
        for k, b in enumerate(betas):
            if k < cfg["ess_ratio"]:
                c.count("warmup_iterations_checked")
                if b != 0.0:
                    c.disagree(input=cfg, impl=f"iteration {k} left beta = 0 although the pool ({k}*n) is smaller than the ESS target",
                               model="beta_k = 0 for k < ess_ratio", run_cfg=cfg, iteration=k)
        c.sample({"config": cfg, "beta_sequence": betas}, cap=3)
    return c


# ================================================================== (iv-b) resumed / continued / extended runs
RESUME_CONFIGS = [
    dict(seed=11, vv=None, n_particles=16, ess_ratio=2.0, n_total=64, how="path"),
    dict(seed=12, vv=0.5, n_particles=16, ess_ratio=2.0, n_total=64, how="load"),
    dict(seed=13, vv=None, n_particles=16, ess_ratio=1.0, n_total=48, how="load", resample="syst"),
    dict(seed=14, vv=0.1, n_particles=16, ess_ratio=2.0, n_total=48, how="path"),
    dict(seed=15, vv=None, n_particles=16, ess_ratio=2.0, n_total=48, how="extend"),
    dict(seed=16, vv=0.5, n_particles=16, ess_ratio=2.0, n_total=48, how="extend"),
    # an EARLIER checkpoint loaded back into the SAME, already used sampler object (its step components — a Reweighter is an object
    # and may carry state — have seen the whole run), then continued with run() / with sample() calls
    dict(seed=17, vv=0.5, n_particles=32, ess_ratio=2.0, n_total=96, how="reload"),
    dict(seed=18, vv=None, n_particles=16, ess_ratio=2.0, n_total=64, how="reload"),
    dict(seed=19, vv=0.5, n_particles=16, ess_ratio=2.0, n_total=64, how="reload_sample", like_scale=25.0),
    dict(seed=20, vv=0.1, n_particles=16, ess_ratio=3.0, n_total=48, how="reload_sample"),
]


def _resume_run(cfg):
    """run A (uninstrumented, `save_every=2`) to completion; then, per `how`:
         path    a NEW sampler: run(resume_state_path=<a checkpoint from the middle of A>)
         load    a NEW sampler: load_state(<that checkpoint>) then run()                      (the branch added in /repo aeb0399)
         extend  the SAME sampler: a second run() with a larger n_total                        (same branch)
         reload / reload_sample   the SAME sampler after its run completed: load_state(<an EARLY checkpoint of that run>), then run()
                 resp. up to 8 sample() calls — the step components of the object have already been through the whole schedule
       returns a dict with A's recorded schedule, the restored state and the observed iterations of the continuation"""
    import shutil
    import tempfile
    import dill
    from . import witnesses
    d = tempfile.mkdtemp(prefix="c05res_")
    out = {"cfg": cfg}
    try:
        kw = _sampler_kwargs(cfg)
        with _quiet():
            a = witnesses._mk_sampler(output_dir=d, output_label="a", **kw)
        err = _run_quiet(lambda: a.run(n_total=cfg["n_total"], progress=False, save_every=2))
        if err:
            out["error"] = f"run A raised {err}"
            return out
        out["betas_A"] = [float(b) for b in a.state._history["beta"]]
        out["iters_A"] = [int(i) for i in a.state._history["iter"]]
        if cfg["how"] == "extend":
            out["saved_beta"], out["saved_iter"], out["saved_len"] = (float(a.state.get_current("beta")), int(a.state.get_current("iter")),
                                                                   a.state.get_history_length())
            its = _instrument(a, 60)
            err = _run_quiet(lambda: a.run(n_total=4 * cfg["n_total"], progress=False))
            b = a
        else:
            files = sorted((f for f in os.listdir(d) if f.startswith("a_") and f[2:-6].isdigit()), key=lambda f: int(f[2:-6]))
            if not files:
                out["error"] = "run A wrote no periodic checkpoint"
                return out
            same = cfg["how"] in ("reload", "reload_sample")
            path = os.path.join(d, files[(len(files) // 3) if same else (len(files) // 2)])
            with open(path, "rb") as fh:
                dd = dill.load(fh)
            out["saved_beta"], out["saved_iter"] = float(dd["_current"]["beta"]), int(dd["_current"]["iter"])
            out["saved_len"] = len(dd["_history"]["beta"])
            if same:
                b = a
            else:
                with _quiet():
                    b = witnesses._mk_sampler(**kw)
            its = _instrument(b, 60)
            if cfg["how"] == "path":
                err = _run_quiet(lambda: b.run(n_total=cfg["n_total"], progress=False, resume_state_path=path))
            elif cfg["how"] == "reload_sample":
                def go_s():
                    b.load_state(path)
                    for _ in range(8):
                        b.sample()
                        if float(b.state.get_current("beta")) >= 1.0:
                            break
                err = _run_quiet(go_s)
            else:
                def go():
                    b.load_state(path)
                    b.run(n_total=cfg["n_total"], progress=False)
                err = _run_quiet(go)
        if err:
            out["error"] = f"the continuation raised {err}"
        out["its"], out["rw"] = its, b._core.reweighter
        out["betas_B_hist"] = [float(x) for x in b.state._history["beta"]]
        return out
    finally:
        shutil.rmtree(d, ignore_errors=True)


def _resume_property_problem(r):
    """C05's OWN clauses on every continued / resumed iteration of the real run (independent recomputation from the history the
       iteration started from): beta_prev <= beta <= 1; once beta advances the pool ESS at the new beta is >= the target (ESS mode) resp.
       beta is not beyond the ESS-limited temperature (volume-variation mode); recorded ESS / evidence / returned weights are the
       pool's at the recorded beta; the recorded schedule never decreases."""
    if "error" in r:
        return r["error"]
    rw = r["rw"]
    target = rw.ess_ratio * rw.n_particles
    for k, it in enumerate(r["its"]):
        if it["hist_len"] == 0:
            continue
        betas, zs, batches = it["hist"]
        msg = _check_iteration(betas, zs, batches, float(it["prev"]), it["beta"], it["ess"], it["logz"], it["weights"], target,
                               rw.volume_variation, rw.BETA_TOLERANCE)
        if msg:
            return f"continued iteration {k} (history of {it['hist_len']} iterations, beta_prev = {float(it['prev'])!r}): {msg}"
        if not it.get("train_same", True) or not it.get("res_same", True):
            return f"continued iteration {k}: Trainer.run / Resampler.run did not receive the weights Reweighter.run returned"
    whole = r["betas_B_hist"]
    if any(b2 < b1 for b1, b2 in zip(whole, whole[1:])) or any(not (0.0 <= b_ <= 1.0) for b_ in whole):
        return f"the recorded schedule of the continued run is not a non-decreasing sequence in [0, 1]: {whole}"
    return None


def _resume_internal_problem(r):
    """model-vs-code expectations about HOW a run is continued (theorems C05_resume_schedule / C05_continue_schedule / C05_resume_exact
       describe the code as it is now).  These are correspondence matters: a disagreement is never by itself a failing input of C05."""
    if "error" in r:
        return r["error"]
    cfg, its = r["cfg"], r["its"]
    if not its:
        return None if cfg["how"] == "extend" else "the continuation executed no iteration although the checkpoint is from the middle of the run"
    first = its[0]
    if first["hist_len"] != r["saved_len"]:
        return f"the continuation started with {first['hist_len']} stored iterations, the restored state holds {r['saved_len']}"
    if _canon(first["prev"]) != _canon(r["saved_beta"]):
        return (f"the continuation started its schedule from beta = {first['prev']!r}; the restored state was at beta = "
                f"{r['saved_beta']!r}")
    if first["iter_before"] != r["saved_iter"]:
        return f"the continuation numbered its first iteration from iter = {first['iter_before']}, restored iter = {r['saved_iter']}"
    if cfg["how"] in ("path", "load") and not cfg.get("clustering", False):
        # same stream position, no trainer state: the model says the continuation IS the remainder of run A (C05_resume_exact)
        whole = r["betas_B_hist"]
        if [_canon(b) for b in whole] != [_canon(b) for b in r["betas_A"]]:
            return f"[model-vs-code] resumed schedule {whole} differs from the uninterrupted schedule {r['betas_A']}"
    return None


def _corr_resume(tier, drv):
    c = Corr("resume-run", "bit-exact (Float model fed the oracle values of the continued run; schedule vs the uninterrupted run)")
    cfgs = list(RESUME_CONFIGS)
    if tier != "quick":
        rng = common.rng_for("C05.resume")
        for i in range(18):
            cfgs.append(dict(seed=300 + i, vv=rng.choice([None, 0.5, 0.1, 0.05]), n_particles=rng.choice([16, 24]),
                             ess_ratio=rng.choice([1.0, 2.0, 3.0]), n_total=rng.choice([48, 96]), how=rng.choice(["path", "load", "extend", "reload", "reload_sample"]),
                             resample=rng.choice(["mult", "syst"]), like_scale=rng.choice([1.0, 5.0])))
    for cfg in cfgs:
        r = _resume_run(cfg)
        c.count("how:" + cfg["how"])
        c.count("mode:" + ("dyn" if cfg["vv"] is not None else "ess"))
        prob = _resume_internal_problem(r)
        c.case(("resume", cfg), bool(r.get("its")))
        if prob:
            c.disagree(input=cfg, impl=prob, model="continues from the restored state (kind: internal, model-vs-code)", resume_cfg=cfg)
            if "_TimedOut" in prob or "oracle calls within one Reweighter.run" in prob:
                c.count("remaining_runs_skipped_after_a_non_terminating_run")
                break
            if "error" in r:
                continue
        c.count("continued_iterations", len(r["its"]))
        c.count("advances_after_resume", sum(1 for it in r["its"] if it["beta"] != it["prev"]))
        n0 = len(c.disagreements)
        _compare_iterations(c, cfg, r["its"], r["rw"], drv, first_is_fresh=False)
        for dgr in c.disagreements[n0:]:
            dgr.pop("run_cfg", None)
            dgr["resume_cfg"] = cfg
        c.sample({"config": cfg, "saved_beta": r["saved_beta"], "continued_betas": [it["beta"] for it in r["its"]]}, cap=3)
    return c


def oracle_resume(cfg):
    return _resume_property_problem(_resume_run(cfg))


# ================================================================== (iv-c) the last BETA_TOLERANCE of the schedule, real StateManager histories
def _late_params(rng):
    """a pool that is steep in beta near the posterior: warm-up batches of very low likelihood, one early level, then several
       batches stored at beta = 1 - delta (delta around BETA_TOLERANCE: inside the last tolerance window, or just outside so that
       the first step moves into it) with log-likelihoods spread over [0, H]; evidence values computed by the StateManager itself"""
    if rng.random() < 0.35:
        # mid-schedule pool whose composition CHANGES between two calls of the same Reweighter object: the batch committed in between
        # lies far higher in likelihood (a newly discovered mode), which lowers the pool ESS at the temperatures visited before —
        # anything a reweighter remembers from its previous call (a bracket, a limit) is then stale
        return {"late_seed": rng.randrange(2 ** 31), "vv": rng.choice([None, 0.5, 0.5, 0.1, 0.05]), "ratio": rng.choice([2.0, 2.0, 3.0]),
                "n": rng.choice([32, 64]), "delta": rng.choice([0.3, 0.6, 0.8, 0.9]), "H": rng.choice([20.0, 60.0, 200.0]),
                "late": rng.choice([3, 4, 6]), "steps": 3, "between": "higher"}
    return {"late_seed": rng.randrange(2 ** 31), "vv": rng.choice([None, None, None, 0.5, 0.1]), "ratio": rng.choice([2.0, 2.0, 1.0, 3.0]),
            "n": rng.choice([32, 64]), "delta": rng.choice([0.25, 0.5, 0.75, 0.9, 1.5, 1.5, 3.0]) * 1e-4,
            "H": rng.choice([2e4, 7.5e4, 7.5e4, 2e5]), "late": rng.choice([3, 6, 6, 8]), "steps": 2}


def _late_state(p):
    """the StateManager of `_late_params` (public API only: update_current / commit_current_to_history)"""
    from tempest.state_manager import StateManager
    rs = np.random.RandomState(p["late_seed"])
    n = p["n"]
    grid = (np.arange(n) + 0.5) / n
    sm = StateManager(n_dim=2)
    plan = [(0.0, -5.0e5 - 1.0e5 * grid), (0.0, -5.0e5 - 1.0e5 * grid[::-1]), (0.5, -2.0e4 - 1.0e4 * grid)]
    plan += [(1.0 - p["delta"], p["H"] * np.sort(rs.rand(n)) if k % 2 else p["H"] * grid) for k in range(p["late"])]
    for it, (b, ls) in enumerate(plan, start=1):
        z = 0.0 if sm.get_history_length() == 0 else float(sm.compute_logw_and_logz(b)[1])
        u = rs.rand(n, 2)
        sm.update_current({"u": u, "x": u.copy(), "logl": np.asarray(ls, dtype=float), "beta": float(b), "logz": z, "ess": float(n),
                           "iter": it, "calls": it * n, "steps": 1, "acceptance": 1.0, "efficiency": 1.0})
        sm.commit_current_to_history()
    return sm, rs, grid


def _late_run(p, instrument=False):
    """`steps` calls of the REAL Reweighter.run() on that state; after each call the sampler's mutate + commit is imitated (a new batch
       at the temperature the reweighter wrote).  Returns (per-step observations, its-or-None, reweighter, error)"""
    import types
    from tempest.steps.reweight import Reweighter
    from tempest import config
    sm, rs, grid = _late_state(p)
    rw = Reweighter(sm, None, p["n"], p["ratio"], p["vv"], ESS_TOLERANCE=config.ESS_TOLERANCE, BETA_TOLERANCE=config.BETA_TOLERANCE)
    core = types.SimpleNamespace(reweighter=rw, state=sm, trainer=types.SimpleNamespace(run=lambda w: None),
                                 resampler=types.SimpleNamespace(run=lambda w: None))
    its = _instrument(types.SimpleNamespace(_core=core), 10) if instrument else None
    obs = []
    for _k in range(p["steps"]):
        prev = float(sm.get_current("beta"))
        hist = _hist_arrays(sm)
        try:
            with warnings.catch_warnings(), _time_limit(RUN_SECONDS):
                warnings.simplefilter("ignore")
                w = rw.run()
                core.trainer.run(w)
                core.resampler.run(w)
        except Exception as e:  # noqa
            return obs, its, rw, f"Reweighter.run raised {type(e).__name__}: {e}"
        obs.append({"hist": hist, "prev": prev, "beta": sm.get_current("beta"), "ess": sm.get_current("ess"),
                    "logz": sm.get_current("logz"), "weights": np.array(w, dtype=float, copy=True)})
        u = rs.rand(p["n"], 2)
        ls = p["H"] * grid
        if p.get("between") == "higher":
            ls = p["H"] * (1.0 + 2.0 * (_k + 1)) + 0.25 * p["H"] * grid
        sm.update_current({"u": u, "x": u.copy(), "logl": ls, "calls": int(sm.get_current("calls")) + p["n"]})
        sm.commit_current_to_history()
    return obs, its, rw, None


def oracle_late(p):
    """C05 on those steps (the property's own oracle: independent recomputation of weights / ESS / evidence from the history)"""
    from tempest import config
    obs, _its, _rw, err = _late_run(p)
    for k, o in enumerate(obs):
        betas, zs, batches = o["hist"]
        msg = _check_iteration(betas, zs, batches, o["prev"], o["beta"], o["ess"], o["logz"], o["weights"], p["ratio"] * p["n"], p["vv"],
                               config.BETA_TOLERANCE)
        if msg:
            return f"step {k + 1} (beta_prev = {o['prev']!r}, 1 - beta_prev = {1.0 - o['prev']:.3e}): {msg}"
    return err


def _corr_late(tier, drv):
    c = Corr("late-history", "bit-exact (Float model fed the oracle values of the real Reweighter on real StateManager histories)")
    rng = common.rng_for("C05.late")
    for _ in range(10 if tier == "quick" else 120):
        p = _late_params(rng)
        obs, its, rw, err = _late_run(p, instrument=True)
        cfg = {"vv": p["vv"], "late": p}
        c.count("mode:" + ("dyn" if p["vv"] is not None else "ess"))
        if err:
            c.case(("late", p), False)
            c.disagree(input=p, impl=err, model="-", late_case=p)
            continue
        for o in obs:
            if 0 < 1.0 - o["prev"] < rw.BETA_TOLERANCE:
                c.count("steps_started_within_BETA_TOLERANCE_of_1")
            if o["beta"] != o["prev"]:
                c.count("steps_that_advanced")
            if o["beta"] == 1.0:
                c.count("steps_that_reached_1")
        n0 = len(c.disagreements)
        _compare_iterations(c, cfg, its, rw, drv, first_is_fresh=False)
        for dgr in c.disagreements[n0:]:
            dgr["late_case"] = p
            dgr.pop("run_cfg", None)
        c.sample({"params": p, "steps": [(o["prev"], o["beta"], float(o["ess"])) for o in obs]}, cap=3)
    return c


# ================================================================== (vii) the closed-loop model (tie of Props/C05Closed, C05Resume)
CL_CONFIGS = [dict(kernel="tpcn", resample="mult", clustering=False, vv=0.5), dict(kernel="rwm", resample="syst", clustering=False, vv=0.05),
              dict(kernel="tpcn", resample="syst", clustering=True, vv=0.1), dict(kernel="rwm", resample="mult", clustering=False, vv=None),
              dict(kernel="tpcn", resample="syst", clustering=True, vv=None)]


CL_MAX_ITER = 80


def _cl_truncated(t):
    """the recorder's own iteration cap (a slowly advancing run): a truncation, not an error"""
    return t.error is not None and t.error[0] == "_Cap" and len(t.iters) >= CL_MAX_ITER


def _cl_record(cfg, seed):
    from . import c10cl
    with _time_limit(RUN_SECONDS):
        return c10cl.record_run(cfg, 0.0, seed, n=16, n_total=96 if cfg["resample"] == "syst" else 48, max_iter=CL_MAX_ITER)


def _cl_trace_problem(t):
    """C05 on an instrumented whole run (harness/c10cl.py): what the closed-loop theorems assume of the world and conclude"""
    n, core = t.n, t.s._core
    ratio, vv = core.config.ess_ratio, core.config.volume_variation
    if t.error and t.error[0] == "_TimedOut":
        return f"the run did not finish within {RUN_SECONDS} s (a search loop of the reweighting step does not terminate?)"
    if t.error and not _cl_truncated(t):
        return f"run raised {t.error}"
    for k, dr in enumerate(t.draws):
        if len(dr) != n:
            return f"warm-up iteration {k} drew {len(dr)} prior samples, n_particles = {n}"       # hypothesis of C05_cl_warmup
    betas = [i["beta"] for i in t.iters]
    if betas and betas[0] != 0.0:
        return f"the schedule starts at beta = {betas[0]!r}"
    for k, (a, b) in enumerate(zip(betas, betas[1:])):
        if not (a <= b <= 1.0):
            return f"iteration {k + 1}: beta went from {a!r} to {b!r}"
    for k, b in enumerate(betas):
        if k < ratio and b != 0.0:
            return f"iteration {k} left beta = 0 although the pool ({k}*n) is smaller than ess_ratio*n"
    target = ratio * n
    for k, (it, calls) in enumerate(zip(t.iters, t.metric_calls)):
        if k == 0 or not calls:
            continue
        at = [e for (b, e, _m) in calls if b == it["beta"]]
        if not at:
            return f"iteration {k}: no oracle call was made at the recorded beta {it['beta']!r}"
        if _canon(at[-1]) != _canon(it["ess"]):
            return f"iteration {k}: recorded ESS {it['ess']!r} is not the ESS computed at the recorded beta ({at[-1]!r})"
        if vv is None and it["beta"] != betas[k - 1] and not (it["ess"] >= target):
            return f"iteration {k}: ESS mode advanced to beta = {it['beta']!r} where ESS = {it['ess']!r} < target {target!r}"
    for k, (tw, rw_) in enumerate(zip(t.train_w, t.res_w)):
        if tw.shape != rw_.shape or not np.allclose(tw / np.sum(tw), rw_ / np.sum(rw_), rtol=1e-9, atol=0):
            return f"iteration {k}: Trainer.run and Resampler.run were handed different weights"
    return None


def _corr_closed(tier, drv):
    """instrumented whole runs replayed by the closed-loop model `cl.F` (suite owned by C10; re-run here in both metric modes
       because the theorems of Props/C05Closed.lean / C05Resume.lean are stated about that model)"""
    from . import c10cl
    rng = common.rng_for("C05.closed")
    c = Corr("dep:closed-loop-replay", "toleranced Float (decisions exact, near-ties counted)")
    cfgs = list(CL_CONFIGS)
    if tier != "quick":
        cfgs = cfgs * 3 + [dict(kernel=k, resample=r_, clustering=cl, vv=v) for k in ("tpcn", "rwm") for r_ in ("mult", "syst")
                           for cl in (False, True) for v in (0.5, 0.2, 0.03)]
    items, lines = [], []
    for cfg in cfgs:
        seed = rng.randrange(2 ** 31)
        t = _cl_record(cfg, seed)
        info = {"config": cfg, "seed": seed}
        betas = [i["beta"] for i in t.iters]
        c.case((cfg, seed), any(b > 0 for b in betas))
        c.count("mode:" + ("dyn" if cfg["vv"] is not None else "ess"))
        c.count("iterations", len(betas))
        c.count("warmup_iterations", sum(1 for b in betas if b == 0.0))
        c.count("advances", sum(1 for a, b in zip(betas, betas[1:]) if b != a))
        prob = _cl_trace_problem(t)
        if prob:
            c.disagree(input=info, impl=prob, model="C05 on the instrumented run", cl_cfg=cfg, cl_seed=seed)
            if t.error and t.error[0] == "_TimedOut":
                c.count("remaining_runs_skipped_after_a_non_terminating_run")
                break
            continue
        if t.error is None:
            items.append((t, info))
            lines.append(c10cl.model_line(t))
        else:
            c.count("runs_truncated_at_the_iteration_cap")
    for (t, info), ans in zip(items, drv.batch(lines)):
        prob, tie = c10cl.compare_model(t, ans)
        for br in c10cl.model_branches(ans):
            c.count("branch:" + br)
        if tie:
            c.near_ties += 1
        elif prob:
            c.disagree(input=info, impl=prob, model=ans[:200], cl_cfg=info["config"], cl_seed=info["seed"])
        c.sample({"config": info["config"], "betas": [round(i["beta"], 4) for i in t.iters]}, cap=2)
    return c


def oracle_closed(cfg, seed):
    return _cl_trace_problem(_cl_record(cfg, seed))


# ================================================================== (v) direct calls of the two search functions
def _gen_direct(rng, regime):
    """a table plus a DIRECT call of _find_beta_bisection (both update directions, arbitrary brackets — also the ones run() never
       produces: ESS-mode bisection on a finite oracle, bmin == bmax, brackets whose midpoint is exactly 1.0) or of
       _find_beta_upper_limit"""
    cs = _gen_Q(rng) if regime == "Q" else _gen_F(rng, allow_nonfinite=rng.random() < 0.5)
    enc = frac2s if regime == "Q" else f2hex
    val = (lambda x: Fraction(x)) if regime == "Q" else hex2f
    kind = "up" if rng.random() < 0.3 else "bis"
    cs["kind"] = kind
    n = int(cs["n"])
    target_ess = val(cs["ratio"]) * n
    if kind == "up":
        cs["target"] = enc(target_ess)
        return cs
    dyn = rng.random() < 0.5
    cs["dyn"] = 1 if dyn else 0
    if dyn:
        if cs["vv"] is None:
            cs["vv"] = enc(Fraction(rng.randint(1, 16), 16)) if regime == "Q" else enc(rng.choice([0.5, 0.1, 0.05, 1.0]))
        cs["target"] = cs["vv"]
    else:
        cs["target"] = enc(target_ess)
    knots = [val(k) for k in cs["knots"]]

    def pt():
        j = rng.random()
        if regime == "Q":
            g = 2 ** rng.choice([2, 3, 4, 6])
            return rng.choice(knots) if (j < 0.3 and knots) else Fraction(rng.randint(0, g), g)
        return rng.choice(knots) if (j < 0.3 and knots) else rng.choice([0.0, 1.0, rng.random(), rng.randint(0, 16) / 16])
    j = rng.random()
    if j < 0.06:
        a = b = pt()
    elif j < 0.12:                      # midpoint exactly 1.0 (the `beta == 1.0` exit)
        h = pt()
        a, b = 1 - h, 1 + h
    elif j < 0.16:                      # inverted bracket: beta_converged at once
        a, b = sorted([pt(), pt()], reverse=True)
    else:
        a, b = sorted([pt(), pt()])
    cs["bmin"], cs["bmax"] = enc(a), enc(b)
    return cs


def _line_direct(cs):
    tab = f"knots={flist(cs['knots'], str)} ess={flist(cs['ess'], str)} met={flist(cs['met'], str)}"
    if cs["kind"] == "up":
        return f"up.{cs['regime']} prev={cs['prev']} target={cs['target']} tol={cs['tolB']} fuel={FUEL} {tab}"
    return (f"bis.{cs['regime']} dyn={cs['dyn']} bmin={cs['bmin']} bmax={cs['bmax']} target={cs['target']} tolE={cs['tolE']} "
            f"tolB={cs['tolB']} fuel={FUEL} {tab}")


def _run_direct(cs):
    from tempest.state_manager import StateManager
    from tempest.steps.reweight import Reweighter
    rg = cs["regime"]
    target = _dec(rg, cs["target"])
    dyn = cs["kind"] == "bis" and cs["dyn"] == 1
    rw = Reweighter(StateManager(n_dim=1), None, int(cs["n"]), _dec(rg, cs["ratio"]), target if dyn else None,
                    ESS_TOLERANCE=_dec(rg, cs["tolE"]), BETA_TOLERANCE=_dec(rg, cs["tolB"]))
    orc = TableOracle([_dec(rg, k) for k in cs["knots"]], [_dec(rg, e) for e in cs["ess"]], [_dec(rg, m) for m in cs["met"]])
    rw._compute_metric_and_weights = orc
    try:
        with warnings.catch_warnings():
            warnings.simplefilter("ignore")
            if cs["kind"] == "up":
                beta = rw._find_beta_upper_limit(_dec(rg, cs["prev"]), target)
                return {"beta": _canon(beta), "calls": [_canon(b) for b in orc.calls]}
            if dyn:       # the closures `run` builds (reweight.py:310-312 and :378-382)
                def fn(beta):
                    w, e, m = rw._compute_metric_and_weights(beta)
                    return m, (w, e)
            else:
                def fn(beta):
                    w, e, _ = rw._compute_metric_and_weights(beta)
                    return e, (w, e)
            beta, (w, ess) = rw._find_beta_bisection(_dec(rg, cs["bmin"]), _dec(rg, cs["bmax"]), target, fn)
    except Exception as e:  # noqa
        return {"error": f"{type(e).__name__}: {e}", "calls": [_canon(b) for b in orc.calls]}
    j = int(w[1])
    tag = _canon(orc.calls[j - 1]) if 1 <= j <= len(orc.calls) else f"?{w.tolist()}"
    return {"beta": _canon(beta), "wtag": tag, "ess": _canon(ess), "calls": [_canon(b) for b in orc.calls]}


def _parse_direct(cs, ans):
    t = ans.split(" ")
    cv = lambda x: _canon_tok(cs["regime"], x)  # noqa
    if cs["kind"] == "up":
        if len(t) != 5:
            return None
        return {"beta": cv(t[0]), "branch": t[1], "steps": int(t[3]), "calls": [cv(x) for x in parse_list(t[4], str)]}
    if len(t) != 6:
        return None
    return {"beta": cv(t[0]), "branch": t[1], "wtag": cv(t[2]), "ess": cv(t[3]), "steps": int(t[4]),
            "calls": [cv(x) for x in parse_list(t[5], str)]}


def _corr_direct(tier, drv, regime):
    n = 700 if tier == "quick" else 12000
    rng = common.rng_for("C05.direct." + regime)
    c = Corr(f"direct-{regime}", {"Q": "exact-dyadic (Rat model)", "F": "bit-exact (Float model)"}[regime])
    cases = [_gen_direct(rng, regime) for _ in range(n)]
    lines = [_line_direct(cs) for cs in cases]
    for cs, line, ans in zip(cases, lines, drv.batch(lines)):
        impl = _run_direct(cs)
        model = _parse_direct(cs, ans)
        if model is None:
            c.case(line, False)
            c.disagree(input=line, impl=impl, model=ans, direct=cs)
            continue
        c.case(line, model["steps"] >= 1)
        c.count(cs["kind"] + ":" + model["branch"])
        if cs["kind"] == "bis":
            c.count("bis_direction:" + ("dyn" if cs["dyn"] else "ess"))
            if not cs["dyn"] and model["steps"] >= 1:
                c.count("ess_mode_bisection_steps", model["steps"])
        keys = ("beta", "calls") if cs["kind"] == "up" else ("beta", "wtag", "ess", "calls")
        if "error" in impl or any(impl[k] != model[k] for k in keys):
            c.disagree(input=line, impl=impl, model=model, direct=cs)
        c.sample({"op": line, "impl": impl, "model": ans}, cap=2)
    return c


def oracle_direct(cs):
    """what C05 needs of the two search functions, on the real code: the bisection returns a point of its bracket together with
       the weights / ESS computed AT that point; the upper limit lies in [prev, 1] and has ESS >= target if it moved"""
    rg = cs["regime"]
    if any(not math.isfinite(_dec(rg, x)) for x in cs["ess"] + cs["met"]):
        return None
    r = _run_direct(cs)
    if "error" in r:
        if "oracle call budget exceeded" not in r["error"]:
            return None     # raised on the stubbed environment: a correspondence abort, not a verdict on the property
        return f"{cs['kind']} raised {r['error']} after {len(r['calls'])} oracle calls"
    beta = hex2f(r["beta"]) if r["beta"] != "nan" else math.nan
    knots = [_dec(rg, k) for k in cs["knots"]]
    esst = [_dec(rg, e) for e in cs["ess"]]
    essb = esst[sum(1 for k in knots if k <= beta)] if beta == beta else math.nan
    if cs["kind"] == "up":
        prev, target = _dec(rg, cs["prev"]), _dec(rg, cs["target"])
        if not (prev <= beta <= 1.0):
            return f"_find_beta_upper_limit({prev!r}) = {beta!r} outside [prev, 1]"
        if beta != prev and not (essb >= target):
            return f"_find_beta_upper_limit({prev!r}) = {beta!r} where ESS = {essb!r} < target {target!r}"
        return None
    a, b = _dec(rg, cs["bmin"]), _dec(rg, cs["bmax"])
    if not (min(a, b) <= beta <= max(a, b)):
        return f"_find_beta_bisection({a!r}, {b!r}) returned {beta!r} outside its bracket"
    if r["wtag"] != r["beta"] or r["ess"] != _canon(essb):
        return f"_find_beta_bisection returned beta={beta!r} with weights/ESS computed at another temperature ({r['wtag']}, {r['ess']})"
    return None


# ================================================================== (vi) the concrete pipeline (tie of Props/C05Pipeline, C05Warmup)
def _corr_pipeline(tier, drv):
    """real Sampler runs (ESS mode) with all randomness observed, replayed by the Lean pipeline model whose metric oracle is the
       concrete composition Model.Weights -> exp(logw - max) -> Model.Ess (harness/pipeline.py, the suite C01/C02/C10 own);
       re-run here at small size because the C05Pipeline / C05Warmup theorems are stated about that model"""
    from . import pipeline, c01
    rng = common.rng_for("C05.pipeline")
    c = Corr("dep:pipeline-trace-replay", "toleranced Float (decisions exact, near-ties counted)")
    configs = [(k, r) for k in ("tpcn", "rwm") for r in ("syst", "mult")]
    n_runs = 8 if tier == "quick" else 48
    recs, lines = [], []
    for i in range(n_runs):
        kernel, resample = configs[i % 4]
        d = rng.choice([1, 2, 3])
        n = rng.choice([8, 16, 24])
        prior, like = c01.make_target(rng, d, rng.random() < 0.3)
        seed = rng.randrange(2 ** 31)
        np.random.seed(seed)
        cfg = {"kernel": kernel, "resample": resample, "d": d, "n": n, "seed": seed}
        rec = pipeline.Recorder(kernel, resample, n, d, like, prior, ess_ratio=rng.choice([1.0, 1.5, 2.0, 3.0]))
        rec.s._core._initialize_fresh()
        rec.s._core.n_total = 3 * n
        try:
            k = 0
            with _time_limit(RUN_SECONDS):
                while rec.s._core._not_termination() and k < 14:
                    rec.iteration()
                    k += 1
        except Exception as e:  # noqa
            c.case(cfg, False)
            c.disagree(input=cfg, impl=f"raised {type(e).__name__}: {e}", model="runs")
            if isinstance(e, _TimedOut):
                c.count("remaining_runs_skipped_after_a_non_terminating_run")
                break
            continue
        recs.append((rec, cfg))
        lines.append(rec.model_line())
        betas = [it["beta"] for it in rec.impl]
        c.case(cfg, any(b > 0 for b in betas))
        c.count("iterations", len(betas))
        c.count("warmup_iterations", sum(1 for b in betas if b == 0))
        c.count("advances", sum(1 for a, b in zip(betas, betas[1:]) if b != a))
    for (rec, cfg), line, ans in zip(recs, lines, drv.batch(lines)):
        ratio = rec.s._core.config.ess_ratio
        prob, compared, tie = _compare_schedule(rec, ans, pipeline.close, ratio)
        if tie:
            c.near_ties += 1
        c.count("iterations_compared", compared)
        # hypothesis of C05_pipeline_warmup(_count): every warm-up iteration commits n_particles prior draws
        st = rec.s.state
        for k in range(st.get_history_length()):
            if float(st.get_history("beta", k)) == 0.0 and len(st.get_history("logl", k)) != cfg["n"] and not prob:
                prob = f"warm-up batch {k} holds {len(st.get_history('logl', k))} particles, n_particles = {cfg['n']}"
        # conclusion of C05_pipeline_warmup_count on the real run: beta_k = 0 for every k <= ess_ratio
        # (k == ess_ratio is an exact tie ESS(0) = N = target over the reals; in floating point the ESS of N equal weights may
        #  come out one ulp above N, so that boundary iteration is not asserted — rule 7)
        for k, it in enumerate(rec.impl):
            if k < ratio and it["beta"] != 0.0 and not prob:
                prob = f"iteration {k} left beta = 0 although the pool ({k}*n) is smaller than ess_ratio*n (ess_ratio = {ratio})"
        c.count("warmup_iterations_checked", sum(1 for k in range(len(rec.impl)) if k < ratio))
        if compared < len(rec.impl) and not prob:
            c.count("runs_truncated_at_a_resample_or_accept_difference")   # C06 / C03 territory (or a near tie there)
        if prob:
            c.disagree(input=cfg, impl=prob, model=ans[:300])
        c.sample({"config": cfg, "betas": [round(it["beta"], 4) for it in rec.impl]}, cap=2)
    return c


def _compare_schedule(rec, answer, close, ratio):
    """the reweighting part of the pipeline replay: beta, ESS, logz-after-reweighting of every iteration, up to the first
       iteration whose resampled indices or accept masks differ (from there on model and code hold different pools; such a
       difference is owned by C06 / C03 / C01, whose checks compare it)"""
    if answer.startswith("error") or answer == "bad-op":
        return f"model left its domain: {answer}", 0, False
    its = answer.split("#")[0]
    its = its.split("|") if its else []
    k = 0
    for k, (m, i) in enumerate(zip(its, rec.impl)):
        beta, ess, zrw, _z, idx, masks, branch = m.split(";")
        beta, ess, zrw = hex2f(beta), hex2f(ess), hex2f(zrw)
        if not close(beta, i["beta"]):
            if k == ratio and all(j["beta"] == 0.0 for j in rec.impl[:k]):
                return None, k, True      # exact tie ESS(0) = N = target: `ess_prev <= target` decided by the last ulp of the ESS
            return f"iteration {k + 1}: beta impl {i['beta']!r} model {beta!r} ({branch})", k, False
        if not close(ess, i["ess"], 1e-7):
            return f"iteration {k + 1}: ESS impl {i['ess']!r} model {ess!r}", k, False
        if i["logz_rw"] is not None and not close(zrw, i["logz_rw"]):
            return f"iteration {k + 1}: logz after reweighting impl {i['logz_rw']!r} model {zrw!r}", k, False
        midx = [] if idx == "-" else [int(t) for t in idx.split(",")]
        mm = [] if masks == "-" else [[ch == "1" for ch in s_] for s_ in masks.split("+")]
        if midx != i["idx"] or mm != i["masks"]:
            return None, k + 1, False
    if len(its) != len(rec.impl):
        return f"model ran {len(its)} iterations, implementation {len(rec.impl)}", min(len(its), len(rec.impl)), False
    return None, len(its), False


def translators():
    from translate import g1_constants, g10_reweight
    return [g1_constants.generate(), g10_reweight.generate()]


def correspond(tier):
    drv = common.Driver()
    out = [_corr_constants(), _corr_decision(tier, drv, "Q"), _corr_decision(tier, drv, "F"),
           _corr_direct(tier, drv, "Q"), _corr_direct(tier, drv, "F"), _corr_oracle(tier), _corr_runs(tier, drv),
           _corr_resume(tier, drv), _corr_late(tier, drv), _corr_pipeline(tier, drv), _corr_closed(tier, drv)]
    return out


# ================================================================== property oracles on the REAL code
def _ref_upper(essf, prev, target, tol):
    """the 'ESS-limited temperature' of the statement: bisection for the largest beta in [prev,1] with ESS >= target.
       returns (value, tie) where tie=True when some comparison was too close to call in floating point"""
    tie = False

    def ge(e):
        nonlocal tie
        if abs(e - target) <= 1e-9 * abs(target):
            tie = True
        return e >= target
    if not ge(essf(prev)):
        return prev, tie
    if ge(essf(1.0)):
        return 1.0, tie
    lo, hi = prev, 1.0
    for _ in range(200):
        if not (hi - lo > tol):
            break
        mid = (hi + lo) * 0.5
        if ge(essf(mid)):
            lo = mid
        else:
            hi = mid
    return lo, tie


def oracle_table(case):
    """C05 on the real Reweighter with a table oracle (finite tables only). Returns a message or None."""
    rg = case["regime"]
    vals = [_dec(rg, x) for x in case["ess"] + case["met"]]
    if any(not math.isfinite(v) for v in vals):
        return None
    r = _run_table(case)
    if "error" in r:
        if r.get("harness_abort"):
            return None     # raised on the stubbed environment: a correspondence abort, not a verdict on the property
        return f"Reweighter.run raised {r['error']} after {len(r['calls'])} oracle calls"
    prev = _dec(rg, case["prev"])
    n = int(case["n"])
    target = _dec(rg, case["ratio"]) * n
    if case["empty"]:
        ok = (r["beta"] == _canon(0.0) and r["logz"] == _canon(0.0) and r["ess"] == _canon(target) and r["wtag"] == f"U{n}")
        return None if ok else f"first iteration: beta/logz/ess/weights = {hex2f(r['beta'])}, {hex2f(r['logz'])}, {hex2f(r['ess'])}, {r['wtag']}"
    if r["beta"] == "nan":
        return "beta is NaN"
    beta = hex2f(r["beta"])
    knots = [_dec(rg, k) for k in case["knots"]]
    esst = [_dec(rg, e) for e in case["ess"]]

    def essf(b):
        return esst[sum(1 for k in knots if k <= b)]
    if not (prev <= beta <= 1.0):
        return f"beta went from {prev!r} to {beta!r} (must stay in [beta_prev, 1])"
    if case["mode"] == "ess":
        if beta != prev and not (essf(beta) >= target):
            return f"ESS mode advanced from {prev!r} to {beta!r} where ESS = {essf(beta)!r} < target {target!r}"
    else:
        up, _ = _ref_upper(essf, prev, target, _dec(rg, case["tolB"]))
        if beta > up:
            return f"volume-variation mode advanced to {beta!r}, beyond the ESS-limited temperature {up!r}"
    if r["wtag"] != r["beta"]:
        w_at = r["wtag"] if r["wtag"].startswith("?") else hex2f(r["wtag"])
        return f"returned weights were computed at beta={w_at!r} but beta={beta!r} was recorded"
    if r.get("z_route"):
        # the code derived weights / ESS from compute_logw_and_logz itself: the served log-weights reproduce the table's ESS only
        # to rounding, and only for table values a weight vector can have
        e_tab, e_rec = essf(beta), (hex2f(r["ess"]) if r["ess"] != "nan" else math.nan)
        if 1.0 <= e_tab <= 1e5 and not (abs(e_rec - e_tab) <= 1e-9 * e_tab):
            return f"recorded ess {e_rec!r} is not the ESS at the recorded beta {beta!r} ({e_tab!r})"
    elif r["ess"] != _canon(essf(beta)):
        return f"recorded ess {hex2f(r['ess']) if r['ess'] != 'nan' else 'nan'!r} is not the ESS at the recorded beta {beta!r} ({essf(beta)!r})"
    if r["zcalls"] != [r["beta"]] or r["logz"] != r["beta"]:
        return f"logz was computed for beta in {[hex2f(z) for z in r['zcalls']]}, recorded beta is {beta!r}"
    return None


def oracle_history(hist, d, mode_vv, ratio, n):
    """C05 for one call of the real Reweighter.run() on a real StateManager holding `hist` (real oracle)."""
    from tempest.steps.reweight import Reweighter
    from tempest import config
    sm = _commit(hist, d)
    prev = float(hist[-1][0])
    sm.set_current("beta", prev)
    rw = Reweighter(sm, None, n, ratio, mode_vv, ESS_TOLERANCE=config.ESS_TOLERANCE, BETA_TOLERANCE=config.BETA_TOLERANCE)
    betas, zs, batches = _hist_arrays(sm)
    orig, ncalls = rw._compute_metric_and_weights, [0]

    def budgeted(beta):
        ncalls[0] += 1
        if ncalls[0] > CALL_BUDGET:
            raise RuntimeError(f"more than {CALL_BUDGET} oracle calls within one Reweighter.run (a search loop does not terminate)")
        return orig(beta)
    rw._compute_metric_and_weights = budgeted
    try:
        with warnings.catch_warnings():
            warnings.simplefilter("ignore")
            w = rw.run()
    except Exception as e:  # noqa
        return f"Reweighter.run raised {type(e).__name__}: {e}"
    beta, ess, logz = sm.get_current("beta"), sm.get_current("ess"), sm.get_current("logz")
    return _check_iteration(betas, zs, batches, prev, beta, ess, logz, w, ratio * n, mode_vv, 1e-4)


def _check_iteration(betas, zs, batches, prev, beta, ess, logz, w, target, vv, tolB):
    if not (isinstance(beta, float) or isinstance(beta, np.floating)) or not (prev <= beta <= 1.0):
        return f"beta went from {prev!r} to {beta!r} (must stay in [beta_prev, 1])"
    beta = float(beta)
    wn, ess_ref, logz_ref = _ref_weights(betas, zs, batches, beta)
    msg = _weights_close(w, wn)
    if msg:
        return f"returned weights are not the normalised weights at the recorded beta={beta!r}: {msg}"
    if not (abs(float(ess) - ess_ref) <= TOL * ess_ref):
        return f"recorded ess {float(ess)!r} is not the ESS at the recorded beta={beta!r} ({ess_ref!r})"
    if not (abs(float(logz) - logz_ref) <= TOL * (1 + abs(logz_ref))):
        return f"recorded logz {float(logz)!r} is not the evidence at the recorded beta={beta!r} ({logz_ref!r})"
    if beta != prev:
        if vv is None:
            if not (ess_ref >= target * (1 - TOL)):
                return f"ESS mode advanced from {prev!r} to {beta!r} where ESS = {ess_ref!r} < target {target!r}"
        else:
            up, tie = _ref_upper(lambda b: _ref_weights(betas, zs, batches, b)[1], prev, target, tolB)
            if not tie and beta > up + 1e-12:
                return f"volume-variation mode advanced to {beta!r}, beyond the ESS-limited temperature {up!r}"
    return None


def oracle_run(cfg):
    """C05 on one real Sampler run"""
    its, err, rw = _record_run(cfg)
    if err:
        return f"run raised {err}"
    if not its:
        return "no iteration was executed"
    target = rw.ess_ratio * rw.n_particles
    last = None
    for k, it in enumerate(its):
        beta = it["beta"]
        if k < rw.ess_ratio and beta != 0.0 and k > 0:
            return f"iteration {k}: beta = {beta!r} although the pool ({k}*n_particles) is smaller than the ESS target (warm-up)"
        if k == 0:
            n = int(rw.n_particles)
            if beta != 0.0:
                return f"iteration 0: beta = {beta!r}, must start at 0"
            if not (it["weights"].shape == (n,) and bool(np.all(it["weights"] == 1.0 / n))):
                return "iteration 0: weights are not uniform"
        else:
            if _canon(it["prev"]) != _canon(last):
                return f"iteration {k}: state['beta'] was changed outside the reweighter: {last!r} -> {it['prev']!r}"
            betas, zs, batches = it["hist"]
            msg = _check_iteration(betas, zs, batches, float(it["prev"]), beta, it["ess"], it["logz"], it["weights"], target,
                                   rw.volume_variation, rw.BETA_TOLERANCE)
            if msg:
                return f"iteration {k}: {msg}"
        if not it.get("train_same", False) or not it.get("res_same", False):
            return f"iteration {k}: Trainer.run / Resampler.run did not receive the weights Reweighter.run returned"
        if _canon(it.get("beta_at_train")) != _canon(beta) or _canon(it.get("beta_at_resample")) != _canon(beta):
            return (f"iteration {k}: Reweighter.run recorded beta = {beta!r}, but state['beta'] was {it.get('beta_at_train')!r} when "
                    f"Trainer.run was called and {it.get('beta_at_resample')!r} when Resampler.run was called")
        last = beta
    return None


def _fail(kind, msg, **kw):
    d = {"kind": kind, "what": msg}
    d.update(kw)
    return d


def search(tier, hints):
    found = []

    def add(f):
        found.append(f)
        return len(found) >= 5
    # 1. the disagreeing inputs themselves — those judged on the unstubbed real code (real StateManager histories, real runs) first
    def _prio(h):
        return 0 if "late_case" in h else 1 if any(k in h for k in ("hist", "run_cfg", "resume_cfg", "cl_cfg")) else 2
    for h in sorted(hints, key=_prio):
        try:
            if "case" in h and isinstance(h["case"], dict):
                msg = oracle_table(h["case"])
                if msg and add(_fail("table", msg, case=h["case"])):
                    return found
            elif "direct" in h and isinstance(h["direct"], dict):
                msg = oracle_direct(h["direct"])
                if msg and add(_fail("direct", msg, direct=h["direct"])):
                    return found
            elif "hist" in h:
                hist, d = _hist_from_json(h["hist"])
                for ratio, n in ((2.0, 16), (1.0, 8)):
                    msg = oracle_history(hist, d, h.get("vv"), ratio, n)
                    if msg and add(_fail("history", msg, hist=h["hist"], vv=h.get("vv"), ratio=ratio, n=n)):
                        return found
            elif "late_case" in h:
                msg = oracle_late(h["late_case"])
                if msg and add(_fail("late", msg, late_case=h["late_case"])):
                    return found
            elif "resume_cfg" in h:
                msg = oracle_resume(h["resume_cfg"])
                if msg and add(_fail("resume", msg, resume_cfg=h["resume_cfg"])):
                    return found
            elif "cl_cfg" in h:
                msg = oracle_closed(h["cl_cfg"], h["cl_seed"])
                if msg and add(_fail("closed", msg, cl_cfg=h["cl_cfg"], cl_seed=h["cl_seed"])):
                    return found
            elif "run_cfg" in h:
                msg = oracle_run(h["run_cfg"])
                if msg and add(_fail("run", msg, run_cfg=h["run_cfg"])):
                    return found
        except Exception as e:  # noqa
            if add(_fail("crash", f"oracle crashed on a disagreeing input: {type(e).__name__}: {e}", hint=str(h)[:300])):
                return found
    if found:
        return found
    # 2. generated tables
    rng = common.rng_for("C05.search")
    for i in range(3000 if tier == "quick" else 60000):
        cs = _gen_Q(rng) if i % 2 == 0 else _gen_F(rng, allow_nonfinite=False)
        if i % 97 == 0:
            cs["empty"] = True
        msg = oracle_table(cs)
        if msg and add(_fail("table", msg, case=cs)):
            return found
    if found:
        return found
    # 3. real oracle on synthetic histories
    for i in range(150 if tier == "quick" else 3000):
        vv = rng.choice([None, None, 0.5, 0.1, 0.02])
        hist, d = _gen_history(rng, vv is not None)
        ratio, n = rng.choice([(2.0, 16), (1.0, 8), (0.5, 32), (3.0, 8)])
        msg = oracle_history(hist, d, vv, ratio, n)
        if msg and add(_fail("history", msg, hist=_hist_json(hist, d), vv=vv, ratio=ratio, n=n)):
            return found
    if found:
        return found
    # 3b. the last BETA_TOLERANCE of the schedule on real StateManager histories
    for i in range(40 if tier == "quick" else 400):
        p = _late_params(rng)
        msg = oracle_late(p)
        if msg and add(_fail("late", msg, late_case=p)):
            return found
    if found:
        return found
    # 4. real runs
    for cfg in RUN_CONFIGS_QUICK:
        msg = oracle_run(cfg)
        if msg and add(_fail("run", msg, run_cfg=cfg)):
            return found
    if found:
        return found
    # 5. resumed / continued / extended runs
    for cfg in RESUME_CONFIGS:
        msg = oracle_resume(cfg)
        if msg and add(_fail("resume", msg, resume_cfg=cfg)):
            return found
    return found


def replay(obj):
    f = obj.get("failing_input", obj)
    if "witness" in f.get("replay", {}):
        from . import witnesses
        return witnesses.ALL[f["replay"]["witness"]]()
    kind = f.get("kind")
    if kind == "table":
        msg = oracle_table(f["case"])
    elif kind == "direct":
        msg = oracle_direct(f["direct"])
    elif kind == "history":
        hist, d = _hist_from_json(f["hist"])
        msg = oracle_history(hist, d, f.get("vv"), f["ratio"], f["n"])
    elif kind == "run":
        msg = oracle_run(f["run_cfg"])
    elif kind == "late":
        msg = oracle_late(f["late_case"])
    elif kind == "resume":
        msg = oracle_resume(f["resume_cfg"])
    elif kind == "closed":
        msg = oracle_closed(f["cl_cfg"], f["cl_seed"])
    else:
        return {"fails": False, "detail": f"nothing to replay for kind={kind!r}"}
    return {"fails": msg is not None, "detail": msg}
