"""C20 — weight utilities: ESS bounds, trimming contract, affine-invariant volume metric."""
import math
import warnings
from fractions import Fraction

import numpy as np

from . import common
from .common import Corr, f2hex, hex2f, frac2s, flist, parse_list

ID = "C20"
LEAN_MODULES = ["TempestVerif.Props.C20", "TempestVerif.Props.C20Audit", "TempestVerif.Props.C20Sites",
                "TempestVerif.Props.C20VolVar", "TempestVerif.Props.C20Round", "TempestVerif.Props.C20RelRound",
                "TempestVerif.Props.C20Source"]
RULE = ("ess-T: weight vectors of length 1..1e4 (log-uniform exponents spanning up to 300 decades, up to 1e300, many zeros, one dominant, "
        "uniform) and log-weight vectors (incl. -inf entries, large shifts): Float model vs effective_sample_size/compute_ess, |d|<=1e-9(1+|v|); "
        "non-trivial = N>=2 and not all equal. ess-Q: integer weights with power-of-two sum times 2^e: every float operation up to the final "
        "division is exact, so the real result must equal the correctly rounded exact Rat model value. lin-F / pct-F: np.linspace(0,99,bins) and "
        "np.percentile(w,p) against the model bit for bit (same IEEE operations in the same order). trim-Q: dyadic weights with power-of-two sum, "
        "(n,bins) restricted to pairs for which every virtual index (n-1)*(p_i/100) is computed exactly in floating point (checked per pair), "
        "bins in {1,2,3,4,5,7,10,12,13,23,34,100,...}: kept index set exact, returned weights = correctly rounded exact model weights, unless the "
        "exact ESS ratio of some deciding pass is within 1e-12 of the requested fraction (near tie); 1 case in 12 uses ess=1.5 so that the unconditional break at grid index 0 is exercised. trim-T: tempering-like w~exp(-k rank), heavy ties, "
        "duplicates, zeros, log-normal; bins=1000/ess=0.99 (sampler constants) and others: kept index set exact unless a deciding margin "
        "(|w_i-theta| relative or |ratio-ess|) is < 1e-9, weights relative 1e-9; non-trivial = something was trimmed or more than one pass ran. "
        "volvar-reference: real volume_variation vs an exact-rational transcription of Lemmas.VolVar.volvar (all branches) on dyadic clouds; "
        "volvar-invariance: real vs real under x->xA^T+b (cond(A)<=1e3, n>=5d) and w->c w, relative 1e-6. "
        "CLAUSE AUDIT (harness/c20_audit.py): ess-property-F / trim-property run the property's own oracle on the REAL functions for every "
        "generated vector (lengths up to 1e4, dynamic range 1e300 inside one vector, n=1, zeros, ess>1, bins=1); bounds are checked with the "
        "allowance (4N+16)eps that covers any order of summation, binary scaling must be bit-identical; non-trivial = N>=2. "
        "cess-neginf-T: log-weights with -inf entries (40 %), all -inf every 10th case. volvar-exec-Q: dyadic clouds (full rank, constant "
        "column, tilted hyperplane, identical points, an off-plane point of weight zero, too few) through the executable Lean model "
        "Model.VolVar at Rat: branch exact (tilted hyperplanes: numpy's rank tolerance decides, counted as near ties when it differs), value "
        "1e-9 (1e-6 on the ridge branch), and H_inv of C20_volvar_exec_eq_matrix checked exactly per case. volvar-exec-F: generic clouds "
        "d<=6, weights None / skewed / with zeros, Float model vs numpy. callsite-train: a live sampler state per (clustering on/off); "
        "Trainer.run driven with synthetic weights (tempering-like, ties, zeros) and beta in {0, >0}; the fitting routines are replaced by "
        "recorders; compared with Model.TrimSites.trainerRun. callsite-metric: _compute_metric_and_weights on live states in both modes.")
MODELLED = ["np.sum is modelled as a left fold (numpy sums pairwise): identical over the reals and over exact dyadics, toleranced over doubles",
            "np.percentile (default 'linear' method, numpy 2.x: q=p/100, v=(n-1)q, floor, gamma, _lerp with the t>=0.5 form) and np.linspace are "
            "modelled by hand in Model/Trim.lean and checked bit for bit against the installed numpy (pct-F, lin-F); a numpy change would surface there",
            "`x**2.0` is modelled as x*x (numpy's fast path)",
            "volume_variation is modelled over the reals with Mathlib matrices (not executable); np.linalg.matrix_rank(cov) < d is modelled as "
            "'det cov = 0' and the LinAlgError fall-back (1e10) as 'the ridge-regularised matrix is still singular' (reachable only when trace cov = 0); the tie to the code is a Python transcription of that definition "
            "evaluated in exact rational arithmetic plus the invariance tests on the real function; the literal 1e-6 is the real number 10^-6 in Lean "
            "and the nearest double in Python",
            "NaN / inf weights, negative weights and empty arrays are outside the statement and not generated",
            "the loop breaks unconditionally at grid index 0 (`or i == 0`, fix 8ceb8ba; mirrored in Model.Trim.search), so termination no longer "
            "depends on the rounded ESS ratio; C20_trim_ess at index 0 uses that the exact ratio is 1 (in doubles it can be one ulp short: the "
            "search oracle allows 1e-12 relative slack)"]
MODELLED += ["volume_variation also has an EXECUTABLE model (Model/VolVar.lean, lists over the scalar interface, run at Rat and Float); "
             "np.linalg.matrix_rank(cov) < d and np.linalg.inv raising are both modelled by the Gauss-Jordan inverse of Model.Student "
             "answering `none` (exact for positive semi-definite matrices in exact arithmetic); that this routine inverts what it is "
             "given and fails exactly on singular input is hypothesis InvOK (H_inv) of C20_volvar_exec_eq_matrix / "
             "C20_volvar_exec_affine_invariant, proved for d = 1 (InvOK_one) and checked exactly per case by volvar-exec-Q",
             "IEEE rounding: C20Round proves, for every monotone idempotent rounding fixing 0 and 1, that normalised weights stay in "
             "[0,1], that one particle has ESS exactly 1 and that binary scaling leaves the computed ESS bit-identical; `1 <= ESS <= N` "
             "and `ESS = N` for uniform weights are NOT theorems in rounded arithmetic (effective_sample_size(np.ones(21)) = "
             "21.000000000000007, np.ones(5) gives 4.999999999999999): ess-property-F checks them on the real code with the allowance (4N+16)*2^-52 and counts excursions. "
             "C20RelRound proves, under the standard relative-error model H_rel(u) of rounding (no overflow/underflow), that the Float "
             "evaluation of the model is the exact ESS up to 3N+4 roundings, hence 1-(3N+4)u <= ESS <= N(1+(6N+8)u) -- inside that allowance",
             "call sites: Model/TrimSites.lean (Trainer.run up to the fitting call, execute_iteration's object flow, "
             "_compute_metric_and_weights); the fitting routines, the clusterer and the history flattening are outside "
             "(C14, C15, C19, C07); compute_posterior's use of trim_weights is C12's model and suites"]
MODELLED += ["SOURCE-DERIVED (translator G16, Props/C20Source.lean): effective_sample_size, compute_ess, trim_weights and volume_variation are "
             "compiled from tools.py on every run (expressions, literals, broadcasting, branches, the while/break loop) into "
             "Gen/ToolsSrc.lean, and the models the driver executes are proved equal to the compiled functions for every scalar type; "
             "hand-written remain only the models of numpy LIBRARY routines (sum as a left fold, percentile, linspace, mask indexing, "
             "max, inv, matrix_rank<d as 'inv fails', dot/matmul/sum(axis)/eye/trace/clip), the parameter kinds, the fuel of the loop "
             "and the bins = 0 guard"]
ASSUMPTIONS = ["weights are finite, non-negative, with positive sum; 0 < ess < 1; bins >= 1",
               "affine invariance of the volume metric holds on the full-rank branch only (carried as a hypothesis of C20_volvar_affine_invariant); "
               "the ridge-regularised branch (rank < d) is not affine invariant"]


def _tools():
    import tempest.tools as t
    return t


def _quiet():
    cm = warnings.catch_warnings()
    cm.__enter__()
    warnings.simplefilter("ignore")
    return cm


def _call(fn, *a, **kw):
    """value of a call into the real code, or nan if it raised (a raise is a disagreement, never a crash of the check)"""
    try:
        return float(fn(*a, **kw))
    except Exception:  # noqa
        return math.nan


def _close(a, b, rel=1e-9):
    if a == b:
        return True
    if not (math.isfinite(a) and math.isfinite(b)):
        return False
    return abs(a - b) <= rel * (1.0 + max(abs(a), abs(b)))


def _relclose(a, b, rel=1e-9):
    if a == b:
        return True
    if not (math.isfinite(a) and math.isfinite(b)):
        return False
    return abs(a - b) <= rel * max(abs(a), abs(b)) + 1e-300


# ------------------------------------------------------------------ generators
def _len(rng, big=True):
    k = rng.random()
    if k < 0.08:
        return rng.choice([1, 2, 3])
    if k < 0.45:
        return rng.randint(2, 12)
    if k < 0.9 or not big:
        return rng.randint(13, 300)
    if k < 0.97:
        return rng.randint(301, 3000)
    return rng.randint(3001, 10000)


def _weights(rng, n):
    """non-negative finite weights with positive sum; dynamic range up to 1e300"""
    fam = rng.choice(["loguni", "loguni", "zeros", "dominant", "uniform", "ties", "temper", "lognormal"])
    if fam == "uniform":
        c = 10.0 ** rng.uniform(-300, 300) if rng.random() < 0.5 else float(rng.choice([1.0, 0.25, 3.0, 1e-3]))
        w = [c] * n
    elif fam in ("loguni", "zeros", "dominant"):
        span = rng.choice([0.5, 3, 30, 100, 300, 590])
        hi = rng.uniform(-300 + span, 300) if span < 590 else 295.0
        w = [10.0 ** rng.uniform(hi - span, hi) for _ in range(n)]
        if fam == "zeros":
            for i in range(n):
                if rng.random() < 0.6:
                    w[i] = 0.0
            if not any(x > 0 for x in w):
                w[rng.randrange(n)] = 10.0 ** rng.uniform(-300, 300)
        if fam == "dominant":
            w[rng.randrange(n)] = max(w) * 10.0 ** rng.uniform(3, 20) if max(w) < 1e280 else max(w)
    elif fam == "ties":
        vals = [10.0 ** rng.uniform(-3, 3) for _ in range(rng.randint(1, 4))]
        w = [rng.choice(vals) for _ in range(n)]
    elif fam == "temper":
        k = 10.0 ** rng.uniform(-4, 0.5)
        w = [math.exp(-k * r) for r in range(n)]
        rng.shuffle(w)
    else:
        s = rng.uniform(0.1, 4)
        w = [math.exp(s * rng.gauss(0, 1)) for _ in range(n)]
    return fam, w


def _allequal(w):
    return all(x == w[0] for x in w)


# ------------------------------------------------------------------ ESS suites
def _ess_T(tier, drv):
    t = _tools()
    rng = common.rng_for("C20.essT")
    c = Corr("ess-T", "toleranced (Float model vs numpy; pairwise vs sequential summation, exp)")
    n_cases = 420 if tier == "quick" else 6000
    lines, meta = [], []
    cm = _quiet()
    try:
        for _ in range(n_cases):
            n = _len(rng)
            fam, w = _weights(rng, n)
            a = np.array(w, dtype=float)
            v = _call(t.effective_sample_size, a.copy())
            lines.append(f"ess.F w={flist(w, f2hex)}")
            meta.append(("ess", w, v))
            c.case(("ess", [f2hex(x) for x in w]), n >= 2 and not _allequal(w))
            c.count("fam:" + fam)
            c.count("n>1000" if n > 1000 else ("n>12" if n > 12 else "n<=12"))
            # log-weights: log of the weights (zeros -> -inf) or a gaussian cloud with a big shift
            if rng.random() < 0.5:
                lw = [math.log(x) if x > 0 else -math.inf for x in w]
            else:
                sc = 10.0 ** rng.uniform(-2, 2.8)
                sh = rng.choice([0.0, 1e3, -1e5, 700.0, -745.0])
                lw = [sc * rng.gauss(0, 1) + sh for _ in range(n)]
            la = np.array(lw, dtype=float)
            v2 = _call(t.compute_ess, la.copy())
            lines.append(f"cess.F logw={flist(lw, f2hex)}")
            meta.append(("cess", lw, v2))
            c.case(("cess", [f2hex(x) for x in lw]), n >= 2 and not _allequal(lw))
    finally:
        cm.__exit__(None, None, None)
    res = drv.batch(lines)
    for (kind, arr, v), line, ans in zip(meta, lines, res):
        try:
            mv = hex2f(ans)
        except ValueError:
            mv = None
        if mv is None or not _close(mv, v):
            key = "w" if kind == "ess" else "logw"
            c.disagree(kind=kind, **{key + "_hex": [f2hex(x) for x in arr]}, impl=v, model=(mv if mv is not None else ans))
        c.sample({"op": line[:200], "impl": v, "model": mv})
    return c


def _pow2_ints(rng, n, m):
    """n non-negative integers with sum 2^m"""
    tot = 2 ** m
    fam = rng.choice(["random", "skew", "ties", "zeros"])
    if fam == "skew":
        raw = [2.0 ** (-rng.uniform(0.2, 1.5) * r) for r in range(n)]
    elif fam == "ties":
        vals = [rng.random() for _ in range(rng.randint(1, 3))]
        raw = [rng.choice(vals) for _ in range(n)]
    elif fam == "zeros":
        raw = [rng.random() if rng.random() < 0.5 else 0.0 for _ in range(n)]
    else:
        raw = [rng.random() for _ in range(n)]
    s = sum(raw) or 1.0
    ks = [int(tot * x / s) for x in raw]
    rest = tot - sum(ks)
    j = max(range(n), key=lambda i: ks[i])
    ks[j] += rest
    if fam != "skew":
        rng.shuffle(ks)
    assert sum(ks) == tot and min(ks) >= 0
    return fam, ks


def _ess_Q(tier, drv):
    t = _tools()
    rng = common.rng_for("C20.essQ")
    c = Corr("ess-Q", "exact-dyadic (Rat model; real result = correctly rounded exact value)")
    n_cases = 160 if tier == "quick" else 3000
    lines, meta = [], []
    for _ in range(n_cases):
        n = rng.randint(1, 64)
        m = rng.randint(6, 20)
        fam, ks = _pow2_ints(rng, n, m)
        e = rng.randint(-60, 60)
        ws = [Fraction(k) * Fraction(2) ** (e - m) for k in ks]
        a = np.array([float(x) for x in ws])
        v = _call(t.effective_sample_size, a.copy())
        lines.append(f"ess.Q w={flist(ws, frac2s)}")
        meta.append((ws, v))
        c.case([frac2s(x) for x in ws], n >= 2 and len(set(ks)) > 1)
        c.count("fam:" + fam)
    res = drv.batch(lines)
    for (ws, v), line, ans in zip(meta, lines, res):
        try:
            mq = Fraction(ans)
            ok = float(mq) == v and 1 <= mq <= len(ws)
        except (ValueError, ZeroDivisionError):
            mq, ok = ans, False
        if not ok:
            c.disagree(kind="ess", w_hex=[f2hex(float(x)) for x in ws], impl=v, model=str(mq))
        c.sample({"op": line[:200], "impl": v, "model": str(mq)})
    return c


# ------------------------------------------------------------------ numpy mirrors, bit for bit
def _lin_F(tier, drv):
    rng = common.rng_for("C20.lin")
    c = Corr("lin-F", "bit-exact (Float model vs np.linspace(0, 99, bins))")
    bins_list = [1, 2, 3, 4, 5, 7, 10, 12, 13, 23, 34, 100, 101, 199, 397, 999, 1000, 1001, 2048]
    bins_list += [rng.randint(2, 3000) for _ in range(20 if tier == "quick" else 400)]
    lines = [f"lin.F bins={b}" for b in bins_list]
    res = drv.batch(lines)
    for b, line, ans in zip(bins_list, lines, res):
        want = flist(np.linspace(0, 99, b).tolist(), f2hex)
        c.case(b, b >= 2)
        if ans != want:
            c.disagree(kind="linspace", bins=b, impl=want[:200], model=ans[:200])
        c.sample({"op": line, "first": ans[:60]})
    return c


def _pct_F(tier, drv):
    rng = common.rng_for("C20.pct")
    c = Corr("pct-F", "bit-exact (Float model vs np.percentile, default method)")
    n_cases = 350 if tier == "quick" else 8000
    lines, meta = [], []
    for _ in range(n_cases):
        n = _len(rng, big=False)
        fam, w = _weights(rng, n)
        if rng.random() < 0.5:
            s = float(np.sum(np.array(w)))
            w = [x / s for x in w]
        k = rng.random()
        if k < 0.6:
            b = rng.choice([2, 3, 5, 12, 100, 1000, 1000, 1000])
            p = float(np.linspace(0, 99, b)[rng.randrange(b)])
        elif k < 0.8:
            p = float(rng.choice([0, 25, 50, 75, 99, 100, 12.5, 33]))
        else:
            p = rng.uniform(0, 100)
        v = float(np.percentile(np.array(w, dtype=float), p))
        lines.append(f"pct.F w={flist(w, f2hex)} p={f2hex(p)}")
        meta.append((w, p, v))
        c.case(([f2hex(x) for x in w], f2hex(p)), n >= 2 and p > 0)
        c.count("fam:" + fam)
    res = drv.batch(lines)
    for (w, p, v), line, ans in zip(meta, lines, res):
        if ans != f2hex(v):
            c.disagree(kind="percentile", w_hex=[f2hex(x) for x in w], p=p, impl=f2hex(v), model=ans)
        c.sample({"op": line[:200], "impl": f2hex(v), "model": ans})
    return c


# ------------------------------------------------------------------ trimming
_EXACT_BINS = [1, 2, 3, 4, 5, 7, 10, 12, 13, 23, 34, 100, 199, 397]
_EXACT_NM1 = [0, 1, 2, 3, 4, 5, 8, 10, 16, 20, 25, 40, 50, 100, 150, 200]
_PAIRS = None


def _exact_pairs():
    """(n, bins) for which numpy's grid and every virtual index are computed without rounding error"""
    global _PAIRS
    if _PAIRS is None:
        out = []
        for bins in _EXACT_BINS:
            grid = np.linspace(0, 99, bins).tolist()
            exact_p = [Fraction(0) if bins == 1 else Fraction(99 * i, bins - 1) for i in range(bins)]
            if any(Fraction(g) != e for g, e in zip(grid, exact_p)):
                continue
            for nm1 in _EXACT_NM1:
                ok = True
                for g, e in zip(grid, exact_p):
                    v = nm1 * (g / 100)         # the two float operations numpy performs
                    ev = nm1 * e / 100
                    if Fraction(v) != ev or Fraction(v).denominator > 2 ** 12:
                        ok = False
                        break
                if ok:
                    out.append((nm1 + 1, bins))
        _PAIRS = out
    return _PAIRS


def _run_trim(w, ess, bins, two_d=False):
    """real trim_weights on copies; returns (kept indices, returned weights, in-place normalised copy)"""
    t = _tools()
    n = len(w)
    wc = np.array(w, dtype=float)
    tags = np.arange(n)
    samples = np.stack([tags, 2 * tags + 1], axis=1) if two_d else tags.copy()
    cm = _quiet()
    try:
        s, wt = t.trim_weights(samples, wc, ess=ess, bins=bins)
    finally:
        cm.__exit__(None, None, None)
    return np.asarray(s), np.asarray(wt, dtype=float), wc


def _parse_trim(ans, dec):
    toks = ans.split(" ")
    if len(toks) != 6:
        return None
    return {"stop": int(toks[0]), "thr": dec(toks[1]), "idx": parse_list(toks[2], int), "wt": parse_list(toks[3], dec),
            "ratio": dec(toks[4]), "rej": None if toks[5] == "-" else dec(toks[5])}


def _trim_Q(tier, drv):
    rng = common.rng_for("C20.trimQ")
    c = Corr("trim-Q", "exact-dyadic (Rat model; index set exact, weights = correctly rounded exact values)")
    pairs = _exact_pairs()
    n_cases = 420 if tier == "quick" else 8000
    ess_vals = [0.99, 0.99, 0.9, 0.5, 0.75, 0.999, 0.25, 0.97]
    lines, meta = [], []
    for _ in range(n_cases):
        bins = rng.choice(sorted({b for _, b in pairs}))
        n = rng.choice([a for a, b in pairs if b == bins and (a > 1 or rng.random() < 0.1)] or [1])
        m = rng.randint(max(4, (n - 1).bit_length()), 16)
        fam, ks = _pow2_ints(rng, n, m)
        e = rng.choice([0, 0, 0, 3, -7, 40])
        ws = [Fraction(k) * Fraction(2) ** (e - m) for k in ks]
        # 1 case in 12 asks for more than the grid can give (ess = 1.5): exercises the unconditional break at grid index 0
        ess = 1.5 if rng.random() < 1 / 12 else rng.choice(ess_vals)
        lines.append(f"trim.Q w={flist(ws, frac2s)} ess={frac2s(Fraction(ess))} bins={bins}")
        meta.append((ws, ess, bins, fam))
    res = drv.batch(lines)
    for (ws, ess, bins, fam), line, ans in zip(meta, lines, res):
        wf = [float(x) for x in ws]
        mo = _parse_trim(ans, Fraction)
        n = len(ws)
        try:
            s, wt, wc = _run_trim(wf, ess, bins)
        except Exception as ex:  # noqa
            c.case((line,), True)
            c.disagree(kind="trim", w_hex=[f2hex(x) for x in wf], ess=ess, bins=bins, impl=f"raised {type(ex).__name__}: {ex}", model=ans[:200])
            continue
        c.case((line,), mo is not None and (len(mo["idx"]) < n or mo["stop"] < bins - 1))
        c.count("fam:" + fam)
        c.count(f"bins={bins}")
        if mo is None:
            c.disagree(kind="trim", w_hex=[f2hex(x) for x in wf], ess=ess, bins=bins, impl=s.tolist()[:50], model=ans[:200])
            continue
        e = Fraction(ess)
        # the pass at grid index 0 breaks unconditionally (`or i == 0`): its ratio decides nothing
        margin = (mo["ratio"] - e) if mo["stop"] > 0 else Fraction(1)
        if mo["rej"] is not None:
            margin = min(margin, e - mo["rej"])
        if margin < Fraction(1, 10 ** 12):
            c.near_ties += 1
            continue
        c.count("trimmed" if len(mo["idx"]) < n else "kept_all")
        c.count("passes>1" if mo["stop"] < bins - 1 else "passes=1")
        if mo["stop"] == 0 and mo["ratio"] < e:
            c.count("bottom-of-grid-break")
        if bins > 1 and (Fraction(99 * mo["stop"] * (n - 1), 100 * (bins - 1))).denominator > 1:
            c.count("stop-pass-interpolates")
        inplace = all(float(x / sum(ws)) == y for x, y in zip(ws, wc.tolist()))
        c.count("caller-array:normalised-in-place" if inplace else ("caller-array:untouched" if wc.tolist() == wf else "caller-array:OTHER"))
        same = (s.tolist() == mo["idx"] and len(wt) == len(mo["wt"])
                and all(float(q) == x for q, x in zip(mo["wt"], wt.tolist()))
                and (inplace or wc.tolist() == wf))
        if not same:
            c.disagree(kind="trim", w_hex=[f2hex(x) for x in wf], ess=ess, bins=bins,
                       impl=[s.tolist()[:60], [f2hex(x) for x in wt.tolist()[:20]]],
                       model=[mo["idx"][:60], [f2hex(float(q)) for q in mo["wt"][:20]], mo["stop"]])
        c.sample({"op": line[:160], "impl_kept": s.tolist()[:20], "model": ans[:160]})
    return c


def _trim_weights_T(rng, n):
    fam = rng.choice(["temper", "temper", "temper", "ties", "dups", "lognormal", "zeros", "uniform"])
    if fam == "temper":
        k = 10.0 ** rng.uniform(-4, 0.3)
        w = [math.exp(-k * r) for r in range(n)]
        if rng.random() < 0.7:
            rng.shuffle(w)
    elif fam == "ties":
        vals = [10.0 ** rng.uniform(-4, 0) for _ in range(rng.randint(1, 5))]
        w = [rng.choice(vals) for _ in range(n)]
    elif fam == "dups":
        k = 10.0 ** rng.uniform(-3, 0)
        base = [math.exp(-k * r) for r in range(max(1, n // rng.randint(2, 6)))]
        w = [rng.choice(base) for _ in range(n)]
    elif fam == "lognormal":
        s = rng.uniform(0.2, 5)
        w = [math.exp(s * rng.gauss(0, 1)) for _ in range(n)]
    elif fam == "zeros":
        w = [rng.random() ** 4 if rng.random() < 0.5 else 0.0 for _ in range(n)]
        if not any(x > 0 for x in w):
            w[0] = 1.0
    else:
        w = [float(rng.choice([1.0, 0.1, 7.0]))] * n
    sc = rng.choice([1.0, 1.0, 1e-200, 1e200, 3.0])
    return fam, [x * sc for x in w]


def _margins(w, ess, bins, upto):
    """smallest deciding margins of the real computation over the passes i = bins-1 .. upto"""
    wn = np.array(w, dtype=float)
    wn = wn / np.sum(wn)
    tot = 1.0 / np.sum(wn ** 2.0)
    grid = np.linspace(0, 99, bins)
    m_thr, m_ratio = math.inf, math.inf
    for i in range(bins - 1, max(upto, 0) - 1, -1):
        th = float(np.percentile(wn, grid[i]))
        d = np.abs(wn - th)
        d = d[d > 0]
        if d.size and th > 0:
            m_thr = min(m_thr, float(d.min()) / th)
        k = wn[wn >= th]
        k = k / np.sum(k)
        r = (1.0 / np.sum(k ** 2.0)) / tot
        if i > 0:           # at i == 0 the loop breaks whatever the ratio is
            m_ratio = min(m_ratio, abs(r - ess))
    return m_thr, m_ratio


def _trim_T(tier, drv):
    rng = common.rng_for("C20.trimT")
    c = Corr("trim-T", "toleranced (Float model vs numpy; index set exact up to near ties)")
    n_cases = 130 if tier == "quick" else 1500
    lines, meta = [], []
    for _ in range(n_cases):
        k = rng.random()
        n = rng.randint(1, 40) if k < 0.25 else (rng.randint(41, 600) if k < 0.85 else rng.randint(601, 2500))
        fam, w = _trim_weights_T(rng, n)
        if rng.random() < 0.65:
            ess, bins = 0.99, 1000
        else:
            ess, bins = rng.choice([0.5, 0.9, 0.99, 0.999]), rng.choice([1, 2, 10, 100, 1000])
        lines.append(f"trim.F w={flist(w, f2hex)} ess={f2hex(ess)} bins={bins}")
        meta.append((w, ess, bins, fam))
    res = drv.batch(lines)
    for (w, ess, bins, fam), line, ans in zip(meta, lines, res):
        mo = _parse_trim(ans, hex2f)
        n = len(w)
        try:
            s, wt, wc = _run_trim(w, ess, bins)
        except Exception as ex:  # noqa
            c.case(([f2hex(x) for x in w], ess, bins), True)
            c.disagree(kind="trim", w_hex=[f2hex(x) for x in w], ess=ess, bins=bins, impl=f"raised {type(ex).__name__}: {ex}", model=ans[:200])
            continue
        c.case(([f2hex(x) for x in w], ess, bins), mo is not None and (len(mo["idx"]) < n or mo["stop"] < bins - 1))
        c.count("fam:" + fam)
        c.count("sampler-constants" if (ess, bins) == (0.99, 1000) else "other-constants")
        if mo is None:
            c.disagree(kind="trim", w_hex=[f2hex(x) for x in w], ess=ess, bins=bins, impl=s.tolist()[:50], model=ans[:200])
            continue
        c.count("trimmed" if len(mo["idx"]) < n else "kept_all")
        c.count("passes>1" if mo["stop"] < bins - 1 else "passes=1")
        if s.tolist() != mo["idx"]:
            m_thr, m_ratio = _margins(w, ess, bins, mo["stop"] - 1)
            if m_thr < 1e-9 or m_ratio < 1e-9:
                c.near_ties += 1
            else:
                c.disagree(kind="trim", w_hex=[f2hex(x) for x in w], ess=ess, bins=bins,
                           impl=[len(s), s.tolist()[:40]], model=[len(mo["idx"]), mo["idx"][:40], mo["stop"]],
                           margins=[m_thr, m_ratio])
            continue
        if len(wt) != len(mo["wt"]) or not all(_relclose(a, b) for a, b in zip(wt.tolist(), mo["wt"])):
            c.disagree(kind="trim", w_hex=[f2hex(x) for x in w], ess=ess, bins=bins,
                       impl=[f2hex(x) for x in wt.tolist()[:20]], model=[f2hex(x) for x in mo["wt"][:20]])
        c.sample({"op": line[:120], "kept": len(s), "n": n, "model_stop": mo["stop"]})
    return c


# ------------------------------------------------------------------ volume variation
def _solve(S, v):
    """exact solve S y = v by Gauss-Jordan on Fractions; None if singular"""
    d = len(S)
    M = [list(S[i]) + [v[i]] for i in range(d)]
    for col in range(d):
        piv = next((r for r in range(col, d) if M[r][col] != 0), None)
        if piv is None:
            return None
        M[col], M[piv] = M[piv], M[col]
        pv = M[col][col]
        M[col] = [x / pv for x in M[col]]
        for r in range(d):
            if r != col and M[r][col] != 0:
                f = M[r][col]
                M[r] = [a - f * b for a, b in zip(M[r], M[col])]
    return [M[i][d] for i in range(d)]


def volvar_ref(x, w):
    """Lemmas.VolVar.volvar transcribed to exact rational arithmetic (sqrt at the very end)"""
    n, d = len(x), len(x[0])
    if n < d + 1:
        return 1e10
    x = [[Fraction(t) for t in row] for row in x]
    w = [Fraction(t) for t in w]
    sw = sum(w)
    wn = [t / sw for t in w]
    mean = [sum(wn[i] * x[i][k] for i in range(n)) for k in range(d)]
    xc = [[x[i][k] - mean[k] for k in range(d)] for i in range(n)]
    S = [[sum(wn[i] * xc[i][a] * xc[i][b] for i in range(n)) for b in range(d)] for a in range(d)]

    def metric(S):
        acc = Fraction(0)
        for i in range(n):
            y = _solve(S, xc[i])
            if y is None:
                return None
            d2 = sum(a * b for a, b in zip(xc[i], y))
            dev = min(max(d2 - d, Fraction(-10 ** 6)), Fraction(10 ** 6))
            acc += wn[i] ** 2 * dev ** 2
        return 0.5 * math.sqrt(acc)

    r = metric(S)
    if r is not None:
        return r
    reg = Fraction(1, 10 ** 6) * sum(S[k][k] for k in range(d))
    S2 = [[S[a][b] + (reg if a == b else 0) for b in range(d)] for a in range(d)]
    r = metric(S2)
    return 1e10 if r is None else r


def _real_volvar(x, w):
    t = _tools()
    cm = _quiet()
    try:
        return float(t.volume_variation(np.array(x, dtype=float), None if w is None else np.array(w, dtype=float)))
    except Exception:  # noqa
        return math.nan
    finally:
        cm.__exit__(None, None, None)


def _dyadic_cloud(rng, n, d, kind):
    x = [[Fraction(rng.randint(-64, 64), 8) for _ in range(d)] for _ in range(n)]
    if kind == "const-col":
        j = rng.randrange(d)
        v = Fraction(rng.randint(-8, 8), 2)
        for row in x:
            row[j] = v
    elif kind == "identical":
        x = [list(x[0]) for _ in range(n)]
    # weights: small integers with power-of-two sum (weighted mean and covariance exact in floating point)
    m = rng.randint(max(3, (n - 1).bit_length() + 1), 8)
    ks = [1] * n
    for _ in range(2 ** m - n):
        ks[rng.randrange(n)] += 1
    if kind == "full" and rng.random() < 0.3:
        ks = None           # the `w is None` path (uniform weights)
    return x, ks


def _cond_matrix(npr, d, cond):
    q1, _ = np.linalg.qr(npr.standard_normal((d, d)))
    q2, _ = np.linalg.qr(npr.standard_normal((d, d)))
    sv = np.exp(np.linspace(0, math.log(cond), d)) if d > 1 else np.array([1.0])
    return q1 @ np.diag(sv * math.exp(npr.uniform(-2, 2))) @ q2.T


def _volvar_suites(tier):
    rng = common.rng_for("C20.volvar")
    npr = np.random.RandomState(rng.getrandbits(31))
    cref = Corr("volvar-reference", "toleranced (real volume_variation vs exact-rational transcription of the Lean definition)")
    n_ref = 70 if tier == "quick" else 600
    for _ in range(n_ref):
        d = rng.randint(1, 4)
        k = rng.random()
        if k < 0.72:
            kind, n = "full", rng.randint(5 * d, 5 * d + 25)
        elif k < 0.84:
            kind, n = "const-col", rng.randint(d + 1, 20)
        elif k < 0.92:
            kind, n = "identical", rng.randint(d + 1, 8)
        else:
            kind, n = "too-few", rng.randint(1, d)
        x, ks = _dyadic_cloud(rng, n, d, kind)
        if kind == "const-col" and d == 1:
            kind = "identical"
        ref = volvar_ref(x, ks if ks is not None else [1] * n)
        real = _real_volvar([[float(t) for t in r] for r in x], None if ks is None else [float(k) for k in ks])
        cref.case(([[frac2s(t) for t in r] for r in x], ks), kind != "too-few")
        cref.count("branch:" + kind)
        tol = 1e-9 if kind == "full" else 1e-8
        if not _close(real, ref, tol):
            cref.disagree(kind="volvar-ref", x=[[float(t) for t in r] for r in x], w=ks, impl=real, model=ref, branch=kind)
        cref.sample({"n": n, "d": d, "branch": kind, "impl": real, "model": ref})
    cinv = Corr("volvar-invariance", "toleranced (real vs real under the proven symmetries)")
    n_inv = 70 if tier == "quick" else 600
    for _ in range(n_inv):
        d = rng.randint(1, 5)
        n = rng.randint(5 * d, 5 * d + 60)
        x = npr.standard_normal((n, d)) @ _cond_matrix(npr, d, 10.0 ** rng.uniform(0, 1)).T + npr.uniform(-5, 5, d)
        w = np.exp(npr.uniform(0, math.log(10.0 ** rng.uniform(0, 3)) + 1e-12, n))
        A = _cond_matrix(npr, d, 10.0 ** rng.uniform(0, 3))
        b = npr.uniform(-100, 100, d)
        cs = 10.0 ** rng.uniform(-6, 6)
        v0 = _real_volvar(x, w)
        v1 = _real_volvar(x @ A.T + b, cs * w)
        cinv.case(([f2hex(t) for t in x.ravel()[:8]], f2hex(cs)), True)
        cinv.count(f"d={d}")
        if not (v0 >= 0 and _close(v0, v1, 1e-6)):
            cinv.disagree(kind="volvar-inv", x=x.tolist(), w=w.tolist(), A=A.tolist(), b=b.tolist(), c=cs, impl=v1, model=v0)
        cinv.sample({"n": n, "d": d, "v": v0, "v_transformed": v1})
    # ill-conditioned affine maps (cond(A) up to ~3e5: the statement goes to 1e6): the tolerance follows the conditioning of the
    # transformed covariance, 20 * eps * cond(S) * cond(A)^2 (measured on the unchanged code: the error stays below 0.6 of
    # eps * cond(S) * cond(A)^2); cases whose tolerance would exceed 2 % are not generated
    cill = Corr("volvar-invariance-illcond", "toleranced (20*eps*cond(S)*cond(A)^2 + 1e-6)")
    n_ill = 60 if tier == "quick" else 500
    made = 0
    while made < n_ill:
        d = rng.randint(2, 5)
        top = made % 4 == 0          # every 4th case: cond(A) in [3e5, 1e6] (the end of the quantifier) on a well-conditioned cloud
        n = rng.randint(40 * d, 40 * d + 60) if top else rng.randint(5 * d, 5 * d + 60)
        x = npr.standard_normal((n, d)) @ _cond_matrix(npr, d, 1.0 if top else 10.0 ** rng.uniform(0, 0.7)).T + npr.uniform(-5, 5, d)
        w = np.exp(npr.uniform(0, math.log(10.0 ** rng.uniform(0, 0.3 if top else 2)) + 1e-12, n))
        A = _cond_matrix(npr, d, 10.0 ** (rng.uniform(5.5, 6.0) if top else rng.uniform(3, 5.5)))
        b = npr.uniform(-100, 100, d)
        wn = w / w.sum()
        xc = x - (x * wn[:, None]).sum(0)
        kS = float(np.linalg.cond(xc.T @ (xc * wn[:, None])))
        kA = float(np.linalg.cond(A))
        tol = 20 * 2.2e-16 * kS * kA * kA + 1e-6
        if tol > 0.02:
            continue
        made += 1
        v0 = _real_volvar(x, w)
        v1 = _real_volvar(x @ A.T + b, w)
        cill.case(([f2hex(t) for t in x.ravel()[:8]], f2hex(kA)), True)
        cill.count("condA>=3e5" if kA >= 3e5 else f"condA=1e{int(math.log10(kA))}")
        if not (v0 >= 0 and _close(v0, v1, tol)):
            cill.disagree(kind="volvar-inv-ill", x=x.tolist(), w=w.tolist(), A=A.tolist(), b=b.tolist(), c=1.0, impl=v1, model=v0, tol=tol)
        cill.sample({"n": n, "d": d, "condA": kA, "v": v0, "v_transformed": v1, "tol": tol})
    return [cref, cinv, cill]


def correspond(tier):
    drv = common.Driver()
    out = [_ess_T(tier, drv), _ess_Q(tier, drv), _lin_F(tier, drv), _pct_F(tier, drv), _trim_Q(tier, drv), _trim_T(tier, drv)]
    out += _volvar_suites(tier)
    from . import c20_audit
    out += c20_audit.suites(tier, drv)
    return out


def translators():
    # Props/C20Sites.lean states `C20_gen_trim_constants` on the regenerated TRIM_ESS / TRIM_BINS of /repo's config.py
    from translate import g1_constants, g16_tools
    # Props/C20Source.lean proves that Model.Ess / Model.Trim / Model.VolVar ARE the four functions of tools.py as compiled from
    # /repo's current source (Gen/ToolsSrc.lean, regenerated here)
    return [g1_constants.generate(), g16_tools.generate()]


# ------------------------------------------------------------------ property oracle on the real code
def oracle_ess(w):
    t = _tools()
    a = np.array(w, dtype=float)
    n = len(w)
    cm = _quiet()
    try:
        v = float(t.effective_sample_size(a.copy()))
        if not (math.isfinite(v) and 1 - 1e-9 <= v <= n * (1 + 1e-9)):
            return f"effective_sample_size = {v!r} outside [1, N={n}]"
        if _allequal(w) and not _relclose(v, float(n)):
            return f"uniform weights: effective_sample_size = {v!r}, N = {n}"
        for cfac in (2.0, 0.5, 3.7, 1e-5):
            if max(w) * cfac * n < 1e307 and min(x for x in w if x > 0) * cfac > 1e-300:
                v2 = float(t.effective_sample_size(a * cfac))
                if not _relclose(v, v2):
                    return f"not scale invariant: ess(w) = {v!r}, ess({cfac} w) = {v2!r}"
        lw = np.array([math.log(x) if x > 0 else -math.inf for x in w])
        ce = float(t.compute_ess(lw.copy()))
        if not _relclose(ce * n, v, 1e-8):
            return f"compute_ess(log w) * N = {ce * n!r} but effective_sample_size(w) = {v!r}"
        if not (1.0 / n * (1 - 1e-9) <= ce <= 1 + 1e-9):
            return f"compute_ess = {ce!r} outside [1/N, 1]"
        for sh in (5.0, -300.0, 1e4):
            ce2 = float(t.compute_ess(lw + sh))
            if not _relclose(ce, ce2, 1e-8):
                return f"compute_ess not shift invariant: {ce!r} vs {ce2!r} (shift {sh})"
    finally:
        cm.__exit__(None, None, None)
    return None


def oracle_trim(w, ess, bins):
    """the trimming contract on the REAL trim_weights, for weights of ANY overall scale (they need not sum to one):
       normalised, aligned, exactly an upper set of the input weights, ESS(trimmed) >= min(ess,1) * ESS(all).
       What happens to the caller's array (rescaled in place or left alone) is NOT part of the contract: it is a
       call-site fact, checked where the Trainer hands the array on to the Resampler (suite callsite-train)."""
    t = _tools()
    n = len(w)
    w0 = np.array(w, dtype=float)
    try:
        s2, wt, _ = _run_trim(w, ess, bins, two_d=True)
    except Exception as e:  # noqa
        return f"trim_weights raised {type(e).__name__}: {e}"
    if s2.ndim != 2 or len(s2) != len(wt):
        return f"samples ({s2.shape}) and weights ({wt.shape}) not aligned in length"
    if len(wt) == 0:
        return "empty result (no sample kept)"
    idx = s2[:, 0].astype(int)
    if not np.array_equal(s2[:, 1], 2 * idx + 1):
        return "sample rows scrambled"
    if np.any(np.diff(idx) <= 0) or idx.min() < 0 or idx.max() >= n:
        return f"kept indices not an increasing subset of range(n): {idx.tolist()[:20]}"
    if not (abs(float(np.sum(wt)) - 1.0) <= 1e-9) or np.any(wt < 0):
        return f"returned weights not normalised: sum = {float(np.sum(wt))!r}"
    kept = np.zeros(n, dtype=bool)
    kept[idx] = True
    # upper set of the INPUT weights (division by a positive sum is monotone, so ties in w0 stay ties after normalisation;
    # two different inputs can collapse to one double, hence the comparison on both w0 and w0/sum)
    cm = _quiet()
    try:
        wn = w0 / np.sum(w0)
    finally:
        cm.__exit__(None, None, None)
    thr = w0[kept].min()
    out = ~kept & (w0 >= thr) & (wn >= wn[kept].min())
    if np.any(out):
        j = int(np.flatnonzero(out)[0])
        return f"not an upper set: index {j} (weight {w0[j]!r}) dropped although >= smallest kept weight {thr!r}"
    ks = float(np.sum(wn[kept]))
    if not np.allclose(wt * ks, wn[kept], rtol=1e-11, atol=0.0):
        return "returned weights are not the kept weights renormalised (misaligned)"
    cm = _quiet()
    try:
        e1 = float(t.effective_sample_size(wt.copy()))
        e0 = float(t.effective_sample_size(w0.copy()))
        # the statement's ESS, not the library's own helper (which a change may have touched): Kish on the normalised input
        k0 = 1.0 / float(np.sum(wn ** 2.0))
        k1 = 1.0 / float(np.sum((wt / np.sum(wt)) ** 2.0))
    finally:
        cm.__exit__(None, None, None)
    f = min(ess, 1.0)
    if not (e1 >= f * e0 * (1 - 1e-12)) or not (k1 >= f * k0 * (1 - 1e-9)):
        return (f"ESS guarantee broken (sum(w) = {float(np.sum(w0))!r}): ESS(trimmed) = {k1!r} < {f} * ESS(all) = {f * k0!r}"
                f" (ratio {k1 / k0:.6f}, {len(idx)} of {n} kept)")
    return None


def oracle_volvar(x, w, A=None, b=None, cs=None, exact=False):
    x = np.array(x, dtype=float)
    n, d = x.shape
    v0 = _real_volvar(x, w)
    if not (v0 >= 0):
        return f"volume_variation = {v0!r} is negative / nan"
    if exact:
        ref = volvar_ref([[Fraction(t) for t in r] for r in x.tolist()], [Fraction(t) for t in (w if w is not None else [1] * n)])
        if not _close(v0, ref, 1e-6):
            return f"volume_variation = {v0!r} but the defining formula 0.5*sqrt(sum w_i^2 (d_i^2 - n_dim)^2) gives {ref!r}"
    wv = np.ones(n) if w is None else np.array(w, dtype=float)
    if cs is not None:
        v1 = _real_volvar(x, cs * wv)
        if not _close(v0, v1, 1e-9):
            return f"not invariant under weight rescaling by {cs!r}: {v0!r} vs {v1!r}"
    if A is not None:
        A = np.array(A, dtype=float)
        bb = np.zeros(d) if b is None else np.array(b, dtype=float)
        # tolerance scaled with the conditioning of the transformed covariance (inverse computed in doubles)
        wn = wv / wv.sum()
        xc = x - (x * wn[:, None]).sum(0)
        kS = np.linalg.cond(xc.T @ (xc * wn[:, None]))
        kA = np.linalg.cond(A)
        tol = 20 * 2.2e-16 * kS * kA * kA + 1e-6
        if tol > 0.02:
            return None      # conditioning too poor for any fixed-precision comparison to be meaningful
        v1 = _real_volvar(x @ A.T + bb, wv)
        if not _close(v0, v1, tol):
            return f"not affine invariant (cond A = {kA:.3g}, tolerance {tol:.2g}): {v0!r} vs {v1!r}"
    return None


def _enc(a):
    return [f2hex(t) for t in np.asarray(a, dtype=float).ravel().tolist()]


def oracle_cess(lw):
    """compute_ess on log-weights (possibly -inf) against effective_sample_size of the weights they stand for"""
    t = _tools()
    la = np.array(lw, dtype=float)
    if not np.any(np.isfinite(la)):
        return None
    cm = _quiet()
    try:
        ce = float(t.compute_ess(la.copy()))
        w = np.exp(la - np.max(la))
        v = float(t.effective_sample_size(w))
    finally:
        cm.__exit__(None, None, None)
    n = len(lw)
    if not (abs(ce * n - v) <= 1e-9 * v):
        return f"compute_ess(logw) * N = {ce * n!r} but effective_sample_size(exp(logw - max)) = {v!r}"
    if not ((1.0 / n) * (1 - 1e-9) <= ce <= 1 + 1e-9):
        return f"compute_ess = {ce!r} outside [1/N, 1]"
    return None


def search(tier, hints):
    from . import c20_audit
    found = []

    def add(kind, msg, **kw):
        found.append(dict(kind=kind, what=msg, **kw))
        return len(found) >= 5

    # 1. replay what the correspondence flagged
    for h in hints:
        try:
            if h.get("kind") == "ess" and "w_hex" in h:
                w = [hex2f(t) for t in h["w_hex"]]
                m = oracle_ess(w) or c20_audit.ess_property(w)[0]
                if m and add("ess", m, w_hex=h["w_hex"]):
                    return found
            elif h.get("kind") == "cess" and "logw_hex" in h:
                lw = [hex2f(t) for t in h["logw_hex"]]
                m = oracle_cess(lw)
                if m and add("cess", m, logw_hex=h["logw_hex"]):
                    return found
            elif h.get("kind") == "trim":
                w = [hex2f(t) for t in h["w_hex"]]
                m = c20_audit.trim_property(w, h["ess"], h["bins"])[0]
                if m and add("trim", m, w_hex=h["w_hex"], ess=h["ess"], bins=h["bins"]):
                    return found
            elif h.get("kind") in ("site-train", "site-flow", "site-metric", "site-train-seq", "trim-kw"):
                r = c20_audit.replay_site(h)
                if r["fails"] and add(h["kind"], r["detail"], **{k: h[k] for k in ("seed", "clustering", "w_hex", "ws_hex", "beta", "vv", "d", "ess", "bins", "extra") if k in h}):
                    return found
            elif h.get("kind") == "volvar-ref":
                m = oracle_volvar(h["x"], h["w"], exact=True)
                if m and add("volvar", m, x=h["x"], w=h["w"], exact=True):
                    return found
            elif h.get("kind") in ("volvar-inv", "volvar-inv-ill"):
                m = oracle_volvar(h["x"], h["w"], h["A"], h["b"], h["c"])
                if m and add("volvar", m, x=h["x"], w=h["w"], A=h["A"], b=h["b"], c=h["c"]):
                    return found
        except Exception:  # noqa  (a hint that cannot be replayed is just skipped)
            continue
    rng = common.rng_for("C20.search")
    big = tier != "quick"
    # 2. ESS
    fixed = [[1.0], [1.0, 1.0], [0.25] * 7, [1.0, 0.0, 0.0], [1e300, 1e300, 1.0], [1e-300, 1e-300], [3.0, 1.0, 2.0, 0.0]]
    for w in fixed + [_weights(rng, _len(rng, big=False))[1] for _ in range(6000 if big else 500)]:
        try:
            m = oracle_ess(w) or c20_audit.ess_property(w)[0]
        except Exception as e:  # noqa
            m = f"raised {type(e).__name__}: {e}"
        if m and add("ess", m, w_hex=_enc(w)):
            return found
    for _ in range(300 if big else 60):
        n = rng.randint(1, 40)
        lw = [(-math.inf if rng.random() < 0.4 else rng.gauss(0, 30.0)) for _ in range(n)]
        try:
            m = oracle_cess(lw)
        except Exception as e:  # noqa
            m = f"raised {type(e).__name__}: {e}"
        if m and add("cess", m, logw_hex=_enc(lw)):
            return found
    # 3. trimming
    tr = [([1.0, 1.0, 1.0, 1.0], 0.99, 1000), ([0.5, 0.5], 0.5, 1), ([1.0], 0.99, 1000), ([1.0, 2.0, 3.0, 4.0], 0.9, 5),
          ([math.exp(-0.5 * r) for r in range(50)], 0.99, 1000), ([2.0 ** (-r) for r in range(20)] + [0.0] * 5, 0.9, 100)]
    for _ in range(4000 if big else 300):
        n = rng.randint(1, 400)
        _, w = _trim_weights_T(rng, n)
        if rng.random() < 0.6:
            tr.append((w, 0.99, 1000))
        else:
            tr.append((w, rng.choice([0.3, 0.5, 0.9, 0.99, 0.999]), rng.choice([1, 2, 3, 10, 100, 1000])))
    tr += [([1.0, 2.0, 3.0], 512.0, 10), ([0.75, 0.4375, 0.1875], 1.0, 1000), ([3.0, 1.0, 2.0], 0.9, 1)]
    tr = c20_audit.grid_trim_cases(rng, 280 if big else 84) + c20_audit.unnormalised_trim_cases(rng, 120 if big else 40) + tr
    for w, ess, bins in tr:
        try:
            m = c20_audit.trim_property(w, ess, bins)[0]
        except Exception as e:  # noqa
            m = f"raised {type(e).__name__}: {e}"
        if m and add("trim", m, w_hex=_enc(w), ess=ess, bins=bins):
            return found
    # 3b. call sites (Trainer.run, execute_iteration)
    if c20_audit.search_sites(tier, lambda kind, msg, **kw: add(kind, msg, **kw)):
        return found
    # 4. volume variation
    npr = np.random.RandomState(rng.getrandbits(31))
    for _ in range(1500 if big else 120):
        d = rng.randint(1, 4)
        kind = "full" if rng.random() < 0.8 else rng.choice(["const-col", "identical", "too-few"])
        n = rng.randint(1, d) if kind == "too-few" else rng.randint(5 * d, 5 * d + 15)
        xq, ks = _dyadic_cloud(rng, n, d, kind)
        x = [[float(t) for t in r] for r in xq]
        w = None if ks is None else [float(k) for k in ks]
        A = _cond_matrix(npr, d, 10.0 ** rng.uniform(0, 3)).tolist() if kind == "full" else None
        b = npr.uniform(-50, 50, d).tolist() if A is not None else None
        # invariances are tested on full-rank clouds only: on degenerate clouds the code's numerical rank test is
        # decided by rounding noise (outside the guarded statement)
        cs = 10.0 ** rng.uniform(-6, 6) if kind == "full" else None
        try:
            m = oracle_volvar(x, w, A, b, cs, exact=True)
        except Exception as e:  # noqa
            m = f"raised {type(e).__name__}: {e}"
        if m and add("volvar", m, x=x, w=w, A=A, b=b, c=cs, exact=True):
            return found
    return found


def replay(obj):
    f = obj.get("failing_input", obj)
    if "witness" in f.get("replay", {}):
        from . import witnesses
        return witnesses.ALL[f["replay"]["witness"]]()
    kind = f.get("kind")
    from . import c20_audit
    if kind == "ess":
        w = [hex2f(t) for t in f["w_hex"]]
        msg = oracle_ess(w) or c20_audit.ess_property(w)[0]
    elif kind == "cess":
        msg = oracle_cess([hex2f(t) for t in f["logw_hex"]])
    elif kind == "trim":
        msg = c20_audit.trim_property([hex2f(t) for t in f["w_hex"]], f["ess"], f["bins"])[0]
    elif kind in ("site-train", "site-flow", "site-metric", "site-train-seq", "trim-kw"):
        return c20_audit.replay_site(f)
    elif kind == "volvar":
        msg = oracle_volvar(f["x"], f.get("w"), f.get("A"), f.get("b"), f.get("c"), exact=bool(f.get("exact")))
    else:
        return {"fails": False, "detail": f"unknown failing-input kind {kind!r}"}
    return {"fails": msg is not None, "detail": msg}
